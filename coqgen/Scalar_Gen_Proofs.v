(** The Gallina that tools/py2coq_scalar.py generates from the CURRENT page_hinkley.py / ddm.py / eddm.py / stepd.py /
    cusum.py (Scalar_Gen.v, regenerated on every run of the C04 / C05 checks) computes, for EVERY arithmetic instance
    [N : Num] (no law is assumed: the statements hold of the bit-exact float instance and of the reals alike), every
    parameter value, every state and every input, the same values as the hand-written kernels [ph_step], [cusum_step] /
    [cusum_reset] (ChangeDet.v), [ddm_step], [eddm_step] and [stepd_step] (Ddm.v); hence theorems of Prop_C04.v /
    Prop_C05.v hold of the translated source.

    Compiled by the harness in a scratch directory against the freshly generated file:
      coqc -Q /verif/coq MV -Q . MVG Scalar_Gen.v ; coqc -Q /verif/coq MV -Q . MVG Scalar_Gen_Proofs.v
    (the committed Scalar_Gen.v beside this file is a snapshot for the reader).  The parts between
    "BEGIN <Class>" / "END <Class>" markers are independent of each other: the harness keeps the parts of the classes it
    re-translated and drops the others.

    Fields related.  PageHinkley: _max, _min, _sum, _mean <-> p_max, p_min, p_sum, p_mean (the model's p_rows, i.e. the
    eight history lists that update() appends to, is outside the statement).  DDM: _error_rate, _error_std,
    _error_rate_min, _error_std_min <-> d_rate, d_std, d_rate_min, d_std_min (all fields).  EDDM: _n_errors,
    _index_error_curr, _index_error_last, _dist_mean, _dist_std, _max_numerator, _test_statistic <-> all seven fields of
    eddm_e.  STEPD: _s, _r, _window, _test_statistic, _test_p <-> all five fields of stepd_e; the second input is the
    oracle value of `1 - norm.cdf(statistic)` (the ARGUMENT of the scipy call is not part of the statement).  In these
    four: the value assigned to drift_state (None = no assignment executed) <-> the second component of the kernel step;
    the third component of the translated function (no UnboundLocalError / IndexError / ZeroDivisionError) is [true]
    (STEPD: exactly when window_size and n - window_size are not 0 where the statistic divides by them).
    CUSUM: target, sd_hat <-> c_target, c_sd; the LISTS _upper_bound / _lower_bound <-> their last entries c_up / c_lo
    (precondition: both lists have samples_since_reset entries, which is what `self._upper_bound[n - 1]` needs to be the
    last entry; the translated function appends the model's new c_up / c_lo); _stream (oldest first) <-> rev of c_stream;
    the fourth component (an explicit `raise ValueError` was reached) <-> c_err; the reset slice <-> cusum_reset. *)
From Coq Require Import String.
From MV Require Import Base Num Lifecycle Pairwise ChangeDet ChangeDet_Proofs Ddm Ddm_Proofs Prop_C04 Prop_C05.
From MVG Require Import Scalar_Gen.
Local Open Scope num_scope.

(** Case analysis on every atomic condition that occurs, one at a time.  Integer `<=?` is first rewritten to `<?`
    (a >= b and not (a < b) are the same test on ints; no such law is used on floats), Python's min / max and the
    boolean connectives are unfolded to `if`s, so that `if a and b:` and `if a: if b:` are treated alike. *)
Ltac atomic c :=
  lazymatch c with
  | true => fail | false => fail
  | (if _ then _ else _) => fail
  | _ => idtac
  end.
(** integer tests first, decided by their specifications (impossible combinations closed by lia: [n < t] and
    [not (n >= t)], [len w > 0] and [len w <> 0], ... are the same test); only then the float tests, syntactically.
    No law about the arithmetic [N] is used: lia sees integers only. *)
Ltac zphase :=
  repeat (match goal with
          | |- context [(?a =? ?b)%Z] => destruct (Z.eqb_spec a b)
          | |- context [(?a <? ?b)%Z] => destruct (Z.ltb_spec a b)
          | |- context [(?a <=? ?b)%Z] => destruct (Z.leb_spec a b)
          end; try (exfalso; lia); cbv beta iota zeta).
Ltac split_ifs :=
  rewrite ?Z.leb_antisym; unfold pymax, pymin, andb, orb, negb; cbv beta iota zeta; zphase;
  repeat (match goal with |- context [if ?c then _ else _] => atomic c; destruct c end; cbv beta iota zeta).

(** The generic machine (Lifecycle.v) run on two kernels that are step-for-step related gives related states:
    used to carry whole-run theorems over to "machine + translated core". *)
Section Sim.
Context (K1 K2 : kernel) (R : E K1 -> E K2 -> Prop) (f : X K1 -> X K2).
Hypothesis Hpol : policy K1 = policy K2.
Hypothesis Hreset : forall e1 e2, R e1 e2 -> R (reset_e K1 e1) (reset_e K2 e2).
Hypothesis Hstep : forall e1 e2 n x, R e1 e2 ->
  R (fst (step_e K1 e1 n x)) (fst (step_e K2 e2 n (f x))) /\ snd (step_e K1 e1 n x) = snd (step_e K2 e2 n (f x)).

Definition st_rel (s1 : st K1) (s2 : st K2) : Prop :=
  R (epoch s1) (epoch s2) /\ observe s1 = observe s2.

Lemma update_sim s1 s2 x : st_rel s1 s2 -> st_rel (update s1 x) (update s2 (f x)).
Proof.
  destruct s1 as [e1 t1 n1 d1 r1], s2 as [e2 t2 n2 d2 r2]. unfold st_rel, observe. cbn [epoch ds total since recs].
  intros [HR Ho]. injection Ho as -> -> -> ->. unfold update. cbn [ds].
  destruct (is_drift d2); unfold do_reset; cbn [epoch ds total since recs].
  - destruct (Hstep _ _ (0 + 1)%Z x (Hreset _ _ HR)) as [A B].
    destruct (step_e K1 (reset_e K1 e1) (0 + 1) x) as [e1' o1], (step_e K2 (reset_e K2 e2) (0 + 1) (f x)) as [e2' o2].
    cbn [fst snd] in A, B. subst o2. cbn [epoch ds total since recs]. rewrite Hpol. split; [exact A | reflexivity].
  - destruct (Hstep _ _ (n2 + 1)%Z x HR) as [A B].
    destruct (step_e K1 e1 (n2 + 1) x) as [e1' o1], (step_e K2 e2 (n2 + 1) (f x)) as [e2' o2].
    cbn [fst snd] in A, B. subst o2. cbn [epoch ds total since recs]. rewrite Hpol. split; [exact A | reflexivity].
Qed.

Lemma run_sim xs : forall s1 s2, st_rel s1 s2 -> st_rel (run s1 xs) (run s2 (map f xs)).
Proof.
  induction xs as [|x xs IH]; intros s1 s2 H; [exact H|]. cbn [run map fold_left]. apply IH, update_sim, H.
Qed.

Lemma trace_sim xs : forall s1 s2, st_rel s1 s2 -> trace s1 xs = trace s2 (map f xs).
Proof.
  induction xs as [|x xs IH]; intros s1 s2 H; [reflexivity|]. cbn [trace map].
  pose proof (update_sim s1 s2 x H) as H'. rewrite (IH _ _ H'). destruct H' as [_ ->]. reflexivity.
Qed.
End Sim.

(* BEGIN PageHinkley *)
Section PageHinkley.
Context {N : Num}.
Notation F := (F N).

(** the strings the code compares `self.direction` with; with any other string the `if / elif` of update() assigns
    nothing to ph_difference and the next statement raises UnboundLocalError *)
Definition dir_of_string (s : string) : option direction :=
  if String.eqb s "positive" then Some DirPos else if String.eqb s "negative" then Some DirNeg else None.

Definition ph_fields (e : @ph_e N) : F * F * F * F := (p_max e, p_min e, p_sum e, p_mean e).

Theorem PageHinkley_core_is_ph_step :
  forall (delta threshold : F) (burn_in : Z) (dirs : string) (d : direction) (n : Z) (mx mn sm mean : F) rows (x : F),
  dir_of_string dirs = Some d ->
  let p := {| ph_delta := delta; ph_threshold := threshold; ph_burn_in := burn_in; ph_dir := d |} in
  let e := {| p_max := mx; p_min := mn; p_sum := sm; p_mean := mean; p_rows := rows |} in
  PageHinkley_core delta threshold burn_in dirs n (mx, mn, sm, mean) x =
  (ph_fields (fst (ph_step p e n x)), snd (ph_step p e n x), true).
Proof.
  intros delta threshold burn_in dirs d n mx mn sm mean rows x Hd p e. subst p e.
  unfold PageHinkley_core, ph_step, ph_fields, ph_diff, dir_of_string in *.
  cbn [ph_delta ph_threshold ph_burn_in ph_dir p_max p_min p_sum p_mean p_rows]. cbv beta iota zeta.
  destruct (String.eqb dirs "positive");
    [injection Hd as <- | destruct (String.eqb dirs "negative"); [injection Hd as <- | discriminate Hd]];
    cbv beta iota zeta; split_ifs; reflexivity.
Qed.

(** record form *)
Corollary PageHinkley_core_eq : forall (p : @ph_params N) dirs e n x, dir_of_string dirs = Some (ph_dir p) ->
  PageHinkley_core (ph_delta p) (ph_threshold p) (ph_burn_in p) dirs n (ph_fields e) x =
  (ph_fields (fst (ph_step p e n x)), snd (ph_step p e n x), true).
Proof. intros [dl th b d] dirs [mx mn sm mean rows] n x H. exact (PageHinkley_core_is_ph_step dl th b dirs d n mx mn sm mean rows x H). Qed.

(** with any other direction string the translated slice reads the unassigned local: the flag says so *)
Theorem PageHinkley_core_unbound : forall (delta threshold : F) burn_in dirs n st x,
  dir_of_string dirs = None -> snd (PageHinkley_core delta threshold burn_in dirs n st x) = false.
Proof.
  intros delta threshold burn_in dirs n [[[mx mn] sm] mean] x Hd. unfold PageHinkley_core, dir_of_string in *.
  destruct (String.eqb dirs "positive"); [discriminate Hd|]. destruct (String.eqb dirs "negative"); [discriminate Hd|].
  reflexivity.
Qed.

(** C04_ph_test of the translated update(): the four recurrences and the alarm rule *)
Theorem Gen_C04_ph_test : forall (p : @ph_params N) dirs e n x, dir_of_string dirs = Some (ph_dir p) ->
  let r := PageHinkley_core (ph_delta p) (ph_threshold p) (ph_burn_in p) dirs n (ph_fields e) x in
  fst (fst r) = (ph_max' p e n x, ph_min' p e n x, ph_sum' p e n x, ph_mean' e n x) /\
  (snd (fst r) = Some DDrift <-> ph_test p e n x = true /\ (ph_burn_in p < n)%Z) /\
  ((n <= ph_burn_in p)%Z -> snd (fst r) = None) /\
  snd r = true.
Proof.
  intros p dirs e n x Hd r. subst r. rewrite (PageHinkley_core_eq p dirs e n x Hd). cbn [fst snd].
  destruct (C04_ph_test p e n x) as (H1 & H2 & H3 & H4 & H5 & H6). unfold ph_fields.
  rewrite H1, H2, H3, H4. split; [reflexivity|]. split; [exact H5|]. split; [exact H6 | reflexivity].
Qed.

(** C04_ph_local: the decision and the new statistics are a function of the arguments of the translated function
    (trivially so for a Coq function; stated to show that the model's history field plays no role) *)
Theorem Gen_C04_ph_local : forall (p : @ph_params N) dirs e1 e2 n x, dir_of_string dirs = Some (ph_dir p) ->
  ph_fields e1 = ph_fields e2 ->
  snd (ph_step p e1 n x) = snd (ph_step p e2 n x) /\ ph_fields (fst (ph_step p e1 n x)) = ph_fields (fst (ph_step p e2 n x)).
Proof.
  intros p dirs e1 e2 n x Hd He.
  pose proof (PageHinkley_core_eq p dirs e1 n x Hd) as A. pose proof (PageHinkley_core_eq p dirs e2 n x Hd) as B.
  rewrite He in A. rewrite A in B.
  split; [exact (f_equal (fun r => snd (fst r)) B) | exact (f_equal (fun r => fst (fst r)) B)].
Qed.

(** machine + translated core: the generic lifecycle machine around the translated slice (reset values and
    retraining_recs policy as in the hand-written kernel [PH]) has the observable trace of the model *)
Definition PH_gen (delta threshold : F) (burn_in : Z) (dirs : string) : kernel :=
  {| E := F * F * F * F; X := F; reset_e := fun _ => (f0, f0, f0, f0);
     step_e := fun e n x => fst (PageHinkley_core delta threshold burn_in dirs n e x); policy := PolNoRecs |}.

Theorem Gen_ph_trace : forall (p : @ph_params N) dirs xs, dir_of_string dirs = Some (ph_dir p) ->
  trace (init (PH_gen (ph_delta p) (ph_threshold p) (ph_burn_in p) dirs) (f0, f0, f0, f0)) xs = trace (init (PH p) ph_e0) xs.
Proof.
  intros p dirs xs Hd. rewrite <- (map_id xs) at 2.
  apply (trace_sim (PH_gen (ph_delta p) (ph_threshold p) (ph_burn_in p) dirs) (PH p) (fun t e => t = ph_fields e) (fun x => x)).
  - reflexivity.
  - intros; reflexivity.
  - intros t e n x ->. cbn [step_e PH_gen PH]. rewrite (PageHinkley_core_eq p dirs e n x Hd). split; reflexivity.
  - split; reflexivity.
Qed.
End PageHinkley.

Print Assumptions PageHinkley_core_is_ph_step.
Print Assumptions PageHinkley_core_eq.
Print Assumptions PageHinkley_core_unbound.
Print Assumptions Gen_C04_ph_test.
Print Assumptions Gen_C04_ph_local.
Print Assumptions Gen_ph_trace.
(* END PageHinkley *)

(* BEGIN DDM *)
Section DDM.
Context {N : Num}.
Notation F := (F N).

Definition ddm_fields (e : @ddm_e N) : F * F * F * F := (d_rate e, d_std e, d_rate_min e, d_std_min e).

(** [correct] is the result of `y_pred == y_true`; the model's input is err = (y_pred != y_true) = negb correct *)
Theorem DDM_core_is_ddm_step :
  forall (n_threshold : Z) (warning_scale drift_scale : F) (n : Z) (rate sd rate_min sd_min : F) (correct : bool),
  let p := {| ddm_n_threshold := n_threshold; ddm_warning_scale := warning_scale; ddm_drift_scale := drift_scale |} in
  let e := {| d_rate := rate; d_std := sd; d_rate_min := rate_min; d_std_min := sd_min |} in
  DDM_core n_threshold warning_scale drift_scale n (rate, sd, rate_min, sd_min) correct =
  (ddm_fields (fst (ddm_step p e n (negb correct))), snd (ddm_step p e n (negb correct)), true).
Proof.
  intros n_threshold warning_scale drift_scale n rate sd rate_min sd_min correct p e. subst p e.
  unfold DDM_core, ddm_step, ddm_fields, py_bit.
  cbn [ddm_n_threshold ddm_warning_scale ddm_drift_scale d_rate d_std d_rate_min d_std_min]. cbv beta iota zeta.
  destruct correct; cbv beta iota zeta; split_ifs; reflexivity.
Qed.

Corollary DDM_core_eq : forall (p : @ddm_params N) e n correct,
  DDM_core (ddm_n_threshold p) (ddm_warning_scale p) (ddm_drift_scale p) n (ddm_fields e) correct =
  (ddm_fields (fst (ddm_step p e n (negb correct))), snd (ddm_step p e n (negb correct)), true).
Proof. intros [nt w d] [a b c e] n correct. exact (DDM_core_is_ddm_step nt w d n a b c e correct). Qed.

(** C05_ddm_rule of the translated update() *)
Theorem Gen_C05_ddm_rule : forall (p : @ddm_params N) e n correct,
  let err := negb correct in
  let r := DDM_core (ddm_n_threshold p) (ddm_warning_scale p) (ddm_drift_scale p) n (ddm_fields e) correct in
  let '(rate', sd', rmin', _) := fst (fst r) in
  ((n < ddm_n_threshold p)%Z -> snd (fst r) = None) /\
  ((ddm_n_threshold p <= n)%Z ->
     snd (fst r) =
       Some (if (ddm_rmin' e n err + ddm_drift_scale p * ddm_sd' e n err) <=? (ddm_rate' e n err + ddm_sd' e n err) then DDrift
             else if (ddm_rmin' e n err + ddm_warning_scale p * ddm_sd' e n err) <=? (ddm_rate' e n err + ddm_sd' e n err) then DWarn
             else DNone)) /\
  rate' = ddm_rate' e n err /\ sd' = ddm_sd' e n err /\
  ((ddm_n_threshold p <= n)%Z -> rmin' = ddm_rmin' e n err) /\
  snd r = true.
Proof.
  intros p e n correct err r. subst r. rewrite (DDM_core_eq p e n correct). fold err. cbn [fst snd]. unfold ddm_fields.
  destruct (C05_ddm_rule p e n err) as (H1 & H2 & H3 & H4 & H5). cbv zeta in H2.
  repeat split; assumption.
Qed.

Definition DDM_gen (n_threshold : Z) (warning_scale drift_scale : F) : kernel :=
  {| E := F * F * F * F; X := bool; reset_e := fun _ => (f0, f0, finf, finf);
     step_e := fun e n c => fst (DDM_core n_threshold warning_scale drift_scale n e c); policy := PolFirstWarn |}.

Lemma Gen_ddm_run : forall (p : @ddm_params N) cs,
  st_rel (DDM_gen (ddm_n_threshold p) (ddm_warning_scale p) (ddm_drift_scale p)) (DDM p) (fun t e => t = ddm_fields e)
         (run (init (DDM_gen (ddm_n_threshold p) (ddm_warning_scale p) (ddm_drift_scale p)) (f0, f0, finf, finf)) cs)
         (run (init (DDM p) ddm_e0) (map negb cs)).
Proof.
  intros p cs. apply (run_sim (DDM_gen (ddm_n_threshold p) (ddm_warning_scale p) (ddm_drift_scale p)) (DDM p) (fun t e => t = ddm_fields e) negb).
  - reflexivity.
  - intros; reflexivity.
  - intros t e n c ->. cbn [step_e DDM_gen DDM]. rewrite (DDM_core_eq p e n c). split; reflexivity.
  - split; reflexivity.
Qed.

(** machine + translated core has the observable trace of the model (inputs: correct? on one side, error? on the other) *)
Theorem Gen_ddm_trace : forall (p : @ddm_params N) cs,
  trace (init (DDM_gen (ddm_n_threshold p) (ddm_warning_scale p) (ddm_drift_scale p)) (f0, f0, finf, finf)) cs =
  trace (init (DDM p) ddm_e0) (map negb cs).
Proof.
  intros p cs. apply (trace_sim (DDM_gen (ddm_n_threshold p) (ddm_warning_scale p) (ddm_drift_scale p)) (DDM p) (fun t e => t = ddm_fields e) negb).
  - reflexivity.
  - intros; reflexivity.
  - intros t e n c ->. cbn [step_e DDM_gen DDM]. rewrite (DDM_core_eq p e n c). split; reflexivity.
  - split; reflexivity.
Qed.

(** C05_ddm_recs of machine + translated core *)
Theorem Gen_C05_ddm_recs : forall (p : @ddm_params N) cs,
  let s := run (init (DDM_gen (ddm_n_threshold p) (ddm_warning_scale p) (ddm_drift_scale p)) (f0, f0, finf, finf)) cs in
  ds s = DDrift -> exists a, recs s = (Some a, Some (total s - 1)%Z) /\ (a <= total s - 1)%Z.
Proof.
  intros p cs s. destruct (Gen_ddm_run p cs) as [_ Ho]. fold s in Ho. unfold observe in Ho. injection Ho as -> -> _ ->.
  exact (C05_ddm_recs p (map negb cs)).
Qed.
End DDM.

Print Assumptions DDM_core_is_ddm_step.
Print Assumptions DDM_core_eq.
Print Assumptions Gen_C05_ddm_rule.
Print Assumptions Gen_ddm_trace.
Print Assumptions Gen_C05_ddm_recs.
(* END DDM *)

(* BEGIN EDDM *)
Section EDDM.
Context {N : Num}.
Notation F := (F N).

Definition eddm_fields (e : @eddm_e N) : Z * Z * Z * F * F * F * option F :=
  (e_n_errors e, e_idx_curr e, e_idx_last e, e_mean e, e_std e, e_max e, e_stat e).

(** [correct] is the result of `y_pred == y_true`, which is also the model's input *)
Theorem EDDM_core_is_eddm_step :
  forall (n_threshold : Z) (warning_thresh drift_thresh : F) (n : Z) (ne curr last : Z) (mean sd mx : F) (stat : option F)
         (correct : bool),
  let p := {| eddm_n_threshold := n_threshold; eddm_warning_thresh := warning_thresh; eddm_drift_thresh := drift_thresh |} in
  let e := {| e_n_errors := ne; e_idx_curr := curr; e_idx_last := last; e_mean := mean; e_std := sd; e_max := mx;
              e_stat := stat |} in
  EDDM_core n_threshold warning_thresh drift_thresh n (ne, curr, last, mean, sd, mx, stat) correct =
  (eddm_fields (fst (eddm_step p e n correct)), snd (eddm_step p e n correct), true).
Proof.
  intros n_threshold warning_thresh drift_thresh n ne curr last mean sd mx stat correct p e. subst p e.
  unfold EDDM_core, eddm_step, eddm_fields, py_bit, py_bitZ.
  cbn [eddm_n_threshold eddm_warning_thresh eddm_drift_thresh e_n_errors e_idx_curr e_idx_last e_mean e_std e_max e_stat].
  cbv beta iota zeta.
  destruct correct; cbv beta iota zeta; split_ifs; reflexivity.
Qed.

Corollary EDDM_core_eq : forall (p : @eddm_params N) e n correct,
  EDDM_core (eddm_n_threshold p) (eddm_warning_thresh p) (eddm_drift_thresh p) n (eddm_fields e) correct =
  (eddm_fields (fst (eddm_step p e n correct)), snd (eddm_step p e n correct), true).
Proof. intros [nt w d] [a b c m s x t] n correct. exact (EDDM_core_is_eddm_step nt w d n a b c m s x t correct). Qed.

(** C05_eddm_rule of the translated update() *)
Theorem Gen_C05_eddm_rule : forall (p : @eddm_params N) e n,
  let core := EDDM_core (eddm_n_threshold p) (eddm_warning_thresh p) (eddm_drift_thresh p) n (eddm_fields e) in
  core true = (eddm_fields e, None, true) /\
  ((e_n_errors e + 1 < eddm_n_threshold p)%Z -> snd (fst (core false)) = None) /\
  ((eddm_n_threshold p <= e_n_errors e + 1)%Z ->
     let stat := eddm_num' e n / eddm_max' e n in
     let '(ne', _, _, _, _, mx', _) := fst (fst (core false)) in
     snd (fst (core false)) =
       Some (if stat <=? eddm_drift_thresh p then DDrift
             else if stat <=? eddm_warning_thresh p then DWarn else DNone)
     /\ ne' = (e_n_errors e + 1)%Z /\ mx' = eddm_max' e n).
Proof.
  intros p e n core. subst core. rewrite !EDDM_core_eq. cbn [fst snd]. unfold eddm_fields.
  destruct (C05_eddm_rule p e n) as (H1 & H2 & H3). rewrite H1. cbn [fst snd].
  split; [reflexivity|]. split; [exact H2|]. intros H. exact (H3 H).
Qed.

Definition EDDM_gen (n_threshold : Z) (warning_thresh drift_thresh : F) : kernel :=
  {| E := Z * Z * Z * F * F * F * option F; X := bool; reset_e := fun _ => (0%Z, 0%Z, 0%Z, f0, f0, f0, None);
     step_e := fun e n c => fst (EDDM_core n_threshold warning_thresh drift_thresh n e c); policy := PolFirstWarn |}.

Lemma Gen_eddm_run : forall (p : @eddm_params N) cs,
  st_rel (EDDM_gen (eddm_n_threshold p) (eddm_warning_thresh p) (eddm_drift_thresh p)) (EDDM p) (fun t e => t = eddm_fields e)
         (run (init (EDDM_gen (eddm_n_threshold p) (eddm_warning_thresh p) (eddm_drift_thresh p)) (0%Z, 0%Z, 0%Z, f0, f0, f0, None)) cs)
         (run (init (EDDM p) eddm_e0) (map (fun c => c) cs)).
Proof.
  intros p cs. apply (run_sim (EDDM_gen (eddm_n_threshold p) (eddm_warning_thresh p) (eddm_drift_thresh p)) (EDDM p)
           (fun t e => t = eddm_fields e) (fun c => c)).
  - reflexivity.
  - intros; reflexivity.
  - intros t e n c ->. cbn [step_e EDDM_gen EDDM]. rewrite (EDDM_core_eq p e n c). split; reflexivity.
  - split; reflexivity.
Qed.

Theorem Gen_eddm_trace : forall (p : @eddm_params N) cs,
  trace (init (EDDM_gen (eddm_n_threshold p) (eddm_warning_thresh p) (eddm_drift_thresh p)) (0%Z, 0%Z, 0%Z, f0, f0, f0, None)) cs =
  trace (init (EDDM p) eddm_e0) cs.
Proof.
  intros p cs. rewrite <- (map_id cs) at 2.
  apply (trace_sim (EDDM_gen (eddm_n_threshold p) (eddm_warning_thresh p) (eddm_drift_thresh p)) (EDDM p)
           (fun t e => t = eddm_fields e) (fun c => c)).
  - reflexivity.
  - intros; reflexivity.
  - intros t e n c ->. cbn [step_e EDDM_gen EDDM]. rewrite (EDDM_core_eq p e n c). split; reflexivity.
  - split; reflexivity.
Qed.

(** C05_eddm_recs of machine + translated core *)
Theorem Gen_C05_eddm_recs : forall (p : @eddm_params N) cs,
  let s := run (init (EDDM_gen (eddm_n_threshold p) (eddm_warning_thresh p) (eddm_drift_thresh p)) (0%Z, 0%Z, 0%Z, f0, f0, f0, None)) cs in
  ds s = DDrift -> exists a, recs s = (Some a, Some (total s - 1)%Z) /\ (a <= total s - 1)%Z.
Proof.
  intros p cs s. destruct (Gen_eddm_run p cs) as [_ Ho]. fold s in Ho. rewrite map_id in Ho.
  unfold observe in Ho. injection Ho as -> -> _ ->. exact (C05_eddm_recs p cs).
Qed.
End EDDM.

Print Assumptions EDDM_core_is_eddm_step.
Print Assumptions EDDM_core_eq.
Print Assumptions Gen_C05_eddm_rule.
Print Assumptions Gen_eddm_trace.
Print Assumptions Gen_C05_eddm_recs.
(* END EDDM *)

(* BEGIN STEPD *)
Section STEPD.
Context {N : Num}.
Notation F := (F N).

Definition stepd_fields (e : @stepd_e N) : Z * Z * list Z * option F * option F :=
  (s_s e, s_r e, s_window e, s_stat e, s_p e).

Lemma py_get_hd (l : list Z) : py_get 0%Z l 0%Z = hd 0%Z l.
Proof. destruct l; reflexivity. Qed.
Lemma py_from_tl {A} (l : list A) : py_from l 1%Z = tl l.
Proof. destruct l; reflexivity. Qed.

Theorem STEPD_core_is_stepd_step :
  forall (w : Z) (aw ad : F) (n s r : Z) (win : list Z) (stat pv : option F) (correct : bool) (oracle : F),
  let p := {| stepd_window := w; stepd_alpha_warning := aw; stepd_alpha_drift := ad |} in
  let e := {| s_s := s; s_r := r; s_window := win; s_stat := stat; s_p := pv |} in
  fst (STEPD_core w aw ad n (s, r, win, stat, pv) correct oracle) =
  (stepd_fields (fst (stepd_step p e n (correct, oracle))), snd (stepd_step p e n (correct, oracle))).
Proof.
  intros w aw ad n s r win stat pv correct oracle p e. subst p e.
  unfold STEPD_core, stepd_step, stepd_fields, stepd_recent, stepd_past, stepd_overall, stepd_statistic, half, py_bitZ.
  cbn [stepd_window stepd_alpha_warning stepd_alpha_drift s_s s_r s_window s_stat s_p fst snd]. cbv beta iota zeta.
  rewrite !py_get_hd, !py_from_tl. unfold zlen, py_len.
  destruct correct; cbv beta iota zeta; split_ifs; reflexivity.
Qed.

Lemma py_idx_ok_0_snoc {A} (l : list A) (c : A) : py_idx_ok (l ++ [c]) 0%Z = true.
Proof. unfold py_idx_ok, py_len. rewrite app_length. cbn [length]. apply andb_true_intro. split; [apply Z.leb_le | apply Z.ltb_lt]; lia. Qed.

(** the third component: no IndexError (the window is never empty where it is indexed), and ZeroDivisionError exactly for
    the two int / int quotients 1 / (n - w), 1 / w of the statistic (the accuracies test their divisor themselves) *)
Theorem STEPD_core_ok :
  forall (w : Z) (aw ad : F) (n s r : Z) (win : list Z) (stat pv : option F) (correct : bool) (oracle : F),
  snd (STEPD_core w aw ad n (s, r, win, stat, pv) correct oracle) =
  (if (2 * w <=? n)%Z then negb (n - w =? 0)%Z && negb (w =? 0)%Z else true).
Proof.
  intros w aw ad n s r win stat pv correct oracle.
  unfold STEPD_core, py_bitZ. cbv beta iota zeta. rewrite !py_idx_ok_0_snoc. unfold py_len.
  repeat match goal with |- context [(Zpos ?q =? 0)%Z] => change (Zpos q =? 0)%Z with false end.   (* a literal divisor *)
  destruct correct; cbv beta iota zeta; split_ifs; reflexivity.
Qed.

Corollary STEPD_core_ok_true : forall (w : Z) (aw ad : F) n st correct (oracle : F), (0 < w)%Z ->
  snd (STEPD_core w aw ad n st correct oracle) = true.
Proof.
  intros w aw ad n [[[[s r] win] stat] pv] correct oracle Hw. rewrite STEPD_core_ok.
  destruct (Z.leb_spec (2 * w) n); [|reflexivity].
  replace (n - w =? 0)%Z with false by (symmetry; apply Z.eqb_neq; lia).
  replace (w =? 0)%Z with false by (symmetry; apply Z.eqb_neq; lia). reflexivity.
Qed.

(** record form *)
Corollary STEPD_core_eq : forall (p : @stepd_params N) e n correct oracle,
  fst (STEPD_core (stepd_window p) (stepd_alpha_warning p) (stepd_alpha_drift p) n (stepd_fields e) correct oracle) =
  (stepd_fields (fst (stepd_step p e n (correct, oracle))), snd (stepd_step p e n (correct, oracle))).
Proof. intros [w aw ad] [s r win stat pv] n correct oracle. exact (STEPD_core_is_stepd_step w aw ad n s r win stat pv correct oracle). Qed.

(** C05_stepd_rule of the translated update() *)
Theorem Gen_C05_stepd_rule : forall (p : @stepd_params N) e n correct (oracle : F),
  let r := fst (STEPD_core (stepd_window p) (stepd_alpha_warning p) (stepd_alpha_drift p) n (stepd_fields e) correct oracle) in
  ((n < 2 * stepd_window p)%Z -> snd r = None) /\
  ((2 * stepd_window p <= n)%Z ->
     let '(s', r', win', stat', pv') := fst r in
     let e1 := {| s_s := s'; s_r := r'; s_window := win'; s_stat := stat'; s_p := pv' |} in
     let recent := stepd_recent e1 in let past := stepd_past e1 n in
     let decreased := recent <? past in
     snd r =
       Some (if decreased && (oracle <? stepd_alpha_drift p) then DDrift
             else if decreased && (oracle <? stepd_alpha_warning p) then DWarn else DNone)
     /\ stat' = Some (stepd_statistic (stepd_window p) n recent past (stepd_overall e1 n))
     /\ pv' = Some oracle).
Proof.
  intros p e n correct oracle r. subst r. rewrite (STEPD_core_eq p e n correct oracle). cbn [fst snd].
  destruct (C05_stepd_rule p e n (correct, oracle)) as [H1 H2]. split; [exact H1|].
  intros H. specialize (H2 H). cbv zeta in H2. cbn [snd] in H2. unfold stepd_fields.
  destruct (fst (stepd_step p e n (correct, oracle))) as [s' r' win' stat' pv']. cbn [s_s s_r s_window s_stat s_p] in *.
  exact H2.
Qed.

(** C05_stepd_window_invariant of machine + translated core is carried by the run simulation below *)
Definition STEPD_gen (w : Z) (aw ad : F) : kernel :=
  {| E := Z * Z * list Z * option F * option F; X := (bool * F)%type; reset_e := fun _ => (0%Z, 0%Z, [], None, None);
     step_e := fun e n x => fst (STEPD_core w aw ad n e (fst x) (snd x)); policy := PolRun |}.

Lemma Gen_stepd_run : forall (p : @stepd_params N) xs,
  st_rel (STEPD_gen (stepd_window p) (stepd_alpha_warning p) (stepd_alpha_drift p)) (STEPD p) (fun t e => t = stepd_fields e)
         (run (init (STEPD_gen (stepd_window p) (stepd_alpha_warning p) (stepd_alpha_drift p)) (0%Z, 0%Z, [], None, None)) xs)
         (run (init (STEPD p) stepd_e0) (map (fun x => x) xs)).
Proof.
  intros p xs. apply (run_sim (STEPD_gen (stepd_window p) (stepd_alpha_warning p) (stepd_alpha_drift p)) (STEPD p)
           (fun t e => t = stepd_fields e) (fun x => x)).
  - reflexivity.
  - intros; reflexivity.
  - intros t e n [c o] ->. cbn [step_e STEPD_gen STEPD fst snd]. rewrite (STEPD_core_eq p e n c o). split; reflexivity.
  - split; reflexivity.
Qed.

(** machine + translated core has the observable trace of the model (inputs: (correct?, oracle p-value)) *)
Theorem Gen_stepd_trace : forall (p : @stepd_params N) xs,
  trace (init (STEPD_gen (stepd_window p) (stepd_alpha_warning p) (stepd_alpha_drift p)) (0%Z, 0%Z, [], None, None)) xs =
  trace (init (STEPD p) stepd_e0) xs.
Proof.
  intros p xs. rewrite <- (map_id xs) at 2.
  apply (trace_sim (STEPD_gen (stepd_window p) (stepd_alpha_warning p) (stepd_alpha_drift p)) (STEPD p)
           (fun t e => t = stepd_fields e) (fun x => x)).
  - reflexivity.
  - intros; reflexivity.
  - intros t e n [c o] ->. cbn [step_e STEPD_gen STEPD fst snd]. rewrite (STEPD_core_eq p e n c o). split; reflexivity.
  - split; reflexivity.
Qed.

(** C05_stepd_recs of machine + translated core *)
Theorem Gen_C05_stepd_recs : forall (p : @stepd_params N) xs,
  let s := run (init (STEPD_gen (stepd_window p) (stepd_alpha_warning p) (stepd_alpha_drift p)) (0%Z, 0%Z, [], None, None)) xs in
  (ds s = DNone -> recs s = recs_none) /\
  (ds s <> DNone -> exists a, recs s = (Some a, Some (total s - 1)%Z) /\ (a <= total s - 1)%Z).
Proof.
  intros p xs s. destruct (Gen_stepd_run p xs) as [_ Ho]. fold s in Ho. rewrite map_id in Ho.
  unfold observe in Ho. injection Ho as -> -> _ ->. exact (C05_stepd_recs p xs).
Qed.
End STEPD.

Print Assumptions STEPD_core_is_stepd_step.
Print Assumptions STEPD_core_ok.
Print Assumptions STEPD_core_ok_true.
Print Assumptions STEPD_core_eq.
Print Assumptions Gen_C05_stepd_rule.
Print Assumptions Gen_stepd_trace.
Print Assumptions Gen_C05_stepd_recs.
(* END STEPD *)

(* BEGIN CUSUM *)
Section CUSUM.
Context {N : Num}.
Notation F := (F N).

Definition cdir_of (o : option string) : option direction :=
  match o with
  | None => Some DirBoth
  | Some s => if String.eqb s "positive" then Some DirPos else if String.eqb s "negative" then Some DirNeg else None
  end.

Definition cusum_abs (tg sd : option F) (ub lb stream : list F) : @cusum_e N :=
  {| c_target := tg; c_sd := sd; c_up := last ub f0; c_lo := last lb f0; c_stream := rev stream; c_err := false |}.

Section Idx.
Context {A : Type} (d : A).
Lemma py_idx_ok_last (l : list A) n : py_len l = n -> (1 <= n)%Z -> py_idx_ok l (n - 1)%Z = true.
Proof. unfold py_idx_ok. intros -> H. apply andb_true_intro. split; [apply Z.leb_le | apply Z.ltb_lt]; lia. Qed.
Lemma py_get_last (l : list A) n : py_len l = n -> (1 <= n)%Z -> py_get d l (n - 1)%Z = last l d.
Proof.
  unfold py_get, py_len. intros <- H. replace (Z.of_nat (length l) - 1 <? 0)%Z with false by (symmetry; apply Z.ltb_ge; lia).
  replace (Z.to_nat (Z.of_nat (length l) - 1)) with (length l - 1)%nat by lia.
  destruct l as [|a l] using rev_ind; [cbn in H; lia|]. rewrite last_last, app_length. cbn [length].
  replace (length l + 1 - 1)%nat with (length l) by lia. rewrite app_nth2 by lia. rewrite Nat.sub_diag. reflexivity.
Qed.
Lemma py_idx_ok_m1_last (l : list A) n : py_len l = n -> (1 <= n)%Z -> py_idx_ok l (Z.opp 1) = true.
Proof. unfold py_idx_ok. intros -> H. apply andb_true_intro. split; [apply Z.leb_le | apply Z.ltb_lt]; lia. Qed.
Lemma py_get_m1_last (l : list A) n : py_len l = n -> (1 <= n)%Z -> py_get d l (Z.opp 1) = last l d.
Proof.
  intros H1 H2. rewrite <- (py_get_last l n H1 H2). unfold py_get. subst n.
  change (Z.opp 1 <? 0)%Z with true. cbv iota. replace (py_len l - 1 <? 0)%Z with false by (symmetry; apply Z.ltb_ge; lia).
  f_equal. lia.
Qed.
Lemma py_idx_ok_m1 (l : list A) v : py_idx_ok (l ++ [v]) (Z.opp 1) = true.
Proof. unfold py_idx_ok, py_len. rewrite app_length. cbn [length]. apply andb_true_intro. split; [apply Z.leb_le | apply Z.ltb_lt]; lia. Qed.
Lemma py_get_m1 (l : list A) v : py_get d (l ++ [v]) (Z.opp 1) = v.
Proof.
  unfold py_get, py_len. rewrite app_length. cbn [length]. change (Z.opp 1 <? 0)%Z with true. cbv iota.
  replace (Z.to_nat (Z.opp 1 + Z.of_nat (length l + 1))) with (length l) by lia.
  rewrite app_nth2 by lia. rewrite Nat.sub_diag. reflexivity.
Qed.
Lemma py_idx_ok_snoc (l : list A) v n : py_len l = n -> py_idx_ok (l ++ [v]) n = true.
Proof. unfold py_idx_ok, py_len. intros <-. rewrite app_length. cbn [length]. apply andb_true_intro. split; [apply Z.leb_le | apply Z.ltb_lt]; lia. Qed.
Lemma py_get_snoc (l : list A) v n : py_len l = n -> py_get d (l ++ [v]) n = v.
Proof.
  unfold py_get, py_len. intros <-. replace (Z.of_nat (length l) <? 0)%Z with false by (symmetry; apply Z.ltb_ge; lia).
  rewrite Nat2Z.id. rewrite app_nth2 by lia. rewrite Nat.sub_diag. reflexivity.
Qed.
End Idx.

Theorem CUSUM_core_is_cusum_step :
  forall (b : Z) (delta thr : F) (dirs : option string) (d : direction) (n : Z) (tg sd : option F) (ub lb stream : list F) (x : F),
  cdir_of dirs = Some d ->
  py_len ub = n -> py_len lb = n -> (1 <= n)%Z ->
  (tg = None -> (n <= b)%Z) -> (tg <> None -> sd <> None) ->
  let p := {| c_burn_in := b; c_delta := delta; c_threshold := thr; c_dir := d |} in
  let e := cusum_abs tg sd ub lb stream in
  let e' := fst (cusum_step p e n x) in
  CUSUM_core b delta thr dirs n (tg, sd, ub, lb, stream) x =
  if c_err e'
  then ((c_target e', c_sd e', ub, lb, stream ++ [x]), None, true, true)
  else ((c_target e', c_sd e', ub ++ [c_up e'], lb ++ [c_lo e'], stream ++ [x]), snd (cusum_step p e n x), true, false).
Proof.
  intros b delta thr dirs d n tg sd ub lb stream x Hd Hub Hlb Hn Htg Hsd p e e'. subst e' e p.
  unfold CUSUM_core, cusum_step, cusum_abs.
  cbn [c_burn_in c_delta c_threshold c_dir c_target c_sd c_up c_lo c_stream c_err fst snd]. cbv beta iota zeta.
  change (rev (x :: rev stream)) with (rev (rev stream) ++ [x]). rewrite ?rev_involutive.
  assert (Hcmp : ((n <? b)%Z = true /\ (n =? b)%Z = false /\ (b <? n)%Z = false) \/
                 ((n <? b)%Z = false /\ (n =? b)%Z = true /\ (b <? n)%Z = false) \/
                 ((n <? b)%Z = false /\ (n =? b)%Z = false /\ (b <? n)%Z = true)).
  { destruct (Z.lt_trichotomy n b) as [H|[H|H]]; [left | right; left | right; right];
      (split; [|split]); try apply Z.ltb_lt; try apply Z.ltb_ge; try apply Z.eqb_eq; try apply Z.eqb_neq; lia. }
  revert Hd. unfold cdir_of, py_none, py_ofloat, py_oeqb, py_ostr_eqb.
  destruct dirs as [s|];
    [destruct (String.eqb_spec s "positive") as [->|_]; [|destruct (String.eqb_spec s "negative") as [->|_]]|]; intros Hd;
    try discriminate Hd; injection Hd as <-.
  all: try change (String.eqb "positive" "positive") with true; try change (String.eqb "negative" "negative") with true;
       try change (String.eqb "positive" "negative") with false; try change (String.eqb "negative" "positive") with false.
  all: rewrite ?Z.leb_antisym; destruct Hcmp as [(H1 & H2 & H3)|[(H1 & H2 & H3)|(H1 & H2 & H3)]]; rewrite ?H1, ?H2, ?H3.
  all: (destruct tg as [t|]; [destruct sd as [s0|]; [|exfalso; apply Hsd; congruence] | ]).
  all: try (exfalso; apply Z.ltb_lt in H3; specialize (Htg eq_refl); lia).
  all: cbn [andb orb negb]; cbv beta iota zeta.
  all: cbn [fst snd c_err c_target c_sd c_up c_lo].
  all: rewrite ?(py_idx_ok_last ub n Hub Hn), ?(py_idx_ok_last lb n Hlb Hn), ?(py_get_last f0 ub n Hub Hn), ?(py_get_last f0 lb n Hlb Hn),
         ?py_idx_ok_m1, ?py_get_m1, ?(py_idx_ok_snoc ub _ n Hub), ?(py_idx_ok_snoc lb _ n Hlb), ?(py_get_snoc f0 ub _ n Hub), ?(py_get_snoc f0 lb _ n Hlb),
         ?(py_idx_ok_m1_last ub n Hub Hn), ?(py_idx_ok_m1_last lb n Hlb Hn), ?(py_get_m1_last f0 ub n Hub Hn), ?(py_get_m1_last f0 lb n Hlb Hn).
  all: try destruct sd as [s0|].
  all: split_ifs; try reflexivity.
Qed.

(** the list the code keeps is the model's history, oldest first *)
Lemma CUSUM_core_stream : forall (p : @cusum_params N) tg sd ub lb stream n x,
  c_stream (fst (cusum_step p (cusum_abs tg sd ub lb stream) n x)) = rev (stream ++ [x]).
Proof.
  intros p tg sd ub lb stream n x. rewrite rev_unit. unfold cusum_step, cusum_abs. cbn [c_target c_sd c_stream].
  destruct tg; [|destruct (n =? c_burn_in p)%Z]; cbv beta iota zeta;
    repeat match goal with |- context [match ?o with Some _ => _ | None => _ end] => destruct o end; reflexivity.
Qed.

(** Python's stream[-burn_in:] (oldest first) is the model's [last_burn_in] of the newest-first history *)
Lemma py_from_last_burn_in (b : Z) (l : list F) : (0 <= b)%Z -> py_from l (- b)%Z = last_burn_in b (rev l).
Proof.
  intros Hb. unfold py_from, last_burn_in, py_len. destruct (Z.eqb_spec b 0) as [->|Hne].
  - cbn. rewrite rev_involutive. reflexivity.
  - replace (- b <? 0)%Z with true by (symmetry; apply Z.ltb_lt; lia).
    rewrite firstn_rev, rev_involutive. f_equal. lia.
Qed.

(** the reset slice = [cusum_reset] *)
Theorem CUSUM_reset_core_is_cusum_reset :
  forall (b : Z) (delta thr : F) (dirs : option string) (d : direction) (tg sd : option F) (ub lb stream : list F) (err : bool),
  (0 <= b)%Z ->
  let p := {| c_burn_in := b; c_delta := delta; c_threshold := thr; c_dir := d |} in
  let e := {| c_target := tg; c_sd := sd; c_up := last ub f0; c_lo := last lb f0; c_stream := rev stream; c_err := err |} in
  let e' := cusum_reset p e in
  CUSUM_reset_core b delta thr dirs (tg, sd, ub, lb, stream) = ((c_target e', c_sd e', [c_up e'], [c_lo e'], stream), true) /\
  c_stream e' = rev stream /\ c_err e' = err.
Proof.
  intros b delta thr dirs d tg sd ub lb stream err Hb p e e'. subst e' e p.
  unfold CUSUM_reset_core, cusum_reset. cbn [c_burn_in c_target c_sd c_up c_lo c_stream c_err]. cbv beta iota zeta.
  rewrite (py_from_last_burn_in b stream Hb). repeat split.
Qed.

(** C04_cusum_reset of the translated reset slice *)
Theorem Gen_C04_cusum_reset : forall (b : Z) (delta thr : F) dirs tg sd ub lb (stream : list F), (0 <= b)%Z ->
  let w := last_burn_in b (rev stream) in
  CUSUM_reset_core b delta thr dirs (tg, sd, ub, lb, stream) = ((Some (np_mean w), Some (np_std w), [f0], [f0], stream), true).
Proof.
  intros b delta thr dirs tg sd ub lb stream Hb w.
  destruct (CUSUM_reset_core_is_cusum_reset b delta thr dirs DirBoth tg sd ub lb stream false Hb) as [-> _].
  match goal with |- context [cusum_reset ?p ?e] => destruct (C04_cusum_reset p e) as (-> & -> & -> & ->) end. reflexivity.
Qed.

(** C04_cusum_test of the translated update(): known target / sd *)
Theorem Gen_C04_cusum_test :
  forall (b : Z) (delta thr : F) dirs d (n : Z) (t s : F) (ub lb stream : list F) (x : F),
  cdir_of dirs = Some d -> py_len ub = n -> py_len lb = n -> (1 <= n)%Z ->
  let p := {| c_burn_in := b; c_delta := delta; c_threshold := thr; c_dir := d |} in
  let z := (x - t) / s in
  let up := pymax f0 ((last ub f0 + z) - delta) in
  let lo := pymax f0 ((last lb f0 - delta) - z) in
  let r := CUSUM_core b delta thr dirs n (Some t, Some s, ub, lb, stream) x in
  let raised := feqb s f0 && (b <? n)%Z in
  snd r = raised /\ snd (fst r) = true /\
  (raised = false ->
     fst (fst (fst r)) = (Some t, Some s, ub ++ [up], lb ++ [lo], stream ++ [x]) /\
     (snd (fst (fst r)) = Some DDrift <-> (b < n)%Z /\ cusum_alarm p up lo = true)).
Proof.
  intros b delta thr dirs d n t s ub lb stream x Hd Hub Hlb Hn p z up lo r raised. subst r.
  rewrite (CUSUM_core_is_cusum_step b delta thr dirs d n (Some t) (Some s) ub lb stream x Hd Hub Hlb Hn)
    by (intros H; first [discriminate H | discriminate]).
  fold p. set (e := cusum_abs (Some t) (Some s) ub lb stream).
  assert (He : c_err (fst (cusum_step p e n x)) = raised) by reflexivity.
  destruct (C04_cusum_test p e n x t s eq_refl eq_refl) as (H1 & H2 & H3 & H4 & H5). cbv zeta in H1, H2, H3, H4, H5.
  rewrite He. destruct raised; cbn [fst snd]; (split; [reflexivity|split; [reflexivity|]]); intros Hr; [discriminate Hr|].
  rewrite H1, H2, H3, H4. split; [reflexivity | exact H5].
Qed.

(** C04_cusum_estimation of the translated update(): target not given, first epoch *)
Theorem Gen_C04_cusum_estimation :
  forall (b : Z) (delta thr : F) dirs d (n : Z) (ub lb stream : list F) (x : F),
  cdir_of dirs = Some d -> py_len ub = n -> py_len lb = n -> (1 <= n)%Z -> (n <= b)%Z ->
  let r := CUSUM_core b delta thr dirs n (None, None, ub, lb, stream) x in
  snd r = false /\ snd (fst r) = true /\ snd (fst (fst r)) = None /\
  ((n <> b)%Z -> fst (fst (fst r)) = (None, None, ub ++ [f0], lb ++ [f0], stream ++ [x])) /\
  ((n = b)%Z -> exists up lo,
     fst (fst (fst r)) = (Some (np_mean (stream ++ [x])), Some (np_std (stream ++ [x])), ub ++ [up], lb ++ [lo], stream ++ [x])).
Proof.
  intros b delta thr dirs d n ub lb stream x Hd Hub Hlb Hn Hb r. subst r.
  rewrite (CUSUM_core_is_cusum_step b delta thr dirs d n None None ub lb stream x Hd Hub Hlb Hn)
    by (intros H; first [exact Hb | exfalso; apply H; reflexivity]).
  set (p := {| c_burn_in := b; c_delta := delta; c_threshold := thr; c_dir := d |}).
  set (e := cusum_abs None None ub lb stream).
  destruct (C04_cusum_estimation p e n x) as [H1 H2]. specialize (H1 eq_refl eq_refl). cbv zeta in H1. destruct H1 as [H1 H1'].
  specialize (H2 Hb).
  assert (He : c_err (fst (cusum_step p e n x)) = false).
  { unfold cusum_step, e, cusum_abs, p. cbn [c_target c_sd c_err c_burn_in]. destruct (Z.eqb_spec n b) as [->|Hne]; cbv beta iota zeta.
    - rewrite Z.ltb_irrefl, andb_false_r. reflexivity.
    - reflexivity. }
  rewrite He, H2. cbn [fst snd]. repeat split.
  - intros Hne. destruct (H1 Hne) as (-> & -> & ->).
    assert (Hs : c_sd (fst (cusum_step p e n x)) = None).
    { unfold cusum_step, e, cusum_abs, p. cbn [c_target c_sd c_burn_in]. destruct (Z.eqb_spec n b) as [E|_]; [contradiction|]. reflexivity. }
    rewrite Hs. reflexivity.
  - intros Heq. destruct (H1' Heq) as (-> & ->). unfold e, cusum_abs. cbn [c_stream].
    change (rev (x :: rev stream)) with (rev (rev stream) ++ [x]). rewrite rev_involutive. eexists _, _. reflexivity.
Qed.

(** ---- whole runs: the generic lifecycle machine around the two translated slices ---- *)
Definition CUSUM_gen (b : Z) (delta thr : F) (dirs : option string) : kernel :=
  {| E := option F * option F * list F * list F * list F; X := F;
     reset_e := fun e => fst (CUSUM_reset_core b delta thr dirs e);
     step_e := fun e n x => fst (fst (CUSUM_core b delta thr dirs n e x));
     policy := PolNoRecs |}.

Lemma cusum_abs_eta (e : @cusum_e N) ub lb stream :
  c_up e = last ub f0 -> c_lo e = last lb f0 -> c_stream e = rev stream -> c_err e = false ->
  e = cusum_abs (c_target e) (c_sd e) ub lb stream.
Proof. destruct e; cbn; intros -> -> -> ->; reflexivity. Qed.

Lemma cusum_step_tg_sd (p : @cusum_params N) tg sd ub lb stream n x :
  let e' := fst (cusum_step p (cusum_abs tg sd ub lb stream) n x) in
  (c_target e' = None -> tg = None /\ n <> c_burn_in p) /\
  ((tg <> None -> sd <> None) -> c_target e' <> None -> c_sd e' <> None).
Proof.
  unfold cusum_step, cusum_abs. cbn [c_target c_sd]. destruct tg as [t|]; [|destruct (Z.eqb_spec n (c_burn_in p))]; cbv beta iota zeta;
    repeat match goal with |- context [match ?o with Some _ => _ | None => _ end] => destruct o end; cbn [fst c_target c_sd];
    split; intros; try congruence; try (split; congruence); try (apply H; congruence).
Qed.

Lemma cusum_step_sim (p : @cusum_params N) dirs e tg sd ub lb stream n x :
  e = cusum_abs tg sd ub lb stream ->
  cdir_of dirs = Some (c_dir p) -> py_len ub = n -> py_len lb = n -> (1 <= n)%Z ->
  (tg = None -> (n <= c_burn_in p)%Z) -> (tg <> None -> sd <> None) ->
  let e' := fst (cusum_step p e n x) in
  c_err e' = false ->
  exists tg' sd' ub' lb' stream',
    fst (fst (CUSUM_core (c_burn_in p) (c_delta p) (c_threshold p) dirs n (tg, sd, ub, lb, stream) x)) =
      ((tg', sd', ub', lb', stream'), snd (cusum_step p e n x)) /\
    e' = cusum_abs tg' sd' ub' lb' stream' /\ py_len ub' = (n + 1)%Z /\ py_len lb' = (n + 1)%Z /\
    (tg' = None -> (n + 1 <= c_burn_in p)%Z) /\ (tg' <> None -> sd' <> None).
Proof.
  intros -> Hd Hub Hlb Hn Htg Hsd e' He.
  pose proof (CUSUM_core_is_cusum_step (c_burn_in p) (c_delta p) (c_threshold p) dirs (c_dir p) n tg sd ub lb stream x Hd Hub Hlb Hn Htg Hsd) as Hc.
  cbv zeta in Hc. destruct p as [b delta thr d]. cbn [c_burn_in c_delta c_threshold c_dir] in *. fold e' in Hc. rewrite He in Hc. rewrite Hc. cbn [fst].
  exists (c_target e'), (c_sd e'), (ub ++ [c_up e']), (lb ++ [c_lo e']), (stream ++ [x]).
  destruct (cusum_step_tg_sd {| c_burn_in := b; c_delta := delta; c_threshold := thr; c_dir := d |} tg sd ub lb stream n x) as [T1 T2].
  cbv zeta in T1, T2. cbn [c_burn_in] in T1. fold e' in T1, T2.
  split; [reflexivity|]. split.
  - apply cusum_abs_eta; rewrite ?last_last; try reflexivity; [apply CUSUM_core_stream | exact He].
  - unfold py_len in *. rewrite !app_length. cbn [length]. repeat split; try lia.
    + intros H. destruct (T1 H) as [H1 H2]. specialize (Htg H1). lia.
    + exact (T2 Hsd).
Qed.

Lemma cusum_step_err_sticky (p : @cusum_params N) e n x : c_err e = true -> c_err (fst (cusum_step p e n x)) = true.
Proof.
  intros H. unfold cusum_step. destruct (c_target e); [|destruct (n =? c_burn_in p)%Z]; cbv beta iota zeta;
    repeat match goal with |- context [match ?o with Some _ => _ | None => _ end] => destruct o end; cbn [fst c_err]; rewrite H; reflexivity.
Qed.

Lemma cusum_update_epoch (p : @cusum_params N) (s : st (CUSUM p)) x :
  epoch (update s x) = fst (cusum_step p (if is_drift (ds s) then cusum_reset p (epoch s) else epoch s)
                                       ((if is_drift (ds s) then 0 else since s) + 1)%Z x).
Proof.
  unfold update. destruct (is_drift (ds s)); unfold do_reset; cbn [epoch since total ds recs step_e reset_e CUSUM];
    match goal with |- context [cusum_step ?a ?b ?c ?d] => destruct (cusum_step a b c d) end; reflexivity.
Qed.

Lemma cusum_run_err_sticky (p : @cusum_params N) xs : forall s : st (CUSUM p),
  c_err (epoch s) = true -> c_err (epoch (run s xs)) = true.
Proof.
  induction xs as [|x xs IH]; intros s H; [exact H|]. cbn [run fold_left]. apply IH. rewrite cusum_update_epoch.
  apply cusum_step_err_sticky. destruct (is_drift (ds s)); [exact H | exact H].
Qed.

Definition cusum_inv (p : @cusum_params N) dirs (s1 : st (CUSUM_gen (c_burn_in p) (c_delta p) (c_threshold p) dirs)) (s2 : st (CUSUM p)) : Prop :=
  let '(tg, sd, ub, lb, stream) := epoch s1 in
  epoch s2 = cusum_abs tg sd ub lb stream /\ py_len ub = (since s1 + 1)%Z /\ py_len lb = (since s1 + 1)%Z /\ (0 <= since s1)%Z /\
  (tg = None -> (since s1 + 1 <= c_burn_in p)%Z) /\ (tg <> None -> sd <> None) /\ observe s1 = observe s2.

Lemma cusum_update_sim (p : @cusum_params N) dirs s1 s2 x :
  cdir_of dirs = Some (c_dir p) -> (0 <= c_burn_in p)%Z -> cusum_inv p dirs s1 s2 ->
  c_err (epoch (update s2 x)) = false -> cusum_inv p dirs (update s1 x) (update s2 x).
Proof.
  intros Hd Hb. destruct s1 as [[[[[tg sd] ub] lb] stream] t1 n1 d1 r1], s2 as [e2 t2 n2 d2 r2].
  unfold cusum_inv, observe. cbn [epoch ds total since recs].
  intros (He & Hub & Hlb & Hn & Htg & Hsd & Ho) Herr. injection Ho as -> -> -> ->. subst e2.
  rewrite cusum_update_epoch in Herr. cbn [epoch ds since] in Herr. revert Herr.
  unfold update. cbn [ds]. destruct (is_drift d2); unfold do_reset; cbn [epoch ds total since recs reset_e step_e CUSUM_gen CUSUM policy]; intros Herr.
  - destruct (CUSUM_reset_core_is_cusum_reset (c_burn_in p) (c_delta p) (c_threshold p) dirs (c_dir p) tg sd ub lb stream false Hb) as (Hr & Hs & Hf).
    cbv zeta in Hr, Hs, Hf. destruct p as [b delta thr d]. cbn [c_burn_in c_delta c_threshold c_dir] in *.
    change {| c_target := tg; c_sd := sd; c_up := last ub f0; c_lo := last lb f0; c_stream := rev stream; c_err := false |}
      with (cusum_abs tg sd ub lb stream) in Hr, Hs, Hf.
    set (p := {| c_burn_in := b; c_delta := delta; c_threshold := thr; c_dir := d |}) in *.
    set (er := cusum_reset p (cusum_abs tg sd ub lb stream)) in *. rewrite Hr. cbn [fst].
    assert (Eer : er = cusum_abs (c_target er) (c_sd er) [c_up er] [c_lo er] stream) by (apply cusum_abs_eta; auto).
    destruct (cusum_step_sim p dirs er (c_target er) (c_sd er) [c_up er] [c_lo er] stream (0 + 1)%Z x Eer Hd eq_refl eq_refl ltac:(lia))
      as (tg' & sd' & ub' & lb' & stream' & Hc & He' & Hu' & Hl' & Ht' & Hs'); try exact Herr; try (intros H; discriminate H); try (intros _; discriminate).
    change (c_burn_in p) with b in Hc. change (c_delta p) with delta in Hc. change (c_threshold p) with thr in Hc.
    rewrite Hc. destruct (cusum_step p er (0 + 1) x) as [e' od] eqn:E.
    cbn [fst snd] in He' |- *. cbn [epoch ds total since recs]. repeat split; try assumption; lia.
  - assert (Hn1 : (1 <= n2 + 1)%Z) by lia.
    destruct (cusum_step_sim p dirs _ tg sd ub lb stream (n2 + 1)%Z x eq_refl Hd Hub Hlb Hn1 Htg Hsd Herr)
      as (tg' & sd' & ub' & lb' & stream' & Hc & He' & Hu' & Hl' & Ht' & Hs').
    rewrite Hc. destruct (cusum_step p (cusum_abs tg sd ub lb stream) (n2 + 1) x) as [e' od] eqn:E.
    cbn [fst snd] in He' |- *. cbn [epoch ds total since recs]. repeat split; try assumption; lia.
Qed.

(** machine + translated slices has the observable trace of the model on every run during which the model never sets
    [c_err] (i.e. update() never raises "sd_hat is zero": after a raise a Python run is over) *)
Theorem Gen_cusum_trace : forall (p : @cusum_params N) dirs (tg0 sd0 : option F) xs,
  cdir_of dirs = Some (c_dir p) -> (0 <= c_burn_in p)%Z -> (tg0 = None -> (1 <= c_burn_in p)%Z) -> (tg0 <> None -> sd0 <> None) ->
  c_err (epoch (run (init (CUSUM p) (cusum_e0 tg0 sd0)) xs)) = false ->
  trace (init (CUSUM_gen (c_burn_in p) (c_delta p) (c_threshold p) dirs) (tg0, sd0, [f0], [f0], [])) xs =
  trace (init (CUSUM p) (cusum_e0 tg0 sd0)) xs.
Proof.
  intros p dirs tg0 sd0 xs Hd Hb Ht0 Hs0.
  assert (H0 : cusum_inv p dirs (init (CUSUM_gen (c_burn_in p) (c_delta p) (c_threshold p) dirs) (tg0, sd0, [f0], [f0], []))
                         (init (CUSUM p) (cusum_e0 tg0 sd0))).
  { unfold cusum_inv, init. cbn [epoch since]. repeat split; try reflexivity; try lia; try exact Hs0; try (intros H; specialize (Ht0 H); lia). }
  revert H0. generalize (init (CUSUM_gen (c_burn_in p) (c_delta p) (c_threshold p) dirs) (tg0, sd0, [f0], [f0], [])), (init (CUSUM p) (cusum_e0 tg0 sd0)).
  induction xs as [|x xs IH]; intros s1 s2 Hinv Herr; [reflexivity|]. cbn [trace]. change (c_err (epoch (run (update s2 x) xs)) = false) in Herr.
  assert (Hx : c_err (epoch (update s2 x)) = false).
  { destruct (c_err (epoch (update s2 x))) eqn:E; [|reflexivity]. rewrite (cusum_run_err_sticky p xs _ E) in Herr. discriminate Herr. }
  pose proof (cusum_update_sim p dirs s1 s2 x Hd Hb Hinv Hx) as Hinv'.
  rewrite (IH _ _ Hinv' Herr). f_equal.
  unfold cusum_inv in Hinv'. destruct (epoch (update s1 x)) as [[[[a b0] c] d0] e0]. destruct Hinv' as (_ & _ & _ & _ & _ & _ & Ho). exact Ho.
Qed.
End CUSUM.

Print Assumptions CUSUM_core_is_cusum_step.
Print Assumptions CUSUM_core_stream.
Print Assumptions CUSUM_reset_core_is_cusum_reset.
Print Assumptions Gen_C04_cusum_reset.
Print Assumptions Gen_C04_cusum_test.
Print Assumptions Gen_C04_cusum_estimation.
Print Assumptions Gen_cusum_trace.
(* END CUSUM *)
