(** The Gallina that tools/py2coq_scalar.py generates from the CURRENT page_hinkley.py / ddm.py / eddm.py
    (Scalar_Gen.v, regenerated on every run of the C04 / C05 checks) computes, for EVERY arithmetic instance [N : Num]
    (no law is assumed: the statements hold of the bit-exact float instance and of the reals alike), every parameter
    value, every state and every input, the same values as the hand-written kernels [ph_step] (ChangeDet.v),
    [ddm_step] and [eddm_step] (Ddm.v); hence theorems of Prop_C04.v / Prop_C05.v hold of the translated source.

    Compiled by the harness in a scratch directory against the freshly generated file:
      coqc -Q /verif/coq MV -Q . MVG Scalar_Gen.v ; coqc -Q /verif/coq MV -Q . MVG Scalar_Gen_Proofs.v
    (the committed Scalar_Gen.v beside this file is a snapshot for the reader).  The parts between
    "BEGIN <Class>" / "END <Class>" markers are independent of each other: the harness keeps the parts of the classes it
    re-translated and drops the others.

    Fields related.  PageHinkley: _max, _min, _sum, _mean <-> p_max, p_min, p_sum, p_mean (the model's p_rows, i.e. the
    eight history lists that update() appends to, is outside the statement).  DDM: _error_rate, _error_std,
    _error_rate_min, _error_std_min <-> d_rate, d_std, d_rate_min, d_std_min (all fields).  EDDM: _n_errors,
    _index_error_curr, _index_error_last, _dist_mean, _dist_std, _max_numerator, _test_statistic <-> all seven fields of
    eddm_e.  In all three: the value assigned to drift_state (None = no assignment executed) <-> the second component of
    the kernel step; the third component of the translated function (no unbound local was read) is [true]. *)
From Coq Require Import String.
From MV Require Import Base Num Lifecycle ChangeDet ChangeDet_Proofs Ddm Ddm_Proofs Prop_C04 Prop_C05.
From MVG Require Import Scalar_Gen.
Local Open Scope num_scope.

(** Case analysis on every atomic condition that occurs, one at a time.  Integer `<=?` is first rewritten to `<?`
    (a >= b and not (a < b) are the same test on ints; no such law is used on floats), Python's min / max and the
    boolean connectives are unfolded to `if`s, so that `if a and b:` and `if a: if b:` are treated alike. *)
Ltac atomic c :=
  lazymatch c with
  | true => fail | false => fail
  | (if _ then _ else _) => fail
  | _ => idtac
  end.
Ltac split_ifs :=
  rewrite ?Z.leb_antisym; unfold pymax, pymin, andb, orb, negb; cbv beta iota zeta;
  repeat (match goal with |- context [if ?c then _ else _] => atomic c; destruct c end; cbv beta iota zeta).

(** The generic machine (Lifecycle.v) run on two kernels that are step-for-step related gives related states:
    used to carry whole-run theorems over to "machine + translated core". *)
Section Sim.
Context (K1 K2 : kernel) (R : E K1 -> E K2 -> Prop) (f : X K1 -> X K2).
Hypothesis Hpol : policy K1 = policy K2.
Hypothesis Hreset : forall e1 e2, R e1 e2 -> R (reset_e K1 e1) (reset_e K2 e2).
Hypothesis Hstep : forall e1 e2 n x, R e1 e2 ->
  R (fst (step_e K1 e1 n x)) (fst (step_e K2 e2 n (f x))) /\ snd (step_e K1 e1 n x) = snd (step_e K2 e2 n (f x)).

Definition st_rel (s1 : st K1) (s2 : st K2) : Prop :=
  R (epoch s1) (epoch s2) /\ observe s1 = observe s2.

Lemma update_sim s1 s2 x : st_rel s1 s2 -> st_rel (update s1 x) (update s2 (f x)).
Proof.
  destruct s1 as [e1 t1 n1 d1 r1], s2 as [e2 t2 n2 d2 r2]. unfold st_rel, observe. cbn [epoch ds total since recs].
  intros [HR Ho]. injection Ho as -> -> -> ->. unfold update. cbn [ds].
  destruct (is_drift d2); unfold do_reset; cbn [epoch ds total since recs].
  - destruct (Hstep _ _ (0 + 1)%Z x (Hreset _ _ HR)) as [A B].
    destruct (step_e K1 (reset_e K1 e1) (0 + 1) x) as [e1' o1], (step_e K2 (reset_e K2 e2) (0 + 1) (f x)) as [e2' o2].
    cbn [fst snd] in A, B. subst o2. cbn [epoch ds total since recs]. rewrite Hpol. split; [exact A | reflexivity].
  - destruct (Hstep _ _ (n2 + 1)%Z x HR) as [A B].
    destruct (step_e K1 e1 (n2 + 1) x) as [e1' o1], (step_e K2 e2 (n2 + 1) (f x)) as [e2' o2].
    cbn [fst snd] in A, B. subst o2. cbn [epoch ds total since recs]. rewrite Hpol. split; [exact A | reflexivity].
Qed.

Lemma run_sim xs : forall s1 s2, st_rel s1 s2 -> st_rel (run s1 xs) (run s2 (map f xs)).
Proof.
  induction xs as [|x xs IH]; intros s1 s2 H; [exact H|]. cbn [run map fold_left]. apply IH, update_sim, H.
Qed.

Lemma trace_sim xs : forall s1 s2, st_rel s1 s2 -> trace s1 xs = trace s2 (map f xs).
Proof.
  induction xs as [|x xs IH]; intros s1 s2 H; [reflexivity|]. cbn [trace map].
  pose proof (update_sim s1 s2 x H) as H'. rewrite (IH _ _ H'). destruct H' as [_ ->]. reflexivity.
Qed.
End Sim.

(* BEGIN PageHinkley *)
Section PageHinkley.
Context {N : Num}.
Notation F := (F N).

(** the strings the code compares `self.direction` with; with any other string the `if / elif` of update() assigns
    nothing to ph_difference and the next statement raises UnboundLocalError *)
Definition dir_of_string (s : string) : option direction :=
  if String.eqb s "positive" then Some DirPos else if String.eqb s "negative" then Some DirNeg else None.

Definition ph_fields (e : @ph_e N) : F * F * F * F := (p_max e, p_min e, p_sum e, p_mean e).

Theorem PageHinkley_core_is_ph_step :
  forall (delta threshold : F) (burn_in : Z) (dirs : string) (d : direction) (n : Z) (mx mn sm mean : F) rows (x : F),
  dir_of_string dirs = Some d ->
  let p := {| ph_delta := delta; ph_threshold := threshold; ph_burn_in := burn_in; ph_dir := d |} in
  let e := {| p_max := mx; p_min := mn; p_sum := sm; p_mean := mean; p_rows := rows |} in
  PageHinkley_core delta threshold burn_in dirs n (mx, mn, sm, mean) x =
  (ph_fields (fst (ph_step p e n x)), snd (ph_step p e n x), true).
Proof.
  intros delta threshold burn_in dirs d n mx mn sm mean rows x Hd p e. subst p e.
  unfold PageHinkley_core, ph_step, ph_fields, ph_diff, dir_of_string in *.
  cbn [ph_delta ph_threshold ph_burn_in ph_dir p_max p_min p_sum p_mean p_rows]. cbv beta iota zeta.
  destruct (String.eqb dirs "positive");
    [injection Hd as <- | destruct (String.eqb dirs "negative"); [injection Hd as <- | discriminate Hd]];
    cbv beta iota zeta; split_ifs; reflexivity.
Qed.

(** record form *)
Corollary PageHinkley_core_eq : forall (p : @ph_params N) dirs e n x, dir_of_string dirs = Some (ph_dir p) ->
  PageHinkley_core (ph_delta p) (ph_threshold p) (ph_burn_in p) dirs n (ph_fields e) x =
  (ph_fields (fst (ph_step p e n x)), snd (ph_step p e n x), true).
Proof. intros [dl th b d] dirs [mx mn sm mean rows] n x H. exact (PageHinkley_core_is_ph_step dl th b dirs d n mx mn sm mean rows x H). Qed.

(** with any other direction string the translated slice reads the unassigned local: the flag says so *)
Theorem PageHinkley_core_unbound : forall (delta threshold : F) burn_in dirs n st x,
  dir_of_string dirs = None -> snd (PageHinkley_core delta threshold burn_in dirs n st x) = false.
Proof.
  intros delta threshold burn_in dirs n [[[mx mn] sm] mean] x Hd. unfold PageHinkley_core, dir_of_string in *.
  destruct (String.eqb dirs "positive"); [discriminate Hd|]. destruct (String.eqb dirs "negative"); [discriminate Hd|].
  reflexivity.
Qed.

(** C04_ph_test of the translated update(): the four recurrences and the alarm rule *)
Theorem Gen_C04_ph_test : forall (p : @ph_params N) dirs e n x, dir_of_string dirs = Some (ph_dir p) ->
  let r := PageHinkley_core (ph_delta p) (ph_threshold p) (ph_burn_in p) dirs n (ph_fields e) x in
  fst (fst r) = (ph_max' p e n x, ph_min' p e n x, ph_sum' p e n x, ph_mean' e n x) /\
  (snd (fst r) = Some DDrift <-> ph_test p e n x = true /\ (ph_burn_in p < n)%Z) /\
  ((n <= ph_burn_in p)%Z -> snd (fst r) = None) /\
  snd r = true.
Proof.
  intros p dirs e n x Hd r. subst r. rewrite (PageHinkley_core_eq p dirs e n x Hd). cbn [fst snd].
  destruct (C04_ph_test p e n x) as (H1 & H2 & H3 & H4 & H5 & H6). unfold ph_fields.
  rewrite H1, H2, H3, H4. split; [reflexivity|]. split; [exact H5|]. split; [exact H6 | reflexivity].
Qed.

(** C04_ph_local: the decision and the new statistics are a function of the arguments of the translated function
    (trivially so for a Coq function; stated to show that the model's history field plays no role) *)
Theorem Gen_C04_ph_local : forall (p : @ph_params N) dirs e1 e2 n x, dir_of_string dirs = Some (ph_dir p) ->
  ph_fields e1 = ph_fields e2 ->
  snd (ph_step p e1 n x) = snd (ph_step p e2 n x) /\ ph_fields (fst (ph_step p e1 n x)) = ph_fields (fst (ph_step p e2 n x)).
Proof.
  intros p dirs e1 e2 n x Hd He.
  pose proof (PageHinkley_core_eq p dirs e1 n x Hd) as A. pose proof (PageHinkley_core_eq p dirs e2 n x Hd) as B.
  rewrite He in A. rewrite A in B.
  split; [exact (f_equal (fun r => snd (fst r)) B) | exact (f_equal (fun r => fst (fst r)) B)].
Qed.

(** machine + translated core: the generic lifecycle machine around the translated slice (reset values and
    retraining_recs policy as in the hand-written kernel [PH]) has the observable trace of the model *)
Definition PH_gen (delta threshold : F) (burn_in : Z) (dirs : string) : kernel :=
  {| E := F * F * F * F; X := F; reset_e := fun _ => (f0, f0, f0, f0);
     step_e := fun e n x => fst (PageHinkley_core delta threshold burn_in dirs n e x); policy := PolNoRecs |}.

Theorem Gen_ph_trace : forall (p : @ph_params N) dirs xs, dir_of_string dirs = Some (ph_dir p) ->
  trace (init (PH_gen (ph_delta p) (ph_threshold p) (ph_burn_in p) dirs) (f0, f0, f0, f0)) xs = trace (init (PH p) ph_e0) xs.
Proof.
  intros p dirs xs Hd. rewrite <- (map_id xs) at 2.
  apply (trace_sim (PH_gen (ph_delta p) (ph_threshold p) (ph_burn_in p) dirs) (PH p) (fun t e => t = ph_fields e) (fun x => x)).
  - reflexivity.
  - intros; reflexivity.
  - intros t e n x ->. cbn [step_e PH_gen PH]. rewrite (PageHinkley_core_eq p dirs e n x Hd). split; reflexivity.
  - split; reflexivity.
Qed.
End PageHinkley.

Print Assumptions PageHinkley_core_is_ph_step.
Print Assumptions PageHinkley_core_eq.
Print Assumptions PageHinkley_core_unbound.
Print Assumptions Gen_C04_ph_test.
Print Assumptions Gen_C04_ph_local.
Print Assumptions Gen_ph_trace.
(* END PageHinkley *)

(* BEGIN DDM *)
Section DDM.
Context {N : Num}.
Notation F := (F N).

Definition ddm_fields (e : @ddm_e N) : F * F * F * F := (d_rate e, d_std e, d_rate_min e, d_std_min e).

(** [correct] is the result of `y_pred == y_true`; the model's input is err = (y_pred != y_true) = negb correct *)
Theorem DDM_core_is_ddm_step :
  forall (n_threshold : Z) (warning_scale drift_scale : F) (n : Z) (rate sd rate_min sd_min : F) (correct : bool),
  let p := {| ddm_n_threshold := n_threshold; ddm_warning_scale := warning_scale; ddm_drift_scale := drift_scale |} in
  let e := {| d_rate := rate; d_std := sd; d_rate_min := rate_min; d_std_min := sd_min |} in
  DDM_core n_threshold warning_scale drift_scale n (rate, sd, rate_min, sd_min) correct =
  (ddm_fields (fst (ddm_step p e n (negb correct))), snd (ddm_step p e n (negb correct)), true).
Proof.
  intros n_threshold warning_scale drift_scale n rate sd rate_min sd_min correct p e. subst p e.
  unfold DDM_core, ddm_step, ddm_fields, py_bit.
  cbn [ddm_n_threshold ddm_warning_scale ddm_drift_scale d_rate d_std d_rate_min d_std_min]. cbv beta iota zeta.
  destruct correct; cbv beta iota zeta; split_ifs; reflexivity.
Qed.

Corollary DDM_core_eq : forall (p : @ddm_params N) e n correct,
  DDM_core (ddm_n_threshold p) (ddm_warning_scale p) (ddm_drift_scale p) n (ddm_fields e) correct =
  (ddm_fields (fst (ddm_step p e n (negb correct))), snd (ddm_step p e n (negb correct)), true).
Proof. intros [nt w d] [a b c e] n correct. exact (DDM_core_is_ddm_step nt w d n a b c e correct). Qed.

(** C05_ddm_rule of the translated update() *)
Theorem Gen_C05_ddm_rule : forall (p : @ddm_params N) e n correct,
  let err := negb correct in
  let r := DDM_core (ddm_n_threshold p) (ddm_warning_scale p) (ddm_drift_scale p) n (ddm_fields e) correct in
  let '(rate', sd', rmin', _) := fst (fst r) in
  ((n < ddm_n_threshold p)%Z -> snd (fst r) = None) /\
  ((ddm_n_threshold p <= n)%Z ->
     snd (fst r) =
       Some (if (ddm_rmin' e n err + ddm_drift_scale p * ddm_sd' e n err) <=? (ddm_rate' e n err + ddm_sd' e n err) then DDrift
             else if (ddm_rmin' e n err + ddm_warning_scale p * ddm_sd' e n err) <=? (ddm_rate' e n err + ddm_sd' e n err) then DWarn
             else DNone)) /\
  rate' = ddm_rate' e n err /\ sd' = ddm_sd' e n err /\
  ((ddm_n_threshold p <= n)%Z -> rmin' = ddm_rmin' e n err) /\
  snd r = true.
Proof.
  intros p e n correct err r. subst r. rewrite (DDM_core_eq p e n correct). fold err. cbn [fst snd]. unfold ddm_fields.
  destruct (C05_ddm_rule p e n err) as (H1 & H2 & H3 & H4 & H5). cbv zeta in H2.
  repeat split; assumption.
Qed.

Definition DDM_gen (n_threshold : Z) (warning_scale drift_scale : F) : kernel :=
  {| E := F * F * F * F; X := bool; reset_e := fun _ => (f0, f0, finf, finf);
     step_e := fun e n c => fst (DDM_core n_threshold warning_scale drift_scale n e c); policy := PolFirstWarn |}.

Lemma Gen_ddm_run : forall (p : @ddm_params N) cs,
  st_rel (DDM_gen (ddm_n_threshold p) (ddm_warning_scale p) (ddm_drift_scale p)) (DDM p) (fun t e => t = ddm_fields e)
         (run (init (DDM_gen (ddm_n_threshold p) (ddm_warning_scale p) (ddm_drift_scale p)) (f0, f0, finf, finf)) cs)
         (run (init (DDM p) ddm_e0) (map negb cs)).
Proof.
  intros p cs. apply (run_sim (DDM_gen (ddm_n_threshold p) (ddm_warning_scale p) (ddm_drift_scale p)) (DDM p) (fun t e => t = ddm_fields e) negb).
  - reflexivity.
  - intros; reflexivity.
  - intros t e n c ->. cbn [step_e DDM_gen DDM]. rewrite (DDM_core_eq p e n c). split; reflexivity.
  - split; reflexivity.
Qed.

(** machine + translated core has the observable trace of the model (inputs: correct? on one side, error? on the other) *)
Theorem Gen_ddm_trace : forall (p : @ddm_params N) cs,
  trace (init (DDM_gen (ddm_n_threshold p) (ddm_warning_scale p) (ddm_drift_scale p)) (f0, f0, finf, finf)) cs =
  trace (init (DDM p) ddm_e0) (map negb cs).
Proof.
  intros p cs. apply (trace_sim (DDM_gen (ddm_n_threshold p) (ddm_warning_scale p) (ddm_drift_scale p)) (DDM p) (fun t e => t = ddm_fields e) negb).
  - reflexivity.
  - intros; reflexivity.
  - intros t e n c ->. cbn [step_e DDM_gen DDM]. rewrite (DDM_core_eq p e n c). split; reflexivity.
  - split; reflexivity.
Qed.

(** C05_ddm_recs of machine + translated core *)
Theorem Gen_C05_ddm_recs : forall (p : @ddm_params N) cs,
  let s := run (init (DDM_gen (ddm_n_threshold p) (ddm_warning_scale p) (ddm_drift_scale p)) (f0, f0, finf, finf)) cs in
  ds s = DDrift -> exists a, recs s = (Some a, Some (total s - 1)%Z) /\ (a <= total s - 1)%Z.
Proof.
  intros p cs s. destruct (Gen_ddm_run p cs) as [_ Ho]. fold s in Ho. unfold observe in Ho. injection Ho as -> -> _ ->.
  exact (C05_ddm_recs p (map negb cs)).
Qed.
End DDM.

Print Assumptions DDM_core_is_ddm_step.
Print Assumptions DDM_core_eq.
Print Assumptions Gen_C05_ddm_rule.
Print Assumptions Gen_ddm_trace.
Print Assumptions Gen_C05_ddm_recs.
(* END DDM *)

(* BEGIN EDDM *)
Section EDDM.
Context {N : Num}.
Notation F := (F N).

Definition eddm_fields (e : @eddm_e N) : Z * Z * Z * F * F * F * option F :=
  (e_n_errors e, e_idx_curr e, e_idx_last e, e_mean e, e_std e, e_max e, e_stat e).

(** [correct] is the result of `y_pred == y_true`, which is also the model's input *)
Theorem EDDM_core_is_eddm_step :
  forall (n_threshold : Z) (warning_thresh drift_thresh : F) (n : Z) (ne curr last : Z) (mean sd mx : F) (stat : option F)
         (correct : bool),
  let p := {| eddm_n_threshold := n_threshold; eddm_warning_thresh := warning_thresh; eddm_drift_thresh := drift_thresh |} in
  let e := {| e_n_errors := ne; e_idx_curr := curr; e_idx_last := last; e_mean := mean; e_std := sd; e_max := mx;
              e_stat := stat |} in
  EDDM_core n_threshold warning_thresh drift_thresh n (ne, curr, last, mean, sd, mx, stat) correct =
  (eddm_fields (fst (eddm_step p e n correct)), snd (eddm_step p e n correct), true).
Proof.
  intros n_threshold warning_thresh drift_thresh n ne curr last mean sd mx stat correct p e. subst p e.
  unfold EDDM_core, eddm_step, eddm_fields, py_bit, py_bitZ.
  cbn [eddm_n_threshold eddm_warning_thresh eddm_drift_thresh e_n_errors e_idx_curr e_idx_last e_mean e_std e_max e_stat].
  cbv beta iota zeta.
  destruct correct; cbv beta iota zeta; split_ifs; reflexivity.
Qed.

Corollary EDDM_core_eq : forall (p : @eddm_params N) e n correct,
  EDDM_core (eddm_n_threshold p) (eddm_warning_thresh p) (eddm_drift_thresh p) n (eddm_fields e) correct =
  (eddm_fields (fst (eddm_step p e n correct)), snd (eddm_step p e n correct), true).
Proof. intros [nt w d] [a b c m s x t] n correct. exact (EDDM_core_is_eddm_step nt w d n a b c m s x t correct). Qed.

(** C05_eddm_rule of the translated update() *)
Theorem Gen_C05_eddm_rule : forall (p : @eddm_params N) e n,
  let core := EDDM_core (eddm_n_threshold p) (eddm_warning_thresh p) (eddm_drift_thresh p) n (eddm_fields e) in
  core true = (eddm_fields e, None, true) /\
  ((e_n_errors e + 1 < eddm_n_threshold p)%Z -> snd (fst (core false)) = None) /\
  ((eddm_n_threshold p <= e_n_errors e + 1)%Z ->
     let stat := eddm_num' e n / eddm_max' e n in
     let '(ne', _, _, _, _, mx', _) := fst (fst (core false)) in
     snd (fst (core false)) =
       Some (if stat <=? eddm_drift_thresh p then DDrift
             else if stat <=? eddm_warning_thresh p then DWarn else DNone)
     /\ ne' = (e_n_errors e + 1)%Z /\ mx' = eddm_max' e n).
Proof.
  intros p e n core. subst core. rewrite !EDDM_core_eq. cbn [fst snd]. unfold eddm_fields.
  destruct (C05_eddm_rule p e n) as (H1 & H2 & H3). rewrite H1. cbn [fst snd].
  split; [reflexivity|]. split; [exact H2|]. intros H. exact (H3 H).
Qed.

Definition EDDM_gen (n_threshold : Z) (warning_thresh drift_thresh : F) : kernel :=
  {| E := Z * Z * Z * F * F * F * option F; X := bool; reset_e := fun _ => (0%Z, 0%Z, 0%Z, f0, f0, f0, None);
     step_e := fun e n c => fst (EDDM_core n_threshold warning_thresh drift_thresh n e c); policy := PolFirstWarn |}.

Lemma Gen_eddm_run : forall (p : @eddm_params N) cs,
  st_rel (EDDM_gen (eddm_n_threshold p) (eddm_warning_thresh p) (eddm_drift_thresh p)) (EDDM p) (fun t e => t = eddm_fields e)
         (run (init (EDDM_gen (eddm_n_threshold p) (eddm_warning_thresh p) (eddm_drift_thresh p)) (0%Z, 0%Z, 0%Z, f0, f0, f0, None)) cs)
         (run (init (EDDM p) eddm_e0) (map (fun c => c) cs)).
Proof.
  intros p cs. apply (run_sim (EDDM_gen (eddm_n_threshold p) (eddm_warning_thresh p) (eddm_drift_thresh p)) (EDDM p)
           (fun t e => t = eddm_fields e) (fun c => c)).
  - reflexivity.
  - intros; reflexivity.
  - intros t e n c ->. cbn [step_e EDDM_gen EDDM]. rewrite (EDDM_core_eq p e n c). split; reflexivity.
  - split; reflexivity.
Qed.

Theorem Gen_eddm_trace : forall (p : @eddm_params N) cs,
  trace (init (EDDM_gen (eddm_n_threshold p) (eddm_warning_thresh p) (eddm_drift_thresh p)) (0%Z, 0%Z, 0%Z, f0, f0, f0, None)) cs =
  trace (init (EDDM p) eddm_e0) cs.
Proof.
  intros p cs. rewrite <- (map_id cs) at 2.
  apply (trace_sim (EDDM_gen (eddm_n_threshold p) (eddm_warning_thresh p) (eddm_drift_thresh p)) (EDDM p)
           (fun t e => t = eddm_fields e) (fun c => c)).
  - reflexivity.
  - intros; reflexivity.
  - intros t e n c ->. cbn [step_e EDDM_gen EDDM]. rewrite (EDDM_core_eq p e n c). split; reflexivity.
  - split; reflexivity.
Qed.

(** C05_eddm_recs of machine + translated core *)
Theorem Gen_C05_eddm_recs : forall (p : @eddm_params N) cs,
  let s := run (init (EDDM_gen (eddm_n_threshold p) (eddm_warning_thresh p) (eddm_drift_thresh p)) (0%Z, 0%Z, 0%Z, f0, f0, f0, None)) cs in
  ds s = DDrift -> exists a, recs s = (Some a, Some (total s - 1)%Z) /\ (a <= total s - 1)%Z.
Proof.
  intros p cs s. destruct (Gen_eddm_run p cs) as [_ Ho]. fold s in Ho. rewrite map_id in Ho.
  unfold observe in Ho. injection Ho as -> -> _ ->. exact (C05_eddm_recs p cs).
Qed.
End EDDM.

Print Assumptions EDDM_core_is_eddm_step.
Print Assumptions EDDM_core_eq.
Print Assumptions Gen_C05_eddm_rule.
Print Assumptions Gen_eddm_trace.
Print Assumptions Gen_C05_eddm_recs.
(* END EDDM *)
