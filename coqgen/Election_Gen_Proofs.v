(** The Gallina that tools/py2coq_election.py generates from the CURRENT menelaus/ensemble/election.py
    (Election_Gen.v, regenerated on every run of the C13 check) computes the same function as the hand-written
    model Election.v, for every input; hence the theorems of Prop_C13.v hold of the translated source (last section).
    Compiled by harness/c13.py in a scratch directory against the freshly generated file:
      coqc -Q /verif/coq MV -Q . MVG Election_Gen.v ; coqc -Q /verif/coq MV -Q . MVG Election_Gen_Proofs.v
    (the committed Election_Gen.v beside this file is a snapshot for the reader). *)
From MV Require Import Base PyRt Election Election_Proofs.
From MVG Require Import Election_Gen.
Lemma dstate_eqb_drift d : dstate_eqb d DDrift = is_drift d. Proof. destruct d; reflexivity. Qed.
Lemma dstate_eqb_warn d : dstate_eqb d DWarn = is_warn d. Proof. destruct d; reflexivity. Qed.

(** case analysis that follows the meaning of the tests, not their nesting or spelling: every atomic boolean test is
    split, integer tests become (in)equalities, contradictory branches are closed by lia *)
Ltac atomic c :=
  lazymatch c with
  | true => fail | false => fail
  | (if _ then _ else _) => fail
  | _ => idtac
  end.
Ltac split_tests :=
  unfold andb, orb, negb; cbv beta iota zeta;
  repeat (match goal with |- context [if ?c then _ else _] => atomic c; destruct c eqn:? end; cbv beta iota zeta).
Ltac zdec :=
  repeat match goal with
         | H : (_ <=? _) = true |- _ => apply Z.leb_le in H
         | H : (_ <=? _) = false |- _ => apply Z.leb_gt in H
         | H : (_ <? _) = true |- _ => apply Z.ltb_lt in H
         | H : (_ <? _) = false |- _ => apply Z.ltb_ge in H
         | H : (_ =? _) = true |- _ => apply Z.eqb_eq in H
         | H : (_ =? _) = false |- _ => apply Z.eqb_neq in H
         end.

Theorem gen_simple_majority l : fst (SimpleMajorityElection_call l) = simple_majority l.
Proof.
  unfold SimpleMajorityElection_call, simple_majority, cnt_drift, py_len. cbv zeta.
  replace (filter (fun d => dstate_eqb d DDrift) l) with (filter is_drift l)
    by (apply filter_ext; intros d; symmetry; apply dstate_eqb_drift).
  destruct (_ <? _); reflexivity.
Qed.

Theorem gen_min_approval a l : fst (MinimumApprovalElection_call a l) = min_approval a l.
Proof.
  unfold MinimumApprovalElection_call, min_approval. cbv zeta.
  match goal with |- context [py_for ?b l _] => set (body := b) end.
  assert (H : forall l n, (min_approval_go a n l = DDrift /\ fst (py_for body l (n, tt)) = Some DDrift) \/
                          (min_approval_go a n l = DNone /\ fst (py_for body l (n, tt)) = None)).
  { induction l0 as [|d t IH]; intros n; [right; split; reflexivity|].
    cbn [py_for min_approval_go]. unfold body at 1 3. rewrite ?dstate_eqb_drift.
    split_tests; zdec; first [left; split; reflexivity | apply IH | exfalso; lia]. }
  specialize (H l 0). destruct (py_for body l (0, tt)) as [r [n []]]. simpl in H.
  destruct H as [[H1 H2]|[H1 H2]]; rewrite H1; subst r; reflexivity.
Qed.

Theorem gen_ordered_approval a c l : fst (OrderedApprovalElection_call a c l) = ordered_approval a c l.
Proof.
  unfold OrderedApprovalElection_call, ordered_approval. cbv zeta.
  match goal with |- context [py_for ?b l _] => set (body := b) end.
  assert (H : forall l na nc, (ordered_go a c na nc l = DDrift /\ fst (py_for body l (na, (nc, tt))) = Some DDrift) \/
                              (ordered_go a c na nc l = DNone /\ fst (py_for body l (na, (nc, tt))) = None)).
  { induction l0 as [|d t IH]; intros na nc; [right; split; reflexivity|].
    cbn [py_for ordered_go]. unfold body at 1 3. rewrite ?dstate_eqb_drift.
    split_tests; zdec; first [left; split; reflexivity | apply IH | exfalso; lia]. }
  specialize (H l 0 0). destruct (py_for body l (0, (0, tt))) as [r [na [nc []]]]. simpl in H.
  destruct H as [[H1 H2]|[H1 H2]]; rewrite H1; subst r; reflexivity.
Qed.

Lemma py_nth_app pre c rest : py_nth (pre ++ c :: rest) (Z.of_nat (length pre)) = c.
Proof. unfold py_nth. rewrite Nat2Z.id, app_nth2, Nat.sub_diag by lia. reflexivity. Qed.

Lemma py_upd_app pre c rest v : py_upd (pre ++ c :: rest) (length pre) v = pre ++ v :: rest.
Proof. induction pre as [|x pre IH]; simpl; [reflexivity|]. rewrite IH. reflexivity. Qed.

Lemma py_set_app pre c rest v : py_set (pre ++ c :: rest) (Z.of_nat (length pre)) v = pre ++ v :: rest.
Proof. unfold py_set. rewrite Nat2Z.id. apply py_upd_app. Qed.

Lemma snoc_len {A} (pre : list A) x : Z.of_nat (length pre) + 1 = Z.of_nat (length (pre ++ [x])).
Proof. rewrite app_length. simpl. lia. Qed.

Lemma app_snoc {A} (pre : list A) x rest : pre ++ x :: rest = (pre ++ [x]) ++ rest.
Proof. rewrite <- app_assoc. reflexivity. Qed.

Ltac fin := apply f_equal; apply f_equal2; [lia | apply f_equal2; [lia | reflexivity]].

Theorem gen_confirmed s wt w sts :
  (match w with Some cs => length cs = length sts | None => True end) ->
  ConfirmedElection_call s wt w sts =
  (fst (confirmed_call {| sensitivity := s; wait_time := wt |} w sts),
   (snd (confirmed_call {| sensitivity := s; wait_time := wt |} w sts), tt)).
Proof.
  intros Hlen. unfold ConfirmedElection_call, confirmed_call.
  set (cs0 := match w with Some cs => cs | None => repeat 0 (length sts) end).
  assert (Hcs0 : length cs0 = length sts) by (subst cs0; destruct w; [exact Hlen | apply repeat_length]).
  assert (Hw : (if py_is_none w then Some (py_repeat 0 (py_len sts)) else w) = Some cs0).
  { subst cs0. destruct w; simpl; [reflexivity|]. unfold py_repeat, py_len. rewrite Nat2Z.id. reflexivity. }
  cbv beta iota zeta.
  match goal with |- context [if py_is_none w then ?A else ?B] =>
    replace (if py_is_none w then A else B) with (@None dstate, (0, (0, (DNone, (@nil dstate, (Some cs0, tt))))))
      by (rewrite <- Hw; destruct (py_is_none w); reflexivity) end.
  cbv beta iota zeta.
  match goal with |- context [py_for_i ?b 0 sts _] => set (body1 := b) end.
  (* first loop = tally *)
  assert (L1 : forall sts pre cs nd nw S0 R0, length cs = length sts ->
            py_for_i body1 (Z.of_nat (length pre)) sts (nd, (nw, (R0, (S0, (Some (pre ++ cs), tt))))) =
            (None, (nd + fst (fst (tally sts cs)), (nw + snd (fst (tally sts cs)), (R0, (S0, (Some (pre ++ snd (tally sts cs)), tt))))))).
  { induction sts0 as [|st t IH]; intros pre cs nd nw S0 R0 Hl.
    - destruct cs; [|discriminate]. simpl. rewrite !Z.add_0_r. reflexivity.
    - destruct cs as [|c cs]; [discriminate|]. injection Hl as Hl.
      cbn [py_for_i tally]. unfold body1 at 1. cbn [py_oget].
      rewrite py_nth_app, !py_set_app, dstate_eqb_drift, dstate_eqb_warn.
      unfold vote. destruct (tally t cs) as [[nd' nw'] r] eqn:Et.
      destruct (is_drift st && (c =? 0)) eqn:E1; cbv beta iota zeta.
      + rewrite (snoc_len pre (c + 1)), (app_snoc pre (c + 1) cs), (IH (pre ++ [c + 1]) cs _ _ _ _ Hl), Et. cbn [fst snd].
        rewrite <- app_snoc. fin.
      + destruct (is_warn st) eqn:E2; cbv beta iota zeta.
        * rewrite (snoc_len pre c), (app_snoc pre c cs), (IH (pre ++ [c]) cs _ _ _ _ Hl), Et. cbn [fst snd].
          rewrite <- app_snoc. fin.
        * destruct (negb (c =? 0)) eqn:E3; cbv beta iota zeta.
          -- rewrite (snoc_len pre (c + 1)), (app_snoc pre (c + 1) cs), (IH (pre ++ [c + 1]) cs _ _ _ _ Hl), Et. cbn [fst snd].
             rewrite <- app_snoc. fin.
          -- rewrite (snoc_len pre c), (app_snoc pre c cs), (IH (pre ++ [c]) cs _ _ _ _ Hl), Et. cbn [fst snd].
             rewrite <- app_snoc. fin. }
  pose proof (L1 sts [] cs0 0 0 sts DNone Hcs0) as E1. cbn [length app Z.of_nat] in E1. rewrite E1. clear E1 L1.
  destruct (tally sts cs0) as [[nd nw] r]. cbn [fst snd]. rewrite !Z.add_0_l. cbv beta iota zeta.
  cbn [sensitivity wait_time].
  (* second loop = map expire *)
  assert (L2 : forall (b2 : Z -> Z -> _ -> option dstate * _) cs pre (nd nw : Z) (S0 : list dstate) (R0 : dstate),
            (forall i count nd nw S0 R0 W, b2 i count (nd, (nw, (R0, (S0, (W, tt))))) =
               (None, (nd, (nw, (R0, (S0, ((if wt <? count then Some (py_set (py_oget W) i 0) else W), tt))))))) ->
            py_for_i b2 (Z.of_nat (length pre)) cs (nd, (nw, (R0, (S0, (Some (pre ++ cs), tt))))) =
            (None, (nd, (nw, (R0, (S0, (Some (pre ++ map (expire {| sensitivity := s; wait_time := wt |}) cs), tt))))))).
  { intros b2 cs. induction cs as [|c cs IH]; intros pre nd' nw' S0 R0 Hb; [reflexivity|].
    cbn [py_for_i map]. rewrite Hb. unfold expire at 1. cbn [wait_time py_oget].
    destruct (wt <? c).
    - rewrite py_set_app, (snoc_len pre 0), (app_snoc pre 0 cs), (IH (pre ++ [0]) _ _ _ _ Hb), <- app_snoc. reflexivity.
    - rewrite (snoc_len pre c), (app_snoc pre c cs), (IH (pre ++ [c]) _ _ _ _ Hb), <- app_snoc. reflexivity. }
  destruct (s <=? nd); [|destruct (s <=? nw + nd)]; cbv beta iota zeta; cbn [py_oget];
    match goal with |- context [py_for_i ?b 0 r (_, (_, (?R0, _)))] =>
      let E2 := fresh "E2" in
      assert (E2 := L2 b r [] nd nw sts R0); cbn [length app Z.of_nat] in E2; rewrite E2;
        [reflexivity | intros i count nd1 nw1 S1 R1 W; destruct (wt <? count); reflexivity]
    end.
Qed.

(** ---- a whole history of calls of the translated ConfirmedElection ---- *)
Fixpoint gen_confirmed_run (s wt : Z) (w : option (list Z)) (calls : list (list dstate)) : list (dstate * list Z) :=
  match calls with
  | [] => []
  | sts :: rest =>
      let '(r, (w', _)) := ConfirmedElection_call s wt w sts in
      (r, match w' with Some cs => cs | None => [] end) :: gen_confirmed_run s wt w' rest
  end.

Lemma tally_length : forall sts cs, length cs = length sts -> length (snd (tally sts cs)) = length sts.
Proof.
  induction sts as [|st t IH]; intros [|c cs] H; simpl in *; try discriminate; [reflexivity|].
  injection H as H. destruct (vote st c) as [[v w0] c']. specialize (IH cs H).
  destruct (tally t cs) as [[nd nw] r]. simpl in *. rewrite IH. reflexivity.
Qed.

(** the ensemble always passes the same number of detectors *)
Theorem gen_confirmed_history s wt : forall calls w n,
  Forall (fun sts => length sts = n) calls ->
  (match w with Some cs => length cs = n | None => True end) ->
  gen_confirmed_run s wt w calls = confirmed_run {| sensitivity := s; wait_time := wt |} w calls.
Proof.
  induction calls as [|sts rest IH]; intros w n HF Hw; [reflexivity|].
  inversion HF as [|? ? Hn HF']; subst.
  cbn [gen_confirmed_run confirmed_run].
  rewrite (gen_confirmed s wt w sts) by (destruct w; [exact Hw | exact I]).
  destruct (confirmed_call {| sensitivity := s; wait_time := wt |} w sts) as [r w'] eqn:E. cbn [fst snd].
  f_equal. apply (IH w' (length sts) HF').
  unfold confirmed_call in E.
  set (cs0 := match w with Some cs => cs | None => repeat 0 (length sts) end) in E.
  assert (Hcs0 : length cs0 = length sts) by (subst cs0; destruct w; [exact Hw | apply repeat_length]).
  pose proof (tally_length sts cs0 Hcs0) as Ht.
  destruct (tally sts cs0) as [[nd nw] cs']. cbn [snd] in Ht. injection E as _ E. subst w'.
  rewrite map_length. exact Ht.
Qed.

(** ---- the theorems of Prop_C13.v, for the translated source ---- *)
Theorem C13g_majority_iff : forall l,
  fst (SimpleMajorityElection_call l) = DDrift <-> Z.of_nat (length l) < 2 * cnt_drift l.
Proof. intros l. rewrite gen_simple_majority. apply majority_iff. Qed.

Theorem C13g_min_approval_iff : forall a l, 1 <= a ->
  (fst (MinimumApprovalElection_call a l) = DDrift <-> a <= cnt_drift l).
Proof. intros a l H. rewrite gen_min_approval. apply min_approval_iff. exact H. Qed.

Theorem C13g_ordered_iff : forall a c l, 0 <= a -> 0 <= c -> 1 <= a + c ->
  (fst (OrderedApprovalElection_call a c l) = DDrift <-> a + c <= cnt_drift l).
Proof. intros a c l H1 H2 H3. rewrite gen_ordered_approval. apply ordered_iff; assumption. Qed.

Theorem C13g_confirmed_history : forall s wt sts calls,
  Forall (fun x => length x = length sts) calls ->
  gen_confirmed_run s wt None (sts :: calls) = confirmed_run {| sensitivity := s; wait_time := wt |} None (sts :: calls).
Proof.
  intros s wt sts calls H. apply (gen_confirmed_history s wt (sts :: calls) None (length sts)); [|exact I].
  constructor; [reflexivity | exact H].
Qed.

Print Assumptions gen_simple_majority.
Print Assumptions gen_min_approval.
Print Assumptions gen_ordered_approval.
Print Assumptions gen_confirmed.
Print Assumptions C13g_majority_iff.
Print Assumptions C13g_min_approval_iff.
Print Assumptions C13g_ordered_iff.
Print Assumptions C13g_confirmed_history.
