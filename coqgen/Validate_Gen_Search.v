(** Not a proof: when Validate_Gen_Proofs.v no longer checks against a fresh translation, this file is evaluated
    (vm_compute) to look for a concrete (state, input) on which the translated validator and the hand-written model
    differ; the harness reports the first one found as the replay of the broken obligation. *)
From MV Require Import Base Validate.
From MVG Require Import Validate_Gen.
From Coq Require Import String.
Local Open Scope string_scope.
Local Open Scope Z_scope.

Definition oT : nat -> bool := fun _ => true.
Definition oF : nat -> bool := fun _ => false.
Definition sts : list vstate :=
  [mkV None None; mkV None (Some 1); mkV None (Some 2); mkV (Some [1000]) (Some 1);
   mkV (Some [1000; 1001]) (Some 2); mkV (Some [7]) (Some 1); mkV (Some [1000]) None].
Definition dims : list Z := [0; 1; 2; 3].
Definition xs : list input :=
  flat_map (fun ns => map (InDF ns) dims) [[1000]; [1000; 1001]; [7]; []]
  ++ flat_map (fun r => map (InArr2 r) dims) dims
  ++ map In1D dims ++ map InSeries dims ++ [InScalar].

Definition result_eqb (a b : result) : bool :=
  match a, b with
  | Accept s1 v1, Accept s2 v2 => shape_eqb s1 s2 && vstate_eqb v1 v2
  | Reject v1, Reject v2 => vstate_eqb v1 v2
  | _, _ => false
  end.

Definition diffX (gen : vstate -> input -> result * bool) (model : vstate -> input -> result) :=
  hd_error (filter (fun sx => negb (result_eqb (fst (gen (fst sx) (snd sx))) (model (fst sx) (snd sx))
                                    && snd (gen (fst sx) (snd sx))))
                   (list_prod sts xs)).
Definition diffY (gen : input -> bool * bool) (model : input -> bool) :=
  hd_error (filter (fun y => negb (Bool.eqb (fst (gen y)) (model y) && snd (gen y))) xs).

Definition show {A} (o : option A) (f : A -> (result * bool * result)) := match o with Some a => Some (a, f a) | None => None end.

Eval vm_compute in ("StreamingDetector._validate_X", show (diffX (StreamingDetector_validate_X oT) validate_X_stream)
                      (fun sx => ((StreamingDetector_validate_X oT) (fst sx) (snd sx), validate_X_stream (fst sx) (snd sx)))).
Eval vm_compute in ("BatchDetector._validate_X", show (diffX (BatchDetector_validate_X oT) validate_X_batch)
                      (fun sx => ((BatchDetector_validate_X oT) (fst sx) (snd sx), validate_X_batch (fst sx) (snd sx)))).
Eval vm_compute in ("StreamingDetector._validate_y", diffY (StreamingDetector_validate_y oT) validate_y_stream).
Eval vm_compute in ("BatchDetector._validate_y", diffY (BatchDetector_validate_y oT) validate_y_batch).
Eval vm_compute in ("ADWIN.update", show (diffX (ADWIN_update_validate oT) validate_univariate)
                      (fun sx => ((ADWIN_update_validate oT) (fst sx) (snd sx), validate_univariate (fst sx) (snd sx)))).
Eval vm_compute in ("CUSUM.update", show (diffX (CUSUM_update_validate oT) validate_univariate)
                      (fun sx => ((CUSUM_update_validate oT) (fst sx) (snd sx), validate_univariate (fst sx) (snd sx)))).
Eval vm_compute in ("PageHinkley.update", show (diffX (PageHinkley_update_validate oT) validate_univariate)
                      (fun sx => ((PageHinkley_update_validate oT) (fst sx) (snd sx), validate_univariate (fst sx) (snd sx)))).
Eval vm_compute in ("HistogramDensityMethod.set_reference[detect_batch=1]",
                    show (diffX (HistogramDensityMethod_set_reference_validate oT 1) validate_reference_min3)
                      (fun sx => (HistogramDensityMethod_set_reference_validate oT 1 (fst sx) (snd sx), validate_reference_min3 (fst sx) (snd sx)))).
Eval vm_compute in ("HistogramDensityMethod.set_reference[detect_batch=2]",
                    show (diffX (HistogramDensityMethod_set_reference_validate oT 2) validate_X_batch)
                      (fun sx => (HistogramDensityMethod_set_reference_validate oT 2 (fst sx) (snd sx), validate_X_batch (fst sx) (snd sx)))).
Eval vm_compute in ("CDBD.update", diffY (CDBD_update_guard oT) cdbd_guard).
Eval vm_compute in ("CDBD.set_reference", diffY (CDBD_set_reference_guard oT) cdbd_guard).
