(** Re-checked on every run of C01 against a FRESH translation of menelaus/detector.py (tools/py2coq_lifecycle.py): the
    counter / drift_state bookkeeping of the three base classes is exactly that of the generic machine coq/Lifecycle.v
    (init, do_reset, the increments of update), and the drift_state setter stores exactly "drift", "warning" and None. *)
From Coq Require Import ZArith String List Bool Lia.
From MV Require Import Base Lifecycle.
From MVG Require Import Lifecycle_Gen.
Import ListNotations.
Local Open Scope Z_scope.

Definition enc (d : dstate) : option pyval :=
  Some (match d with DNone => PNone | DWarn => PStr "warning" | DDrift => PStr "drift" end).
Definition cnt {K} (s : st K) : counters := (total s, since s, enc (ds s)).

Definition setter_spec (f : pyval -> option pyval) : Prop :=
  forall v, (f v = Some v /\ exists d, Some v = enc d) \/
            (f v = None /\ v <> PNone /\ v <> PStr "drift" /\ v <> PStr "warning").

Lemma setter_generic (f : pyval -> option pyval) :
  (forall v, f v = if negb (py_in v [PStr "drift"; PStr "warning"; PNone]) then None else Some v) -> setter_spec f.
Proof.
  intros H v. rewrite H. destruct v as [|s|]; cbn.
  - left. split; [reflexivity|]. exists DNone. reflexivity.
  - destruct (String.eqb s "drift") eqn:E1; cbn.
    + apply String.eqb_eq in E1. subst. left. split; [reflexivity|]. exists DDrift. reflexivity.
    + destruct (String.eqb s "warning") eqn:E2; cbn.
      * apply String.eqb_eq in E2. subst. left. split; [reflexivity|]. exists DWarn. reflexivity.
      * right. apply String.eqb_neq in E1, E2. repeat split; congruence.
  - right. repeat split; discriminate.
Qed.

Ltac setter := apply setter_generic; intros v; destruct v; reflexivity.

(* BEGIN StreamingDetector *)
Theorem StreamingDetector_setter : setter_spec StreamingDetector_set_drift_state.
Proof. setter. Qed.
Print Assumptions StreamingDetector_setter.
Theorem StreamingDetector_lifecycle :
  (forall K e, cnt (init K e) = StreamingDetector_init) /\
  (forall K (s : st K), cnt (do_reset s) = StreamingDetector_reset (cnt s)) /\
  (forall K (s : st K) x, let s0 := if is_drift (ds s) then do_reset s else s in
     (total (update s x), since (update s x)) = fst (StreamingDetector_update (cnt s0))) /\
  (forall c, snd (StreamingDetector_update c) = snd c) /\
  StreamingDetector_set_drift_state PNone = Some PNone.
Proof.
  split; [|split; [|split; [|split]]].
  - intros K e. reflexivity.
  - intros K [e t n d r]. reflexivity.
  - intros K s x s0. subst s0. cbv [update]. destruct (is_drift (ds s)); destruct (step_e K _ _ x); reflexivity.
  - intros [[t n] d]. reflexivity.
  - reflexivity.
Qed.
Print Assumptions StreamingDetector_lifecycle.
(* END StreamingDetector *)

(* BEGIN BatchDetector *)
Theorem BatchDetector_setter : setter_spec BatchDetector_set_drift_state.
Proof. setter. Qed.
Print Assumptions BatchDetector_setter.
Theorem BatchDetector_lifecycle :
  (forall K e, cnt (init K e) = BatchDetector_init) /\
  (forall K (s : st K), cnt (do_reset s) = BatchDetector_reset (cnt s)) /\
  (forall K (s : st K) x, let s0 := if is_drift (ds s) then do_reset s else s in
     (total (update s x), since (update s x)) = fst (BatchDetector_update (cnt s0))) /\
  (forall c, snd (BatchDetector_update c) = snd c) /\
  BatchDetector_set_drift_state PNone = Some PNone.
Proof.
  split; [|split; [|split; [|split]]].
  - intros K e. reflexivity.
  - intros K [e t n d r]. reflexivity.
  - intros K s x s0. subst s0. cbv [update]. destruct (is_drift (ds s)); destruct (step_e K _ _ x); reflexivity.
  - intros [[t n] d]. reflexivity.
  - reflexivity.
Qed.
Print Assumptions BatchDetector_lifecycle.
(* END BatchDetector *)

(* BEGIN DriftDetector *)
Theorem DriftDetector_setter : setter_spec DriftDetector_set_drift_state.
Proof. setter. Qed.
Print Assumptions DriftDetector_setter.
Theorem DriftDetector_lifecycle :
  (forall K e, cnt (init K e) = DriftDetector_init) /\
  (forall K (s : st K), cnt (do_reset s) = DriftDetector_reset (cnt s)) /\
  (forall K (s : st K) x, let s0 := if is_drift (ds s) then do_reset s else s in
     (total (update s x), since (update s x)) = fst (DriftDetector_update (cnt s0))) /\
  (forall c, snd (DriftDetector_update c) = snd c) /\
  DriftDetector_set_drift_state PNone = Some PNone.
Proof.
  split; [|split; [|split; [|split]]].
  - intros K e. reflexivity.
  - intros K [e t n d r]. reflexivity.
  - intros K s x s0. subst s0. cbv [update]. destruct (is_drift (ds s)); destruct (step_e K _ _ x); reflexivity.
  - intros [[t n] d]. reflexivity.
  - reflexivity.
Qed.
Print Assumptions DriftDetector_lifecycle.
(* END DriftDetector *)
