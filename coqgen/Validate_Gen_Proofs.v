(** Re-checked on every run of C14 against a FRESH translation of menelaus/detector.py (tools/py2coq_validate.py):
    the translated validators are the hand-written model coq/Validate.v on every state and every input, and no path
    raises anything but ValueError.  Hence every theorem of Validate_Proofs.v / Prop_C14.v about validate_X_stream,
    validate_X_batch, validate_y_stream, validate_y_batch is a theorem about the translated source. *)
From MV Require Import Base Validate.
From MVG Require Import Validate_Gen.
Local Open Scope Z_scope.

(* semantic case split: the state's two options, the input's constructor, then every remaining boolean test;
   no step depends on the shape or order of the generated decision tree *)
Ltac split_ifs :=
  repeat match goal with
         | |- context [if (if ?b then _ else _) then _ else _] => destruct b eqn:?
         | |- context [if ?b then _ else _] => destruct b eqn:?
         end.
Ltac finish :=
  try reflexivity;
  try (exfalso; lia);
  try congruence;
  try (f_equal; f_equal; lia);
  try (repeat f_equal; lia).

Ltac crush_X :=
  intros [[cs|] [d|]] [ns r|r c|n|n|];
  cbv [StreamingDetector_validate_X BatchDetector_validate_X
       validate_X_stream validate_X_batch df_branch_stream df_branch_batch arr_branch coerce_stream coerce_batch
       np_of np_size np_ndim np_reshape_1_m1 np_reshape_m1_1 np_ravel np_shape0 np_shape1 np_has0 np_has1
       df_names onames_none oz_none names_equals z_eq_opt is_df input_cols input_col_dim fst snd negb andb orb];
  split_ifs; finish.

Theorem StreamingDetector_validate_X_eq :
  forall st x, StreamingDetector_validate_X st x = (validate_X_stream st x, true).
Proof. crush_X. Qed.
Print Assumptions StreamingDetector_validate_X_eq.

Theorem BatchDetector_validate_X_eq :
  forall st x, BatchDetector_validate_X st x = (validate_X_batch st x, true).
Proof. crush_X. Qed.
Print Assumptions BatchDetector_validate_X_eq.

Ltac crush_y :=
  intros [ns r|r c|n|n|];
  cbv [StreamingDetector_validate_y BatchDetector_validate_y validate_y_stream validate_y_batch size_of coerce_stream
       np_of np_size np_ndim np_reshape_1_m1 np_reshape_m1_1 np_ravel np_shape0 np_shape1 np_has0 np_has1 np_shape_is_1
       fst snd negb andb orb];
  split_ifs; finish.

Theorem StreamingDetector_validate_y_eq :
  forall y, StreamingDetector_validate_y y = (validate_y_stream y, true).
Proof. crush_y. Qed.
Print Assumptions StreamingDetector_validate_y_eq.

Theorem BatchDetector_validate_y_eq :
  forall y, BatchDetector_validate_y y = (validate_y_batch y, true).
Proof. crush_y. Qed.
Print Assumptions BatchDetector_validate_y_eq.
