(** Re-checked on every run of C14 against a FRESH translation of menelaus/detector.py (tools/py2coq_validate.py):
    the translated validators are the hand-written model coq/Validate.v on every state and every input, and no path
    raises anything but ValueError.  Hence every theorem of Validate_Proofs.v / Prop_C14.v about validate_X_stream,
    validate_X_batch, validate_y_stream, validate_y_batch is a theorem about the translated source. *)
From MV Require Import Base Validate.
From MVG Require Import Validate_Gen.
Local Open Scope Z_scope.

(* semantic case split: the state's two options, the input's constructor, then every remaining boolean test;
   no step depends on the shape or order of the generated decision tree *)
Ltac split_ifs :=
  repeat match goal with
         | |- context [if (if ?b then _ else _) then _ else _] => destruct b eqn:?
         | |- context [if ?b then _ else _] => destruct b eqn:?
         end.
Ltac finish :=
  try reflexivity;
  try (exfalso; lia);
  try congruence;
  try (f_equal; f_equal; lia);
  try (repeat f_equal; lia).

Ltac crush_X :=
  intros opq [[cs|] [d|]] [ns r|r c|n|n|];
  cbv [StreamingDetector_validate_X BatchDetector_validate_X
       validate_X_stream validate_X_batch df_branch_stream df_branch_batch arr_branch coerce_stream coerce_batch
       np_of np_size np_ndim np_reshape_1_m1 np_reshape_m1_1 np_ravel np_shape0 np_shape1 np_has0 np_has1
       df_names onames_none oz_none names_equals z_eq_opt is_df input_cols input_col_dim fst snd negb andb orb];
  split_ifs; finish.

Theorem StreamingDetector_validate_X_eq :
  forall opq st x, StreamingDetector_validate_X opq st x = (validate_X_stream st x, true).
Proof. crush_X. Qed.
Print Assumptions StreamingDetector_validate_X_eq.

Theorem BatchDetector_validate_X_eq :
  forall opq st x, BatchDetector_validate_X opq st x = (validate_X_batch st x, true).
Proof. crush_X. Qed.
Print Assumptions BatchDetector_validate_X_eq.

Ltac crush_y :=
  intros opq [ns r|r c|n|n|];
  cbv [StreamingDetector_validate_y BatchDetector_validate_y validate_y_stream validate_y_batch size_of coerce_stream
       np_of np_size np_ndim np_reshape_1_m1 np_reshape_m1_1 np_ravel np_shape0 np_shape1 np_has0 np_has1 np_shape_is_1
       fst snd negb andb orb];
  split_ifs; finish.

Theorem StreamingDetector_validate_y_eq :
  forall opq y, StreamingDetector_validate_y opq y = (validate_y_stream y, true).
Proof. crush_y. Qed.
Print Assumptions StreamingDetector_validate_y_eq.

Theorem BatchDetector_validate_y_eq :
  forall opq y, BatchDetector_validate_y opq y = (validate_y_batch y, true).
Proof. crush_y. Qed.
Print Assumptions BatchDetector_validate_y_eq.

(** The validation prologues of the concrete detectors: prior_input / super()._validate_input / guard-with-restore
    (ADWIN, CUSUM, PageHinkley .update; HistogramDensityMethod.set_reference) and CDBD's early guards. *)
Ltac crush_prologue base_eq :=
  intros opq [oc od] x; cbv beta delta [ADWIN_update_validate CUSUM_update_validate PageHinkley_update_validate
                                     HistogramDensityMethod_set_reference_validate];
  cbn [input_cols input_col_dim]; rewrite base_eq;
  cbv beta delta [validate_univariate validate_reference_min3];
  match goal with |- context [?V (mkV oc od) x] => destruct (V (mkV oc od) x) as [[r c] [sc sd]|[sc sd]] end;
  cbv [np_ndim np_shape0 np_shape1 np_has0 np_has1 fst snd negb andb orb input_cols input_col_dim];
  split_ifs; finish.

Theorem ADWIN_update_validate_eq :
  forall opq st x, ADWIN_update_validate opq st x = (validate_univariate st x, true).
Proof. crush_prologue StreamingDetector_validate_X_eq. Qed.
Print Assumptions ADWIN_update_validate_eq.

Theorem CUSUM_update_validate_eq :
  forall opq st x, CUSUM_update_validate opq st x = (validate_univariate st x, true).
Proof. crush_prologue StreamingDetector_validate_X_eq. Qed.
Print Assumptions CUSUM_update_validate_eq.

Theorem PageHinkley_update_validate_eq :
  forall opq st x, PageHinkley_update_validate opq st x = (validate_univariate st x, true).
Proof. crush_prologue StreamingDetector_validate_X_eq. Qed.
Print Assumptions PageHinkley_update_validate_eq.

Theorem HistogramDensityMethod_set_reference_validate_eq1 :
  forall opq st x, HistogramDensityMethod_set_reference_validate opq 1 st x = (validate_reference_min3 st x, true).
Proof. crush_prologue BatchDetector_validate_X_eq. Qed.
Print Assumptions HistogramDensityMethod_set_reference_validate_eq1.

Theorem HistogramDensityMethod_set_reference_validate_eq23 :
  forall opq db st x, db <> 1 -> HistogramDensityMethod_set_reference_validate opq db st x = (validate_X_batch st x, true).
Proof.
  intros opq db [oc od] x Hdb; cbv beta delta [HistogramDensityMethod_set_reference_validate];
  cbn [input_cols input_col_dim]; rewrite BatchDetector_validate_X_eq;
  destruct (validate_X_batch (mkV oc od) x) as [[r c] [sc sd]|[sc sd]];
  cbv [np_ndim np_shape0 np_shape1 np_has0 np_has1 fst snd negb andb orb input_cols input_col_dim];
  split_ifs; finish.
Qed.
Print Assumptions HistogramDensityMethod_set_reference_validate_eq23.

Ltac crush_guard :=
  intros opq [ns r|r c|n|n|];
  cbv [CDBD_update_guard CDBD_set_reference_guard cdbd_guard np_of np_ndim np_shape1 np_has1 negb andb orb];
  split_ifs; finish.

Theorem CDBD_update_guard_eq : forall opq x, CDBD_update_guard opq x = (cdbd_guard x, true).
Proof. crush_guard. Qed.
Print Assumptions CDBD_update_guard_eq.

Theorem CDBD_set_reference_guard_eq : forall opq x, CDBD_set_reference_guard opq x = (cdbd_guard x, true).
Proof. crush_guard. Qed.
Print Assumptions CDBD_set_reference_guard_eq.
