(** Re-checked on every run of C12 against a FRESH translation of menelaus/ensemble/ensemble.py (tools/py2coq_ensemble.py):
    the translated update / reset / set_reference of StreamingEnsemble and BatchEnsemble are the operations of the generic
    ensemble model coq/Ensemble.v on every ensemble state and input, for every member machine and every election; hence the
    C12 theorems (Ensemble_Proofs.v / Prop_C12.v) are theorems about the translated source. *)
From Coq Require Import ZArith List Lia.
From MV Require Import Base Ensemble.
From MVG Require Import Ensemble_Gen.
Import ListNotations.
Local Open Scope Z_scope.

Section Eq.
  Variables (K X Y M ES : Type).
  Variable mupd : M -> X -> Y -> Y -> M.
  Variable msetref : M -> X -> Y -> Y -> M.
  Variable mreset : M -> M.
  Variable mds : M -> dstate.
  Variable elect : ES -> list dstate -> dstate * ES.

  Lemma states_map (ms : list (member K X M)) :
    map mds (map (fun m : member K X M => mst m) ms) = states K X M mds ms.
  Proof. unfold states. rewrite map_map. reflexivity. Qed.

  Theorem StreamingEnsemble_update_eq : forall e x yt yp,
    StreamingEnsemble_update K X Y M ES mupd mds elect e x yt yp = ens_update K X Y M ES mupd mds elect e x yt yp.
  Proof.
    intros [ms es d t n] x yt yp. cbv [StreamingEnsemble_update Ensemble_update ens_update members est eds etotal esince].
    rewrite states_map. unfold member_update.
    destruct (elect es _) as [d' es']. reflexivity.
  Qed.

  Theorem BatchEnsemble_update_eq : forall e x yt yp,
    BatchEnsemble_update K X Y M ES mupd mds elect e x yt yp = ens_update K X Y M ES mupd mds elect e x yt yp.
  Proof.
    intros [ms es d t n] x yt yp. cbv [BatchEnsemble_update Ensemble_update ens_update members est eds etotal esince].
    rewrite states_map. unfold member_update.
    destruct (elect es _) as [d' es']. reflexivity.
  Qed.

  Theorem StreamingEnsemble_reset_eq : forall e,
    StreamingEnsemble_reset K X M ES mreset e = ens_reset K X M ES mreset e.
  Proof. intros [ms es d t n]. reflexivity. Qed.

  Theorem BatchEnsemble_reset_eq : forall e,
    BatchEnsemble_reset K X M ES mreset e = ens_reset K X M ES mreset e.
  Proof. intros [ms es d t n]. reflexivity. Qed.

  Theorem BatchEnsemble_set_reference_eq : forall e x yt yp,
    BatchEnsemble_set_reference K X Y M ES msetref e x yt yp = ens_set_reference K X Y M ES msetref e x yt yp.
  Proof. intros [ms es d t n] x yt yp. reflexivity. Qed.
End Eq.

Print Assumptions StreamingEnsemble_update_eq.
Print Assumptions BatchEnsemble_update_eq.
Print Assumptions StreamingEnsemble_reset_eq.
Print Assumptions BatchEnsemble_reset_eq.
Print Assumptions BatchEnsemble_set_reference_eq.
