"""C08 — the kdq-tree partitions space consistently and conserves counts."""
import math, contextlib
from decimal import Decimal, getcontext
from fractions import Fraction
import numpy as np
import scipy.stats
from menelaus.partitioners.KDQTreePartitioner import KDQTreePartitioner
from . import coqgen as G
from .common import rebound, feq

ID = "C08"
PROPS = ["Prop_C08"]
IMPORTS = "From MV Require Import Base Num NumFloat KdqTree Corr_C08.\nFrom Coq Require Import PrimFloat."
CORR_NAME = ("Corr_C08: KdqTree.v (build/fill/reset/leaf_counts/distn/flatten, NumFloat) = KDQTreePartitioner.py, "
             "whole public tree bit-for-bit after build and after every fill")
TRUSTED = ["Coq 8.16.1 kernel + vm_compute + primitive floats",
           "hand-written model coq/KdqTree.v tied to the code by bit-level differential execution (bounded by the generators)",
           "scipy.stats.entropy (log) is an oracle of the model: its arguments are recomputed by the model bit-for-bit, "
           "its values are validated against a 60-digit recomputation (|diff| <= 1e-12 + 1e-9*|value|)",
           "float -> int truncation int(clb*ptp) is modelled through FloatOps.Prim2SF (Corr_C08.ftrunc)",
           "harness/c08.py, harness/coqgen.py"]
RULE = ("point sets: continuous (several scales), integer grids, dyadic grids (points exactly on midpoints), duplicated rows, "
        "constant columns, adjacent doubles; 1-4 columns, 1-150 rows; count_ubound in {0,1,2,3,5,8,20}; cutpoint_proportion_lbound in "
        "{0,1e-9,.01,.1,.25,.5,.9,1,2}; then 2-7 fill/reset(0) operations under ids build/a/b/c with and without reset (same / shifted "
        "distribution, the build data itself, subsets, empty samples, points exactly on the tree's split values); observables: "
        "the whole tree, leaves order, leaf_counts per id, kl_distance (also asked after the build and after every operation: each answer is the divergence of the counts held at that moment), to_plotly_dataframe rows, _distn_from_counts. "
        "Non-trivial: the tree has at least one split and at least one fill was executed; distinct by case content. "
        "Adjacent-doubles families (columns made of 2-3 consecutive doubles, alone or as a tight cluster inside spread-out "
        "data, both rounding parities of the midpoint) aim at the clause `midpoint >= max` of the stop rule; the two former "
        "witnesses (RecursionError, missing child) are the first cases. Excluded: NaN/inf/-0.0 coordinates.")
SHARD = 25

IDNAME = ["build", "a", "b", "c"]
IDNUM = {k: i for i, k in enumerate(IDNAME)}
TOL_ABS, TOL_REL = 1e-12, 1e-9
getcontext().prec = 60


# ------------------------------------------------------------------ implementation side
def snap(node):
    """the public tree as plain data"""
    if node is None:
        return None
    c = {}
    for k, v in node.num_samples_in_compared_subtrees.items():
        c[str(IDNUM.get(k, k))] = int(v)
    if node.axis is None:
        return {"c": c}
    return {"ax": int(node.axis), "mid": float(node.midpoint_at_axis), "c": c,
            "l": snap(node.left), "r": snap(node.right)}


def preorder(node, out):
    if node is None:
        return out
    out.append(node)
    if node.axis is not None:
        preorder(node.left, out)
        preorder(node.right, out)
    return out


def tree_leaves(node, out):
    if node is None:
        return out
    if node.axis is None:
        out.append(node)
    else:
        tree_leaves(node.left, out)
        tree_leaves(node.right, out)
    return out


@contextlib.contextmanager
def record_entropy(log):
    """wrap scipy.stats.entropy (the log kernel) to record its arguments and results"""
    orig = scipy.stats.entropy
    def wrapped(pk, qk=None, *a, **kw):
        r = orig(pk, qk, *a, **kw)
        try:
            log.append(([float(x) for x in np.asarray(pk).ravel()],
                        [float(x) for x in np.asarray(qk).ravel()], float(r)))
        except Exception:
            log.append(None)
        return r
    with rebound(scipy.stats, "entropy", wrapped):
        yield


def arr(rows, m):
    return np.array(rows, dtype=float).reshape(len(rows), m)


def leafc(p):
    out = {}
    for i, name in enumerate(IDNAME):
        try:
            v = p.leaf_counts(name)
            out[str(i)] = None if v is None else [int(x) for x in v]
        except KeyError:
            out[str(i)] = "KeyError"
    return out


def run_impl(case):
    m = case["m"]
    p = KDQTreePartitioner(count_ubound=case["cub"], cutpoint_proportion_lbound=case["clb"])
    try:
        root = p.build(arr(case["data"], m))
    except RecursionError:
        return {"recursion": True}
    obs = {"tree0": snap(root), "leafc0": leafc(p)}
    obs["leaves_match"] = [id(x) for x in p.leaves] == [id(x) for x in tree_leaves(p.node, [])]
    def kl_now(pairs):
        # kl_distance is an observation: asking for it between operations must not change anything, and each answer
        # must be the divergence of the counts held at that moment (not of counts cached at an earlier call)
        out = []
        for a, b in pairs:
            rec = {"ids": [a, b]}
            try:
                v = p.kl_distance(IDNAME[a], IDNAME[b])
                rec["val"] = None if v is None else float(v)
            except KeyError:
                rec["err"] = "KeyError"
            out.append(rec)
        return out
    obs["kls0"] = kl_now([[0, 0]])
    steps = []
    for o in case["ops"]:
        if o["k"] == "fill":
            ret = p.fill(arr(o["data"], m), IDNAME[o["id"]], reset=o["reset"])
            ok = ret is p.node
        else:
            p.reset(value=o["value"], tree_id=IDNAME[o["id"]])
            ok = True
        steps.append({"tree": snap(p.node), "leafc": leafc(p), "ret_ok": ok})
        steps[-1]["kls"] = kl_now([[0, o["id"]], [o["id"], 0], [o["id"], o["id"]]])
    obs["steps"] = steps
    obs["leaves_match_end"] = [id(x) for x in p.leaves] == [id(x) for x in tree_leaves(p.node, [])]
    # kl_distance
    kls = []
    for a, b in case.get("kls", []):
        log = []
        rec = {"ids": [a, b]}
        try:
            with record_entropy(log):
                v = p.kl_distance(IDNAME[a], IDNAME[b])
            rec["val"] = None if v is None else float(v)
            rec["args"] = [log[0][0], log[0][1]] if len(log) == 1 and log[0] is not None else None
        except KeyError:
            rec["err"] = "KeyError"
        kls.append(rec)
    obs["kls"] = kls
    # to_plotly_dataframe
    nodes = preorder(p.node, [])
    pos = {id(n): i for i, n in enumerate(nodes)}
    plots = []
    present = {0} | {o["id"] for o in case["ops"]}
    for id1, id2, md in case.get("plots", []):
        if id1 not in present:
            continue  # (only after shrinking) the reference id must exist: the code raises KeyError otherwise
        log = []
        with record_entropy(log):
            df = p.to_plotly_dataframe(tree_id1=IDNAME[id1], tree_id2=None if id2 is None else IDNAME[id2], max_depth=md)
        rows = []
        for _, r in df.iterrows():
            pi = r["parent_idx"]
            pi = None if pi is None or (isinstance(pi, float) and math.isnan(pi)) else pos.get(int(pi), -1)
            row = {"name": str(r["name"]), "idx": pos.get(int(r["idx"]), -1), "parent": pi,
                   "count": int(r["cell_count"]), "depth": int(r["depth"])}
            if "count_diff" in df.columns:
                row["diff"] = int(r["count_diff"])
            if "kss" in df.columns:
                row["kss"] = float(r["kss"])
            if pi is not None and pi >= 0:
                row["pax"] = int(nodes[pi].axis)
                row["pmid"] = float(nodes[pi].midpoint_at_axis)
            rows.append(row)
        kargs = None
        if id2 is not None and len(log) == len(rows) and all(x is not None for x in log):
            kargs = [[x[0], x[1]] for x in log]
        plots.append({"q": [id1, id2, md], "rows": rows, "kargs": kargs, "columns": list(df.columns)})
    obs["plots"] = plots
    # _distn_from_counts (private, optional)
    f = getattr(KDQTreePartitioner, "_distn_from_counts", None)
    dists = []
    if f is not None:
        for cs in case.get("dists", []):
            try:
                dists.append([[int(c) for c in cs], [float(x) for x in f(list(cs))]])
            except Exception:
                pass
    obs["dists"] = dists
    return obs


# ------------------------------------------------------------------ direct property check (no model)
def D(fr):
    return Decimal(fr.numerator) / Decimal(fr.denominator)


def distn_exact(cs):
    den = Fraction(sum(cs)) + Fraction(len(cs), 2)
    return [(Fraction(c) + Fraction(1, 2)) / den for c in cs]


def kl_exact(c1, c2):
    p, q = distn_exact(c1), distn_exact(c2)
    assert sum(p) == 1 and sum(q) == 1
    return sum((D(a) * (D(a).ln() - D(b).ln()) for a, b in zip(p, q)), Decimal(0))


def close(v, exact):
    return abs(Decimal(v) - exact) <= Decimal(TOL_ABS) + Decimal(TOL_REL) * abs(exact)


def boxes(t, m):
    """(node, depth, box) for every node, pre-order; box[axis] = (lo exclusive, hi inclusive)"""
    out = []
    def go(n, depth, box):
        if n is None:
            return
        out.append((n, depth, box))
        if "ax" in n:
            ax, mid = n["ax"], n["mid"]
            if not (0 <= ax < m):
                return
            lo, hi = box[ax]
            lb = list(box); lb[ax] = (lo, min(hi, mid))
            rb = list(box); rb[ax] = (max(lo, mid), hi)
            go(n["l"], depth + 1, lb)
            go(n["r"], depth + 1, rb)
    go(t, 0, [(-math.inf, math.inf)] * m)
    return out


def inside(pt, box):
    return all(lo < x <= hi for x, (lo, hi) in zip(pt, box))


def check_sums(t, where):
    """each node's count for every id is the sum of its children's counts"""
    msgs = []
    def go(n):
        if n is None or "ax" not in n or msgs:
            return
        for k, v in n["c"].items():
            s = 0
            for ch in (n["l"], n["r"]):
                if ch is None:
                    continue
                if k not in ch["c"]:
                    msgs.append(f"{where}: a node has a count for id {k} but its child has none")
                    return
                s += ch["c"][k]
            if s != v:
                msgs.append(f"{where}: node count {v} for id {k} is not the sum {s} of its children's counts")
                return
        go(n["l"]); go(n["r"])
    go(t)
    return msgs


def skeleton(t):
    if t is None:
        return None
    if "ax" not in t:
        return "leaf"
    return (t["ax"], t["mid"].hex(), skeleton(t["l"]), skeleton(t["r"]))


def direct_check(case, obs):
    if "__exception__" in obs:
        return [f"partitioner raised {obs['__exception__']}: {obs['__message__']}"]
    if obs.get("recursion"):
        return ["build does not produce a tree: RecursionError (unbounded recursion on a finite data set)"]
    m, cub, data = case["m"], case["cub"], case["data"]
    t0 = obs["tree0"]
    if t0 is None:
        return ["build returned None for a non-empty data set"]
    # ---- build clauses
    bx = boxes(t0, m)
    leaf_boxes = [b for n, d, b in bx if "ax" not in n]
    for n, depth, box in bx:
        held = [pt for pt in data if inside(pt, box)]
        if n["c"].get("0") != len(held):
            return [f"build: node at depth {depth} reports {n['c'].get('0')} points, its cell holds {len(held)}"]
        if "ax" in n:
            if n["l"] is None or n["r"] is None:
                return [f"build: internal node at depth {depth} has a missing child: the leaves do not partition the space"]
            if n["ax"] != depth % m:
                return [f"build: node at depth {depth} splits axis {n['ax']}, expected {depth % m}"]
            if len(held) <= cub:
                return [f"build: a node holding {len(held)} <= count_ubound={cub} points was split"]
            col = [pt[n["ax"]] for pt in held]
            mn, mx = min(col), max(col)
            mid = mn + (mx - mn) / 2
            if not feq(mid, n["mid"]):
                return [f"build: split value {n['mid']!r} is not the midpoint {mid!r} of the range of the points held"]
    if not obs.get("leaves_match") or not obs.get("leaves_match_end"):
        return ["partitioner.leaves is not the left-to-right list of the tree's leaves"]
    for pt in data:
        k = sum(1 for b in leaf_boxes if inside(pt, b))
        if k != 1:
            return [f"build: point {pt} lies in {k} leaf cells"]
    msgs = check_sums(t0, "build")
    if msgs:
        return msgs
    ledger = {0: [sum(1 for pt in data if inside(pt, b)) for b in leaf_boxes]}
    def cmp_ledger(lc, where):
        for i in range(len(IDNAME)):
            got = lc[str(i)]
            if i in ledger:
                if got != ledger[i]:
                    return [f"{where}: leaf_counts({IDNAME[i]!r}) = {got}, cell membership of the points built/filled gives {ledger[i]}"]
            elif got != "KeyError":
                return [f"{where}: leaf_counts({IDNAME[i]!r}) = {got} for an id never filled"]
        return []
    msgs = cmp_ledger(obs["leafc0"], "build")
    if msgs:
        return msgs
    if sum(ledger[0]) != len(data):
        return [f"build: leaf counts add up to {sum(ledger[0])}, {len(data)} points were built"]
    # ---- fills
    sk0 = skeleton(t0)
    build_counts = [n["c"]["0"] for n, _, _ in bx]
    total = {0: len(data)}
    for j, (o, st) in enumerate(zip(case["ops"], obs["steps"])):
        where = f"op {j} ({o['k']} id={IDNAME[o['id']]})"
        if not st["ret_ok"]:
            return [f"{where}: fill did not return the root"]
        if skeleton(st["tree"]) != sk0:
            return [f"{where}: the tree structure changed"]
        i = o["id"]
        if o["k"] == "fill":
            for pt in o["data"]:
                k = sum(1 for b in leaf_boxes if inside(pt, b))
                if k != 1:
                    return [f"{where}: point {pt} lies in {k} leaf cells"]
            cnts = [sum(1 for pt in o["data"] if inside(pt, b)) for b in leaf_boxes]
            fresh = i not in ledger or o["reset"]
            o_fresh = fresh
            ledger[i] = cnts if fresh else [a + b for a, b in zip(ledger[i], cnts)]
            total[i] = len(o["data"]) if fresh else total[i] + len(o["data"])
        else:
            ledger[i] = [o["value"]] * len(leaf_boxes)
            total[i] = o["value"] * len(leaf_boxes)
        msgs = cmp_ledger(st["leafc"], where) or check_sums(st["tree"], where)
        if msgs:
            return msgs
        for k2, tot in total.items():
            root_c = st["tree"]["c"].get(str(k2))
            if sum(ledger[k2]) != tot or (root_c != tot and not (o["k"] == "reset" and k2 == i and o["value"] != 0)):
                return [f"{where}: counts for id {IDNAME[k2]} add up to {sum(ledger[k2])} (root {root_c}), {tot} points were built/filled"]
        if o["k"] == "fill" and o["data"] == data and o_fresh:
            now = [n["c"].get(str(i)) for n, _, _ in boxes(st["tree"], m)]
            if o["id"] != 0 and now != build_counts:
                return [f"{where}: filling the build data under another id gives {now}, build counts are {build_counts}"]
    tN = obs["steps"][-1]["tree"] if obs["steps"] else t0
    lcN = obs["steps"][-1]["leafc"] if obs["steps"] else obs["leafc0"]
    # ---- corrected distributions and kl_distance
    for cs, hist in obs["dists"]:
        ex = distn_exact(cs)
        for h, e in zip(hist, ex):
            if not abs(Fraction(h) - e) <= e * Fraction(4, 2 ** 53):
                return [f"_distn_from_counts({cs}) = {hist}: not (c + 0.5) / (total + n/2)"]
        if abs(sum(Fraction(h) for h in hist) - 1) > Fraction(len(cs) * 4, 2 ** 53):
            return [f"_distn_from_counts({cs}) does not sum to one"]
    def check_kls(recs, lc, when):
        for rec in recs:
            a, b = rec["ids"]
            ca, cb = lc[str(a)], lc[str(b)]
            if ca is None or cb is None:
                continue        # no leaves: kl_distance returns None
            if ca == "KeyError" or cb == "KeyError":
                if rec.get("err") != "KeyError":
                    return [f"{when}kl_distance({IDNAME[a]},{IDNAME[b]}) = {rec.get('val')} although an id was never filled"]
                continue
            if "err" in rec or rec["val"] is None:
                return [f"{when}kl_distance({IDNAME[a]},{IDNAME[b]}) unavailable: {rec}"]
            ex = kl_exact(ca, cb)
            v = rec["val"]
            if not v >= 0:
                return [f"{when}kl_distance({IDNAME[a]},{IDNAME[b]}) = {v!r} is negative (counts {ca} / {cb})"]
            if ca == cb and v != 0:
                return [f"{when}kl_distance of equal counts {ca} is {v!r}, not 0"]
            if not close(v, ex):
                return [f"{when}kl_distance({IDNAME[a]},{IDNAME[b]}) = {v!r}, corrected KL divergence of {ca} / {cb} is {ex:.20e}"]
        return None
    bad = check_kls(obs.get("kls0", []), obs["leafc0"], "after build: ")
    for j, st in enumerate(obs["steps"]):
        bad = bad or check_kls(st.get("kls", []), st["leafc"], f"after op {j}: ")
    bad = bad or check_kls(obs["kls"], lcN, "")
    if bad:
        return bad
    # ---- to_plotly_dataframe
    nodesN = boxes(tN, m)
    par = {}
    def walk(n, i, parent):
        if n is None:
            return i
        me = i; par[me] = parent; i += 1
        if "ax" in n:
            i = walk(n["l"], i, (me, "l")); i = walk(n["r"], i, (me, "r"))
        return i
    walk(tN, 0, None)
    for pl in obs["plots"]:
        id1, id2, md = pl["q"]
        where = f"to_plotly_dataframe({IDNAME[id1]},{None if id2 is None else IDNAME[id2]},max_depth={md})"
        want = [k for k, (n, d, _) in enumerate(nodesN) if not md or d <= md]
        got = [r["idx"] for r in pl["rows"]]
        if sorted(got) != want:
            return [f"{where}: rows list nodes {sorted(got)}, the tree has nodes {want} (each exactly once expected)"]
        refs = [r["count"] for r in pl["rows"]]
        tests = [r["count"] + r.get("diff", 0) for r in pl["rows"]]
        for r in pl["rows"]:
            n, d, _ = nodesN[r["idx"]]
            pinfo = par[r["idx"]]
            if r["depth"] != d:
                return [f"{where}: node {r['idx']} depth {r['depth']}, expected {d}"]
            if r["parent"] != (None if pinfo is None else pinfo[0]):
                return [f"{where}: node {r['idx']} parent {r['parent']}, expected {pinfo}"]
            if r["count"] != n["c"].get(str(id1)):
                return [f"{where}: node {r['idx']} cell_count {r['count']}, reference count is {n['c'].get(str(id1))}"]
            if id2 is not None:
                dd = n["c"].get(str(id2), 0) - n["c"][str(id1)]
                if r.get("diff") != dd:
                    return [f"{where}: node {r['idx']} count_diff {r.get('diff')}, expected {dd}"]
            if pinfo is None:
                nm = "kdqTree"
            else:
                pn = nodesN[pinfo[0]][0]
                nm = f"ax {pn['ax']} {'<=' if pinfo[1] == 'l' else '>'} {round(pn['mid'], 3)}"
            if r["name"] != nm:
                return [f"{where}: node {r['idx']} name {r['name']!r}, expected {nm!r}"]
            if id2 is not None:
                if "kss" not in r:
                    return [f"{where}: no kss column"]
                rm, tm = max(refs), max(tests)
                ex = kl_exact([r["count"], rm - r["count"]], [r["count"] + r["diff"], tm - r["count"] - r["diff"]])
                if not close(r["kss"], ex) or not r["kss"] >= 0:
                    return [f"{where}: node {r['idx']} kss {r['kss']!r}, two-cell corrected divergence is {ex:.20e}"]
    return []


# ------------------------------------------------------------------ model side
def t_counts(c):
    return G.lst([f"({G.z(int(k))}, {G.z(v)})" for k, v in sorted(c.items(), key=lambda kv: int(kv[0])) if str(k).lstrip('-').isdigit()])


def t_tree(t):
    if t is None:
        return "FNil"
    if "ax" not in t:
        return f"(FLeaf {t_counts(t['c'])})"
    return f"(FNode {G.z(t['ax'])} {G.flt(t['mid'])} {t_counts(t['c'])} {t_tree(t['l'])} {t_tree(t['r'])})"


def t_data(rows):
    return G.lst([G.fltlist(r) for r in rows])


def t_leafc(lc):
    items = []
    for i in range(len(IDNAME)):
        v = lc[str(i)]
        items.append(f"({i}, {'None' if v == 'KeyError' or v is None else '(Some ' + G.zlist(v) + ')'})")
    return G.lst(items)


def t_state(tree, lc):
    return f"({t_tree(tree)}, {t_leafc(lc)})"


def t_op(o):
    if o["k"] == "fill":
        return f"(FFill {t_data(o['data'])} {G.z(o['id'])} {G.boolc(o['reset'])})"
    return f"(FReset {G.z(o['value'])} {G.z(o['id'])})"


def t_nat(n):
    return f"{int(n)}%nat"


def t_optnat(n):
    return "None" if n is None else f"(Some {t_nat(n)})"


def t_pairs(kargs):
    return G.lst([f"({G.fltlist(a)}, {G.fltlist(b)})" for a, b in kargs])


def parse_name(r):
    """'ax 0 <= 1.5' -> (0, is_left); the split value itself is read off the parent node"""
    parts = r["name"].split(" ")
    if len(parts) != 4 or parts[0] != "ax" or parts[2] not in ("<=", ">") or "pmid" not in r:
        return None
    return int(parts[1]), parts[2] == "<="


def t_row(r):
    if r["parent"] is None:
        nm = "None"
    else:
        pn = parse_name(r)
        if pn is None:
            raise ValueError(f"unreadable row name {r['name']!r}")
        nm = f"(Some ({G.z(pn[0])}, {G.flt(r['pmid'])}, {G.boolc(pn[1])}))"
    dif = G.optz(r["diff"]) if "diff" in r else "None"
    return f"({t_nat(r['idx'])}, {t_optnat(r['parent'])}, {t_nat(r['depth'])}, {G.z(r['count'])}, {dif}, {nm})"


def fuel_of(case):
    return (len(case["data"]) + 1) * (case["m"] + 1)


def coq_term(case, obs):
    if "__exception__" in obs:
        return "false"
    head = f"{G.z(case['cub'])} {G.flt(case['clb'])} {G.z(case['m'])}"
    if obs.get("recursion"):
        return f"chk_diverges {head} {t_data(case['data'])}"
    steps = G.lst([f"({t_op(o)}, {t_state(st['tree'], st['leafc'])})" for o, st in zip(case["ops"], obs["steps"])])
    plots = []
    for pl in obs["plots"]:
        id1, id2, md = pl["q"]
        ka = "None" if pl["kargs"] is None else f"(Some {t_pairs(pl['kargs'])})"
        plots.append(f"(({G.z(id1)}, {G.optz(id2)}, {t_optnat(md)}), {G.lst([t_row(r) for r in pl['rows']])}, {ka})")
    kls = []
    for rec in obs["kls"]:
        a, b = rec["ids"]
        if "err" in rec or rec.get("val") is None:
            e = "None"
        elif rec.get("args") is None:
            e = "(Some None)"
        else:
            e = f"(Some (Some ({G.fltlist(rec['args'][0])}, {G.fltlist(rec['args'][1])})))"
        kls.append(f"({G.z(a)}, {G.z(b)}, {e})")
    dists = [f"({G.zlist(cs)}, {G.fltlist(h)})" for cs, h in obs["dists"]]
    return (f"chk_case {head} {G.z(fuel_of(case))} {t_data(case['data'])} {t_state(obs['tree0'], obs['leafc0'])} "
            f"{steps} {G.lst(plots)} {G.lst(kls)} {G.lst(dists)}")


def show_term(case, obs):
    if obs.get("recursion") or "__exception__" in obs:
        return f"fbuild {G.z(case['cub'])} {G.flt(case['clb'])} {G.z(case['m'])} {G.z(fuel_of(case))} {t_data(case['data'])}"
    steps = G.lst([f"({t_op(o)}, {t_state(st['tree'], st['leafc'])})" for o, st in zip(case["ops"], obs["steps"])])
    return (f"show_case {G.z(case['cub'])} {G.flt(case['clb'])} {G.z(case['m'])} {G.z(fuel_of(case))} "
            f"{t_data(case['data'])} {steps}")


def count_nodes(t):
    if t is None:
        return 0, 0, 0
    if "ax" not in t:
        return 1, 1, 0
    a, b = count_nodes(t["l"]), count_nodes(t["r"])
    return 1 + a[0] + b[0], a[1] + b[1], max(a[2], b[2]) + 1


def nontrivial(case, obs):
    if "tree0" not in obs or obs["tree0"] is None or "ax" not in obs["tree0"]:
        return False
    return any(o["k"] == "fill" for o in case["ops"])


# ------------------------------------------------------------------ generators
def clean(x):
    x = float(x)
    return 0.0 if x == 0.0 else x


def gen_points(rng, kind, n, m):
    if kind == "cont":
        scale = rng.choice([1.0, 0.1, 10.0, 100.0, 1000.0, 1e-3])
        x = rng.normal(size=(n, m)) * scale + rng.choice([0.0, 5.0, -3.0])
    elif kind == "unif":
        x = rng.uniform(0, rng.choice([1.0, 8.0, 50.0, 1000.0]), size=(n, m))
    elif kind == "int":
        x = rng.integers(0, rng.choice([3, 5, 9, 17, 40, 200]), size=(n, m)).astype(float)
    elif kind == "dyadic":
        x = rng.integers(-16, 17, size=(n, m)) / 8.0
    elif kind == "dup":
        pool = rng.normal(size=(max(1, n // rng.choice([2, 3, 5])), m)) * rng.choice([1.0, 20.0])
        x = pool[rng.integers(0, len(pool), size=n)]
    elif kind == "const":
        x = rng.integers(0, 6, size=(n, m)).astype(float)
        x[:, rng.integers(0, m)] = 2.0
    elif kind in ("adj", "adjmix"):
        # columns made of 2-3 consecutive doubles (the midpoint of two adjacent doubles rounds to the
        # even one: up to the maximum or down to the minimum depending on the parity of the base)
        if kind == "adj":
            x = np.empty((n, m))
        else:
            x = rng.normal(size=(n, m)) * rng.choice([1.0, 10.0])
        for a in range(m):
            if kind == "adjmix" and a > 0 and rng.random() < 0.5:
                continue
            base = float(rng.choice([0.3, 1.0, 0.1 * 7, 1e-3, 123.456, -2.5, 2.0 ** -1022, 1e300])) if rng.random() < 0.5 \
                else float(rng.normal() * rng.choice([1.0, 1e6, 1e-6]))
            for _ in range(int(rng.integers(0, 3))):
                base = math.nextafter(base, math.inf)
            vals = [base]
            for _ in range(int(rng.integers(1, 3))):
                vals.append(math.nextafter(vals[-1], math.inf))
            pick = np.array(vals)[rng.integers(0, len(vals), size=n)]
            if kind == "adj":
                x[:, a] = pick
            else:
                # a tight cluster of adjacent doubles inside spread-out data
                mask = rng.random(n) < 0.6
                x[mask, a] = pick[mask]
    else:  # clusters
        c = rng.normal(size=(3, m)) * 10
        x = c[rng.integers(0, 3, size=n)] + rng.normal(size=(n, m))
    return [[clean(v) for v in row] for row in x]


def tree_mids(case):
    """split values of the implementation's tree (for boundary fill points) and the number of leaves
    that only the clause `midpoint >= max` of the stop rule explains (coverage statistic)"""
    m, cub, clb = case["m"], case["cub"], case["clb"]
    try:
        p = KDQTreePartitioner(count_ubound=cub, cutpoint_proportion_lbound=clb)
        a = arr(case["data"], m)
        root = p.build(a)
    except Exception:
        return [], 0
    only4 = 0
    try:
        mins = [int(clb * np.ptp(a[:, k])) for k in range(m)]
        for n, depth, box in boxes(snap(root), m):
            if "ax" in n:
                continue
            held = np.array([pt for pt in case["data"] if inside(pt, box)], dtype=float).reshape(-1, m)
            col = held[:, depth % m]
            cell = (col.min() + (col.max() - col.min()) / 2) - col.min()
            if len(held) > cub and np.unique(held).size > cub and not cell <= mins[depth % m]:
                only4 += 1
    except Exception:
        pass
    return [(n.axis, float(n.midpoint_at_axis)) for n in preorder(root, []) if n.axis is not None], only4


def gen_cases(ctx):
    rng = ctx.np_rng(8)
    r = ctx.rng
    cases = []
    kinds = ["cont", "unif", "int", "dyadic", "dup", "const", "clusters", "adj", "adj", "adjmix", "adjmix"]
    st = ctx.stats
    for key in ("kind", "m", "cub", "clb", "nodes", "ops", "fill_kind", "leaves_explained_only_by_midpoint_ge_max"):
        st[key] = {}
    def bumpstat(key, v):
        st[key][str(v)] = st[key].get(str(v), 0) + 1
    ncases = ctx.scale(320, 5000)
    # small hand-made boundary cases first
    hand = [
        # the two former witnesses of the adjacent-doubles corner (RecursionError / missing child with lost points)
        {"cub": 1, "clb": 0.25, "m": 1, "data": [[0.3], [0.30000000000000004]],
         "ops": [{"k": "fill", "data": [[0.3], [0.30000000000000004], [0.8], [0.2]], "id": 1, "reset": False}]},
        {"cub": 1, "clb": 0.25, "m": 2, "data": [[0.3, 1.0], [0.30000000000000004, 2.0], [0.3, 3.0]],
         "ops": [{"k": "fill", "data": [[0.8, 1.0], [0.9, 2.5], [0.2, 1.0]], "id": 1, "reset": False}]},
        {"cub": 1, "clb": 0.0, "m": 1, "data": [[0.0], [2.0], [4.0]]},               # a point exactly on the midpoint
        {"cub": 1, "clb": 0.25, "m": 1, "data": [[0.0], [8.0], [4.0], [2.0], [6.0]]},   # cell size == min size boundary
        {"cub": 2, "clb": 0.5, "m": 2, "data": [[0.0, 0.0], [4.0, 4.0], [2.0, 2.0], [2.0, 4.0], [0.0, 4.0]]},
        {"cub": 1, "clb": 0.0, "m": 2, "data": [[1.0, 1.0], [1.0, 1.0], [1.0, 2.0]]},  # unique <= cub ... duplicates
        {"cub": 5, "clb": 0.25, "m": 3, "data": [[1.0, 2.0, 3.0]]},                    # single point
    ]
    # a large test batch (more rows than any internal block size an implementation might use): overwrite-fill
    # after an earlier fill under the same id, and a fill under a fresh id
    big_build = gen_points(rng, "cont", 60, 2)
    big_small = gen_points(rng, "cont", 150, 2)
    big_large = gen_points(rng, "cont", 4500 if not ctx.thorough else 9000, 2)
    hand.append({"cub": 5, "clb": 0.01, "m": 2, "data": big_build,
                 "ops": [{"k": "fill", "data": big_small, "id": 1, "reset": False},
                         {"k": "fill", "data": big_large, "id": 1, "reset": True},
                         {"k": "fill", "data": big_large, "id": 2, "reset": False}]})
    for h in hand:
        h = dict(h, kind="hand")
        cases.append(h)
    while len(cases) < ncases:
        kind = r.choice(kinds)
        m = r.choice([1, 1, 2, 2, 3, 4])
        n = r.choice([1, 2, 3, 5, 8, 13, 21, 34, 55, 55]) if r.random() < 0.8 else r.randint(56, ctx.scale(110, 150))
        cub = r.choice([0, 1, 1, 2, 2, 3, 5]) if n < 34 or r.random() < 0.5 else r.choice([5, 8, 20])
        clb = r.choice([0.0, 1e-9, 0.01, 0.01]) if r.random() < 0.55 else r.choice([0.1, 0.25, 0.25, 0.5, 0.9, 1.0, 2.0])
        if kind in ("adj", "adjmix"):
            cub = r.choice([0, 1, 1, 2, 3])
            clb = r.choice([0.0, 1e-9, 0.01, 0.25]) if kind == "adj" else r.choice([0.0, 1e-9, 0.01])
        data = gen_points(rng, kind, n, m)
        cases.append({"cub": cub, "clb": clb, "m": m, "data": data, "kind": kind})
    for c in cases:
        m, data = c["m"], c["data"]
        mids, only4 = tree_mids(c)
        bumpstat("nodes", min(len(mids), 50) // 5 * 5)
        bumpstat("leaves_explained_only_by_midpoint_ge_max", min(only4, 3))
        ops = list(c.get("ops", []))
        used = {0} | {o["id"] for o in ops}
        for _ in range(r.randint(2, 6)):
            if r.random() < 0.1:
                i = r.choice([1, 2, 3])
                ops.append({"k": "reset", "value": 0, "id": i}); used.add(i)
                continue
            fk = r.choice(["same", "shift", "build", "subset", "empty", "mids", "other"])
            kind = c["kind"] if c["kind"] != "hand" else "int"
            if kind in ("adj", "adjmix") and r.random() < 0.5:
                kind = "cont"
            if fk == "same":
                pts = gen_points(rng, kind, r.choice([1, 4, 10, 30]), m)
            elif fk == "shift":
                pts = [[clean(v + r.choice([0.5, -1.0, 3.0])) for v in row] for row in gen_points(rng, kind, r.choice([3, 12, 25]), m)]
            elif fk == "build":
                pts = [list(row) for row in data]
            elif fk == "subset":
                pts = [list(row) for row in data if r.random() < 0.5]
            elif fk == "empty":
                pts = []
            elif fk == "mids" and mids:
                pts = []
                for _ in range(r.randint(1, 8)):
                    row = list(r.choice(data))
                    ax, mid = r.choice(mids)
                    row[ax] = clean(r.choice([mid, mid, math.nextafter(mid, math.inf), math.nextafter(mid, -math.inf)]))
                    pts.append(row)
            else:
                pts = gen_points(rng, r.choice(kinds), r.choice([2, 9, 20]), m)
            i = r.choice([1, 1, 2, 2, 3, 0])
            o = {"k": "fill", "data": pts, "id": i, "reset": r.random() < 0.35}
            used.add(i)
            ops.append(o)
            bumpstat("fill_kind", fk)
        if r.random() < 0.5:
            # the clause "filling the build data under another id reproduces the build counts"
            i = r.choice([1, 2, 3])
            ops.insert(r.randint(0, len(ops)), None)
            k = ops.index(None)
            fresh = not any(o["id"] == i for o in ops[:k] if o is not None)
            ops[k] = {"k": "fill", "data": [list(row) for row in data], "id": i, "reset": not fresh or r.random() < 0.3}
        c["ops"] = ops
        present = sorted({0} | {o["id"] for o in ops})
        ids = list(range(len(IDNAME)))
        c["kls"] = [[r.choice(present), r.choice(present)] for _ in range(2)] + [[r.choice(present), r.choice(present)], [r.choice(ids), r.choice(ids)]]
        c["kls"].append([present[-1], present[-1]])
        c["plots"] = [[r.choice(present), r.choice([None] + present + present), r.choice([None, None, 0, 1, 2, 3])],
                      [0, r.choice(ids[1:]), None]]
        c["dists"] = [[r.randint(0, 50) for _ in range(r.randint(1, 9))] for _ in range(2)] + [[0], [0, 0, 7]]
        bumpstat("kind", c["kind"]); bumpstat("m", m); bumpstat("cub", c["cub"]); bumpstat("clb", c["clb"]); bumpstat("ops", len(ops))
    return cases


def shrink_candidates(case):
    ops, data = case["ops"], case["data"]
    for k in range(len(ops)):
        yield dict(case, ops=ops[:k] + ops[k + 1:])
    if case.get("plots"):
        yield dict(case, plots=[])
    if case.get("kls"):
        yield dict(case, kls=[])
    if case.get("dists"):
        yield dict(case, dists=[])
    if len(data) > 1:
        h = len(data) // 2
        yield dict(case, data=data[:h])
        yield dict(case, data=data[h:])
        for i in range(min(len(data), 40)):
            yield dict(case, data=data[:i] + data[i + 1:])
    for k, o in enumerate(ops):
        if o["k"] == "fill" and len(o["data"]) > 0:
            d = o["data"]
            for cut in (d[:len(d) // 2], d[len(d) // 2 + 1:] if len(d) > 1 else []):
                yield dict(case, ops=ops[:k] + [dict(o, data=cut)] + ops[k + 1:])


def extra(ctx):
    return {}
