"""C15 — detectors and injectors never modify or keep live references to caller data.

Four kinds of cases (case["t"]):
  fact   numpy / pandas memory facts the model Heap.v is built on (X.values, np.array, pd.DataFrame(ndarray),
         np.copy), measured with np.shares_memory per container kind -- no menelaus involved;
  alias  one storing site of one detector reached with the caller's object in one container kind:
         np.shares_memory(caller object, stored attribute), plus a scan of the whole detector object graph;
  twin   a history run twice under the same numpy seed schedule: (a) the caller hands over its objects and
         overwrites them in place right after every call (or reuses ONE buffer for every call), (b) the caller
         hands over private deep copies and never touches them; traces (drift_state, counters, public outputs,
         digests of the stored data -- read right after the call and once more after the overwrite) must be
         identical; every argument is byte-compared before / after each call in both runs;
  inj    one injector call (cases of harness/c20.py and a few more containers), or a sequence of calls on one reused
         injector instance: input and dict bit-for-bit unchanged, result a new object of the container type of
         ITS input that shares no memory with the input.
The Coq side (Heap.v) predicts Copy / View per site and container, and promises equal traces where it predicts
copies only."""
import copy, hashlib, json, math, types, warnings
import numpy as np
import pandas as pd
from . import coqgen as G
from . import c20
from .common import lifecycle_obs, recs_of
from .detectors import SPECS, gen_case, seed_of, ThresholdSVM, batches as gen_batches, row_stream, level_stream

warnings.filterwarnings("ignore")
np.seterr(all="ignore")

from menelaus.change_detection import ADWIN, CUSUM, PageHinkley
from menelaus.concept_drift import MD3
from menelaus.data_drift import KdqTreeStreaming, KdqTreeBatch, HDDDM, CDBD, NNDVI, PCACD
from menelaus.ensemble import StreamingEnsemble, BatchEnsemble, SimpleMajorityElection

ID = "C15"
PROPS = ["Prop_C15"]
IMPORTS = "From MV Require Import Base Heap."
LEVEL = "proof"
SHARD = 400
CORR_NAME = ("Corr_C15: Heap.v's Copy/View verdict per storing site and container kind (chk_site, chk_fact), its promise of "
             "equal traces where only copies are stored (chk_twin) and its injector frame (chk_inject) = what "
             "np.shares_memory, the overwrite experiment and the byte comparison measure on the implementation")
TRUSTED = ["Coq 8.16.1 kernel + vm_compute",
           "hand-written aliasing model coq/Heap.v; numpy / pandas memory semantics are NOT derivable in Coq: they enter as the "
           "record `current` and are measured on every run (np.shares_memory at every storing site x container kind) -- claim PARTIAL",
           "np.shares_memory / np.may_share_memory as the ground truth for 'shares memory'; the object-graph scan of a detector "
           "(attributes, lists, dicts, nested objects to depth 5) as the ground truth for 'keeps no reference'",
           "the twin experiment under the numpy seed schedule of harness/detectors.py (np.random.seed(seed_of(case, step)) before every call)",
           "harness/c15.py, harness/detectors.py, harness/c20.py (injector cases)"]
RULE = ("fact: every library fact x every container kind it applies to. alias: every named storing site (NNDVI.reference_batch at "
        "set_reference and at a drift, HDDDM/CDBD.reference at set_reference / drift / concat, KdqTree _ref_data / ref_data, PCACD "
        "windows, CUSUM._stream, PageHinkley._change_scores, MD3 features / target / oracle_data first and next, ensemble members) x {C, Fortran, strided view, "
        "read-only, list, Series, one-block / mixed-dtype / split-block DataFrame} as far as the method accepts the container. twin: "
        "all 15 detectors and both ensembles x containers x overwrite modes {fill 99, reverse rows, one column, rename columns, "
        "reused buffer} with set_reference at a random position for batch detectors; histories are piecewise stationary with "
        "shifts so that drifts (adopted batches) occur. inj: a stratified sample of C20's cases (all injectors x layouts) + read-only "
        "arrays, mixed-dtype frames, refused containers, and C20's call sequences on ONE reused injector instance (DataFrame / ndarray inputs "
        "alternating). Non-trivial: alias -- the site was reached; twin -- at least one overwrite "
        "changed the bytes of a handed-over object (drift counts are in the stats); inj -- the result differs from the input.")

KIND = {"C": "KArrC", "F": "KArrF", "strided": "KArrStrided", "readonly": "KArrReadonly", "list": "KList",
        "series": "KSeries", "scalar": "KScalar", "df_one": "KDFOne", "df_mixed": "KDFMixed", "df_split": "KDFSplit"}
DNAME = {"NNDVI": "DNndvi", "HDDDM": "DHdm", "CDBD": "DHdm", "KdqTreeStreaming": "DKdqStream", "KdqTreeBatch": "DKdqBatch",
         "PCACD": "DPcacd", "CUSUM": "DCusum", "PageHinkley": "DPh", "MD3": "DMd3"}
NAMES = ["c0", "c1", "c2", "c3", "c4"]


# =============================================================================== caller objects
def prep_rows(kind, rows):
    """the data a container of this kind can carry exactly: a mixed-dtype frame has an integer last column"""
    if kind == "df_mixed":
        return [list(r[:-1]) + [float(round(r[-1]))] for r in rows]
    return [list(map(float, r)) for r in rows]


def kind_ok(kind, d, one_d=False):
    if kind in ("df_mixed", "df_split"):
        return d >= 2
    if kind == "series":
        return one_d
    return True


def build(kind, rows, names=None, one_d=False, dtype=float):
    """(object handed to the library, arrays owning its memory).  rows: n x d floats; one_d: hand over a flat
    sequence (one observation of a stream / one column of a batch) where the container allows it"""
    rows = prep_rows(kind, rows)
    a = np.array(rows, dtype=float).astype(dtype)
    n, d = a.shape
    names = list(names or NAMES[:d])
    if kind == "C":
        x = np.ascontiguousarray(a); return x, [x]
    if kind == "F":
        x = np.asfortranarray(a); return x, [x]
    if kind == "strided":
        base = np.full((2 * n + 3, 3 * d + 2), 77.0).astype(dtype)
        v = base[1:1 + 2 * n:2, 1:1 + 3 * d:3]
        v[...] = a
        return v, [v, base]
    if kind == "readonly":
        x = np.ascontiguousarray(a); x.setflags(write=False); return x, [x]
    if kind == "list":
        flat = one_d and (n == 1 or d == 1)
        x = a.reshape(-1).tolist() if flat else a.tolist()
        return x, []
    if kind == "series":
        x = pd.Series(a.reshape(-1).copy()); return x, [x]
    if kind == "df_one":
        x = pd.DataFrame(np.ascontiguousarray(a), columns=names); return x, [x]
    if kind == "df_mixed":
        x = pd.DataFrame({names[j]: (a[:, j].astype(np.int64) if j == d - 1 else a[:, j].copy()) for j in range(d)})
        return x, [x]
    if kind == "df_split":
        x = pd.DataFrame({names[0]: a[:, 0].copy()})
        for j in range(1, d):
            x[names[j]] = a[:, j].copy()
        return x, [x]
    raise ValueError(kind)


def mem(x, depth=0):
    """the ndarrays that make up an object"""
    if isinstance(x, np.ndarray):
        return [x] if x.dtype != object else []
    if isinstance(x, pd.DataFrame):
        return [x.iloc[:, j].to_numpy() for j in range(x.shape[1])]
    if isinstance(x, pd.Series):
        return [x.to_numpy()]
    if isinstance(x, (list, tuple)) and depth < 3:
        out = []
        for e in x[:5] + x[-60:] if isinstance(x, list) else x:
            out += mem(e, depth + 1)
        return out
    return []


def shares(roots, y):
    ys = [q for q in mem(y) if isinstance(q, np.ndarray) and q.size]
    for r in roots:
        for p in mem(r):
            if not p.size:
                continue
            for q in ys:
                if np.may_share_memory(p, q) and np.shares_memory(p, q):
                    return True
    return False


SKIP_TYPES = (types.ModuleType, types.FunctionType, types.BuiltinFunctionType, types.MethodType, type, str, bytes, int, float,
              complex, bool, type(None), pd.Index)


def scan(det, roots, max_depth=5):
    """paths inside the detector's object graph whose arrays share memory with the caller's object, or that ARE it"""
    hits, seen = [], set()
    root_ids = {id(r) for r in roots}
    targets = [p for r in roots for p in mem(r) if p.size]

    def visit(x, path, depth):
        if isinstance(x, SKIP_TYPES) or id(x) in seen or depth > max_depth:
            return
        seen.add(id(x))
        if id(x) in root_ids:
            hits.append(path + " (the caller's object itself)")
            return
        if isinstance(x, (np.ndarray, pd.DataFrame, pd.Series)):
            for q in mem(x):
                if q.size and any(np.may_share_memory(p, q) and np.shares_memory(p, q) for p in targets):
                    hits.append(path); break
            return
        if isinstance(x, dict):
            for k, v in list(x.items())[:200]:
                visit(v, f"{path}[{k!r}]", depth + 1)
        elif isinstance(x, (list, tuple, set, frozenset)):
            xs = list(x)
            idx = list(range(len(xs))) if len(xs) <= 80 else list(range(5)) + list(range(len(xs) - 60, len(xs)))
            for i in idx:
                visit(xs[i], f"{path}[{i}]", depth + 1)
        elif hasattr(x, "__dict__"):
            for k, v in list(vars(x).items()):
                visit(v, f"{path}.{k}", depth + 1)

    visit(det, "det", 0)
    return hits


def snap(obj, roots=()):
    """everything a caller can see of an object it passed: bytes, shape, layout, labels, dtypes"""
    if isinstance(obj, pd.DataFrame):
        return ("df", obj.to_numpy().tobytes(), [str(c) for c in obj.columns], [str(i) for i in obj.index],
                [str(t) for t in obj.dtypes], obj.shape, [b.tobytes() for b in mem(obj)])
    if isinstance(obj, pd.Series):
        return ("series", obj.to_numpy().tobytes(), [str(i) for i in obj.index], str(obj.dtype), obj.name)
    if isinstance(obj, np.ndarray):
        return ("arr", obj.tobytes(), obj.shape, obj.strides, str(obj.dtype), obj.flags.writeable, obj.flags.c_contiguous,
                obj.flags.f_contiguous, [r.tobytes() for r in roots if isinstance(r, np.ndarray) and r is not obj])
    if isinstance(obj, dict):
        return ("dict", [(repr(k), repr(v), type(v).__name__) for k, v in obj.items()])
    return ("py", repr(obj), type(obj).__name__)


def overwrite(obj, mode, new_rows=None):
    """in-place change of a caller object; returns True when its bytes changed"""
    before = snap(obj)
    if isinstance(obj, np.ndarray):
        ro = not obj.flags.writeable
        if ro:
            obj.setflags(write=True)
        if mode == "reuse":
            obj[...] = np.array(new_rows, dtype=float).reshape(obj.shape)
        elif mode == "reverse":
            obj[...] = obj[::-1].copy() if (obj.ndim == 2 and obj.shape[0] > 1) else -obj.copy() - 1.0
        elif mode == "col" and obj.ndim == 2:
            obj[:, 0] = 77.0
        else:
            obj[...] = 99.0
        if ro:
            obj.setflags(write=False)
    elif isinstance(obj, pd.DataFrame):
        if mode == "reuse":
            obj.iloc[:, :] = np.array(new_rows, dtype=float).reshape(obj.shape)
        elif mode == "reverse":
            obj.iloc[:, :] = obj.to_numpy()[::-1].copy() if len(obj) > 1 else -obj.to_numpy().copy() - 1
        elif mode == "col":
            obj.loc[:, obj.columns[0]] = 77.0
        elif mode == "rename":
            obj.iloc[:, :] = 99
            obj.columns = [f"renamed{j}" for j in range(obj.shape[1])]
        else:
            obj.iloc[:, :] = 99
    elif isinstance(obj, pd.Series):
        if mode == "reuse":
            obj.iloc[:] = np.array(new_rows, dtype=float).reshape(-1)
        else:
            obj.iloc[:] = 99.0
    elif isinstance(obj, list):
        flat0 = [e for r in obj for e in (r if isinstance(r, list) else [r])]
        cast = int if flat0 and all(isinstance(e, int) for e in flat0) else float
        new = np.array(new_rows, dtype=float).astype(cast).tolist() if mode == "reuse" else None
        if obj and isinstance(obj[0], list):
            if mode == "reuse":
                for i in range(len(obj)):
                    obj[i][:] = new[i]
            elif mode == "reverse" and len(obj) > 1:
                obj.reverse()
            else:
                for r in obj:
                    r[:] = [cast(99)] * len(r)
        else:
            obj[:] = (np.array(new_rows, dtype=float).astype(cast).reshape(-1).tolist() if mode == "reuse" else [cast(99)] * len(obj))
    return snap(obj) != before


# =============================================================================== observations
def digest(x):
    h = hashlib.sha1()

    def feed(v, depth=0):
        if v is None:
            h.update(b"N")
        elif isinstance(v, pd.DataFrame):
            h.update(b"D" + repr(v.shape).encode() + np.ascontiguousarray(v.to_numpy(dtype=float, na_value=np.nan)).tobytes())
        elif isinstance(v, pd.Series):
            h.update(b"S" + np.ascontiguousarray(v.to_numpy(dtype=float)).tobytes())
        elif isinstance(v, np.ndarray):
            h.update(b"A" + repr(v.shape).encode() + np.ascontiguousarray(v).tobytes())
        elif isinstance(v, (list, tuple)) and depth < 3:
            h.update(b"L%d" % len(v))
            for e in v:
                feed(e, depth + 1)
        else:
            h.update(repr(v).encode())
    feed(x)
    return h.hexdigest()[:16]


STORED = {"NNDVI": ["reference_batch"], "HDDDM": ["reference", "_reference_density"], "CDBD": ["reference", "_reference_density"],
          "KdqTreeStreaming": ["_ref_data"], "KdqTreeBatch": ["_ref_data", "ref_data"],
          "PCACD": ["_reference_window", "_test_window", "_change_score"], "CUSUM": ["_stream", "target", "sd_hat"],
          "PageHinkley": ["_change_scores", "_mean", "_sum", "_min", "_max"], "ADWIN": [], "MD3": ["reference_batch_features", "reference_batch_target", "oracle_data"]}


def stored_digest(name, det):
    return {a: digest(getattr(det, a, None)) for a in STORED.get(name, [])}


def observe(name, det):
    o = SPECS[name].observe(det)
    o["stored"] = stored_digest(name, det)
    return json.loads(json.dumps(o, default=lambda v: float(v) if isinstance(v, (np.floating, np.integer)) else repr(v)))


# =============================================================================== detectors and histories
def make_params(rng, name):
    """parameters and data sized for this experiment (short histories, several drifts)"""
    sub = types.SimpleNamespace(rng=rng, seed=rng.randint(0, 99999))
    if name == "KdqTreeStreaming":
        w = rng.choice([8, 12])
        d = rng.choice([1, 2, 3])
        return {"params": {"window_size": w, "persistence": rng.choice([0.05, 0.2]), "alpha": 0.2, "bootstrap_samples": 10,
                           "count_ubound": 2}, "data": row_stream(rng, rng.randint(5 * w, 8 * w), d, 2 * w)}
    if name == "PCACD":
        w = rng.choice([12, 20])
        return {"params": {"window_size": w, "ev_threshold": 0.99, "delta": 0.1, "divergence_metric": rng.choice(["kl", "intersection"]),
                           "sample_period": 0.1, "online_scaling": rng.random() < 0.6},
                "data": row_stream(rng, rng.randint(5 * w, 7 * w), rng.choice([2, 3]), 2 * w)}
    c = SPECS[name].gen(sub)
    if SPECS[name].kind == "stream" and name != "MD3":
        c["data"] = c["data"][:rng.randint(60, 120)]
    if name == "MD3":
        c["data"] = c["data"][:rng.randint(80, 160)]
        c["params"]["sensitivity"] = rng.choice([0.25, 0.5])
    return c


def det_kind(name):
    if name == "MD3":
        return "md3"
    s = SPECS[name]
    return "batch" if s.kind == "batch" else ("y" if s.inputs == "y" else "x")


def containers_for(name, d):
    k = det_kind(name)
    if k == "md3":
        return ["df_one", "df_mixed", "df_split"]
    if k == "y":
        return ["C", "readonly", "list", "series", "df_one"]
    base = ["C", "F", "strided", "readonly", "list", "df_one"]
    if d >= 2:
        base += ["df_mixed", "df_split"]
    if k == "x" or d == 1:
        base.append("series")
    return base


class Driver:
    """drives one detector over a history in a container kind; mode None = private copies, never touched"""

    def __init__(self, case, mode):
        self.case, self.mode, self.name = case, mode, case["det"]
        self.kind = case["container"]
        self.rows, self.arg_changed, self.alias, self.n_over, self.raised = [], [], [], 0, []
        self.buf = None          # the reused buffer
        self.spec = SPECS[self.name] if self.name in SPECS else None
        self.step = 0

    # -- one library call on freshly built / reused objects -------------------------------------
    def obj_for(self, rows, one_d=False, slot=0, dtype=float):
        if self.mode == "reuse":
            if self.buf is None:
                self.buf = {}
            if slot not in self.buf:
                self.buf[slot] = build(self.kind, rows, one_d=one_d, dtype=dtype)
            else:
                overwrite(self.buf[slot][0], "reuse", prep_rows(self.kind, rows))
            return self.buf[slot]
        return build(self.kind, rows, one_d=one_d, dtype=dtype)

    def do(self, det, fn, objs, label):
        """objs: list of (object, roots); fn(*objects) performs the call"""
        before = [snap(o, r) for o, r in objs]
        np.random.seed(seed_of(self.case, self.step))
        self.step += 1
        try:
            fn(*[o for o, _ in objs])
            err = None
        except Exception as e:
            err = f"{type(e).__name__}: {str(e)[:120]}"
            self.raised.append([label, err])
        for i, (o, r) in enumerate(objs):
            if snap(o, r) != before[i]:
                self.arg_changed.append([label, i])
        first = self.observe(det)
        if self.mode is not None:
            for o, r in objs:
                hits = scan(det, [o] + list(r))
                if hits:
                    self.alias.append([label, hits[:4]])
            if self.mode != "reuse":
                for o, r in objs:
                    if overwrite(o, self.mode):
                        self.n_over += 1
            else:
                self.n_over += 1
        late = self.observe(det)          # the same outputs, read once more after the caller's overwrite
        self.rows.append({"call": label, "err": err, "obs": first, "late": late})

    def observe(self, det):
        return observe(self.name, det)


def run_detector(case, mode):
    name = case["det"]
    drv = Driver(case, mode)
    kind = det_kind(name)
    if kind == "md3":
        return run_md3(case, drv)
    spec = SPECS[name]
    det = spec.make(case["params"])
    data = case["data"]
    if case["mode"] == "reuse" and kind == "batch":
        n = min(len(b) for b in data)
        data = [b[:n] for b in data]
    if kind == "batch":
        sr = case.get("set_reference_at")
        drv.do(det, lambda X: det.set_reference(X), [drv.obj_for(data[0], one_d=True)], "set_reference")
        for i, b in enumerate(data[1:]):
            if sr is not None and i == sr:
                drv.do(det, lambda X: det.set_reference(X), [drv.obj_for(b, one_d=True)], f"set_reference@{i}")
            else:
                drv.do(det, lambda X: det.update(X), [drv.obj_for(b, one_d=True)], f"update{i}")
    elif kind == "x":
        for i, item in enumerate(data):
            row = [item] if not isinstance(item, list) else item
            drv.do(det, lambda X: det.update(X), [drv.obj_for([row], one_d=True)], f"update{i}")
    else:
        for i, (yt, yp) in enumerate(data):
            drv.do(det, lambda a, b: det.update(a, b), [drv.obj_for([[yt]], one_d=True, slot=0, dtype=np.int64), drv.obj_for([[yp]], one_d=True, slot=1, dtype=np.int64)],
                   f"update{i}")
    return drv


def md3_frame(kind, rows, cols, mode_drv, slot):
    """MD3 takes DataFrames only; the label column is the last one"""
    if mode_drv.mode == "reuse":
        if mode_drv.buf is None:
            mode_drv.buf = {}
        key = (slot, len(cols))
        if key in mode_drv.buf:
            overwrite(mode_drv.buf[key][0], "reuse", prep_rows(kind, rows))
            return mode_drv.buf[key]
        mode_drv.buf[key] = build(kind, rows, names=cols)
        return mode_drv.buf[key]
    return build(kind, rows, names=cols)


def run_md3(case, drv):
    p = case["params"]
    det = MD3(clf=ThresholdSVM(), sensitivity=p["sensitivity"], k=p["k"], oracle_data_length_required=p["oracle_len"])
    cols = ["a", "b", "y"]
    kind = case["container"]
    drv.observe = lambda d: md3_observe(d)
    drv.do(det, lambda X: det.set_reference(X, target_name="y"), [md3_frame(kind, case["ref"], cols, drv, "ref")], "set_reference")
    for i, r in enumerate(case["data"]):
        if det.waiting_for_oracle:
            drv.do(det, lambda X: det.give_oracle_label(X), [md3_frame(kind, [r], cols, drv, "lab")], f"label{i}")
        else:
            k2 = "df_one" if kind == "df_mixed" else kind        # the features are both floats
            drv.do(det, lambda X: det.update(X), [md3_frame(k2, [r[:2]], cols[:2], drv, "upd")], f"update{i}")
    return drv


def md3_observe(det):
    ds, tot, sin = lifecycle_obs(det)
    rd = getattr(det, "reference_distribution", None) or {}
    o = {"ds": ds, "total": tot, "since": sin, "waiting": bool(det.waiting_for_oracle),
         "ref_stats": {k: float(v) for k, v in rd.items()}, "md": float(getattr(det, "curr_margin_density", float("nan"))),
         "stored": stored_digest("MD3", det)}
    return json.loads(json.dumps(o))


# ---- ensembles ---------------------------------------------------------------------------------
def col_selector(k):
    def sel(X, k=k):
        if isinstance(X, pd.DataFrame):
            return X.iloc[:, :k]
        if isinstance(X, np.ndarray):
            return X[:, :k]               # a view of the caller's array
        return [r[:k] for r in X]
    return sel


def make_ensemble(case):
    e = case["ensemble"]
    if e == "batch":
        members = {"kdq": KdqTreeBatch(alpha=0.2, bootstrap_samples=10, count_ubound=5),
                   "hdddm": HDDDM(detect_batch=1, statistic="stdev", significance=0.5, subsets=3),
                   "nndvi": NNDVI(k_nn=3, sampling_times=15, alpha=0.2)}
        sel = {"hdddm": col_selector(1)} if case.get("selectors") else {}
        return BatchEnsemble(members, SimpleMajorityElection(), sel) if sel else BatchEnsemble(members, SimpleMajorityElection())
    members = {"kdq": KdqTreeStreaming(window_size=8, persistence=0.1, alpha=0.2, bootstrap_samples=10, count_ubound=2),
               "pca": PCACD(window_size=12, divergence_metric="intersection", sample_period=0.1)}
    sel = {"kdq": col_selector(1)} if case.get("selectors") else {}
    return StreamingEnsemble(members, SimpleMajorityElection(), sel) if sel else StreamingEnsemble(members, SimpleMajorityElection())


ENS_MEMBERS = {"batch": ["KdqTreeBatch", "HDDDM", "NNDVI"], "stream": ["KdqTreeStreaming", "PCACD"]}


def ens_observe(case, ens):
    names = ENS_MEMBERS[case["ensemble"]]
    o = {"ds": ens.drift_state if hasattr(ens, "drift_state") else None,
         "states": [[k, v] for k, v in ens.drift_states.items()], "members": {}}
    ds, tot, sin = lifecycle_obs(ens)
    o["total"], o["since"] = tot, sin
    for (key, det), n in zip(ens.detectors.items(), names):
        o["members"][key] = observe(n, det)
    return json.loads(json.dumps(o))


def run_ensemble(case, mode):
    drv = Driver(dict(case, det="ensemble"), mode)
    ens = make_ensemble(case)
    drv.observe = lambda d: ens_observe(case, d)
    data = case["data"]
    if case["ensemble"] == "batch":
        if case["mode"] == "reuse":
            n = min(len(b) for b in data)
            data = [b[:n] for b in data]
        drv.do(ens, lambda X: ens.set_reference(X), [drv.obj_for(data[0])], "set_reference")
        for i, b in enumerate(data[1:]):
            drv.do(ens, lambda X: ens.update(X), [drv.obj_for(b)], f"update{i}")
    else:
        for i, r in enumerate(data):
            drv.do(ens, lambda X: ens.update(X, None, None), [drv.obj_for([r])], f"update{i}")
    return drv


# =============================================================================== alias sites
def far_batch(rng, n, d, shift, intlast=False):
    return [[float(shift + rng.gauss(0, 1)) for _ in range(d)] for _ in range(n)]


def reach_site(case):
    """drive a new detector to the storing site with the caller's object; returns (detector, object, roots, stored attribute, reached)"""
    site, kind, d, seed = case["site"], case["container"], case["d"], case["seed"]
    import random
    rng = random.Random(seed)
    n = 24
    ref = far_batch(rng, n, d, 0.0)
    same = far_batch(rng, n, d, 0.0)
    far = far_batch(rng, n, d, 25.0)
    np.random.seed(seed)
    mk = lambda rows, one_d=True: build(kind, rows, one_d=one_d)
    det_name = case["det"]
    if site in ("SiteNndviRef", "SiteNndviAdopted"):
        det = NNDVI(k_nn=3, sampling_times=20, alpha=0.05)
        if site == "SiteNndviRef":
            o, r = mk(ref); det.set_reference(o)
            return det, o, r, det.reference_batch, True
        det.set_reference(np.array(ref))
        o, r = mk(far); det.update(o)
        return det, o, r, det.reference_batch, det.drift_state == "drift"
    if site in ("SiteHdmRef", "SiteHdmAdopted", "SiteHdmConcat"):
        cls = HDDDM if det_name == "HDDDM" else CDBD
        det = cls(detect_batch=3 if site == "SiteHdmConcat" else 1, divergence="H" if cls is HDDDM else "KL", statistic="stdev",
                  significance=0.1, subsets=3)
        if site == "SiteHdmRef":
            o, r = mk(ref); det.set_reference(o)
            return det, o, r, det.reference, True
        det.set_reference(np.array(ref))
        if site == "SiteHdmConcat":
            o, r = mk(same); det.update(o)
            return det, o, r, det.reference, det.drift_state != "drift"
        det.update(np.array(same))
        if det.drift_state == "drift":
            det.update(np.array(same))
        o, r = mk(far); det.update(o)
        return det, o, r, det.reference, det.drift_state == "drift"
    if site == "SiteKdqStreamRef":
        det = KdqTreeStreaming(window_size=6, bootstrap_samples=5, count_ubound=2)
        if case.get("second"):
            det.update(np.array([ref[0]]))
        o, r = mk([ref[1]]); det.update(o)
        return det, o, r, getattr(det, "_ref_data", None), True
    if site in ("SiteKdqBatchFirst", "SiteKdqBatchAdopted"):
        det = KdqTreeBatch(alpha=0.05, bootstrap_samples=10, count_ubound=5)
        if site == "SiteKdqBatchFirst":
            o, r = mk(ref); det.update(o)
            return det, o, r, getattr(det, "_ref_data", None), True
        det.set_reference(np.array(ref))
        o, r = mk(far); det.update(o)
        return det, o, r, getattr(det, "ref_data", None), det.drift_state == "drift"
    if site in ("SitePcacdRef", "SitePcacdTest"):
        det = PCACD(window_size=5, divergence_metric="intersection", sample_period=0.2)
        for i in range(5 if site == "SitePcacdTest" else 1):
            det.update(np.array([ref[i]]))
        o, r = mk([ref[7]]); det.update(o)
        stored = getattr(det, "_test_window" if site == "SitePcacdTest" else "_reference_window", None)
        return det, o, r, stored, stored is None or len(stored) == (1 if site == "SitePcacdTest" else 2)
    if site == "SiteCusumStream":
        det = CUSUM(burn_in=3)
        det.update(1.0)
        o, r = mk([[ref[1][0]]]); det.update(o)
        st_ = getattr(det, "_stream", None)
        return det, o, r, (st_[-1] if st_ else None), True
    if site == "SitePhScores":
        det = PageHinkley(burn_in=3)
        det.update(1.0)
        o, r = mk([[ref[1][0]]]); det.update(o)
        cs_ = getattr(det, "_change_scores", None)
        return det, o, r, (cs_[-1] if cs_ else None), True
    if site.startswith("SiteMd3"):
        det = MD3(clf=ThresholdSVM(), sensitivity=0.0, k=4, oracle_data_length_required=5)
        cols = ["a", "b", "y"]
        rows = [[rng.gauss(0, 2), rng.gauss(0, 2)] for _ in range(24)]
        rows = [[a, b, float(1 if a + b > 0 else 0)] for a, b in rows]
        rows[0][2] = 1.0 - rows[0][2]
        if site in ("SiteMd3Features", "SiteMd3Target"):
            o, r = build(kind, rows, names=cols); det.set_reference(o, target_name="y")
            return det, o, r, (det.reference_batch_features if site == "SiteMd3Features" else det.reference_batch_target), True
        det.set_reference(pd.DataFrame(rows, columns=cols), target_name="y")
        for i in range(40):
            if det.waiting_for_oracle:
                break
            det.update(pd.DataFrame([[0.01 * (i + 1), -0.005 * (i + 1)]], columns=cols[:2]))
        if not det.waiting_for_oracle:
            return det, None, [], None, False
        if site == "SiteMd3OracleNext":
            det.give_oracle_label(pd.DataFrame([[1.0, 1.0, 1.0]], columns=cols))
        o, r = build(kind, [[2.0, 1.0, 1.0]], names=cols); det.give_oracle_label(o)
        return det, o, r, det.oracle_data, det.oracle_data is not None
    if site.startswith("Ens"):
        ens = make_ensemble({"ensemble": "batch" if site.startswith("EnsBatch") else "stream", "selectors": case.get("selectors")})
        if site == "EnsBatchRef":
            o, r = mk(ref, one_d=False); ens.set_reference(o)
            return ens, o, r, [ens.detectors["nndvi"].reference_batch, ens.detectors["hdddm"].reference], True
        if site == "EnsBatchAdopted":
            ens.set_reference(np.array(ref))
            o, r = mk(far, one_d=False); ens.update(o)
            return ens, o, r, [ens.detectors["nndvi"].reference_batch, ens.detectors["hdddm"].reference,
                               getattr(ens.detectors["kdq"], "ref_data", None)], ens.detectors["nndvi"].drift_state == "drift"
        o, r = mk([ref[0]], one_d=False); ens.update(o, None, None)
        return ens, o, r, [getattr(ens.detectors["kdq"], "_ref_data", None), getattr(ens.detectors["pca"], "_reference_window", None)], True
    raise ValueError(site)


ENS_SITES = {"EnsBatchRef": ["SiteNndviRef", "SiteHdmRef"], "EnsBatchAdopted": ["SiteNndviAdopted", "SiteHdmAdopted", "SiteKdqBatchAdopted"],
             "EnsStreamRef": ["SiteKdqStreamRef", "SitePcacdRef"]}


def run_alias(case):
    det, o, roots, stored, reached = reach_site(case)
    if o is None:
        return {"reached": False}
    allroots = [o] + list(roots)
    stored_list = stored if isinstance(stored, list) and case["site"].startswith("Ens") else [stored]
    sh = [bool(s is o or shares(allroots, s)) if s is not None else False for s in stored_list]
    # "located": the stored object was found under its (private, optional) attribute name; when it was not, the verdict
    # rests on the name-independent deep scan of the detector alone and the site is not model-checked
    return {"reached": bool(reached), "shares": sh, "same_object": [bool(s is o) for s in stored_list],
            "located": [s is not None for s in stored_list], "scan": scan(det, allroots)[:6]}


# =============================================================================== library facts
def run_fact(case):
    f, kind = case["fact"], case["container"]
    rows = [[1.0, 2.0], [3.0, 4.0], [5.0, 6.0]]
    o, roots = build(kind, rows)
    allroots = [o] + list(roots)
    if f == "FValues":
        y = o.values
    elif f == "FNpArrayOfValues":
        y = np.array(o.values)
    elif f == "FNpArrayOfCopy":
        y = np.array(copy.copy(o))
    elif f == "FFrameCtor":
        src = o.values if isinstance(o, pd.DataFrame) else o
        y = pd.DataFrame(src, columns=NAMES[:2])
        return {"shares": bool(shares([src], y)), "nblocks": None}
    elif f == "FNpCopy":
        y = np.copy(o)
    else:
        raise ValueError(f)
    return {"shares": bool(shares(allroots, y)), "nblocks": int(o._mgr.nblocks) if isinstance(o, pd.DataFrame) else None}


# =============================================================================== injectors
def inj_build(case):
    lay = case["layout"]
    if lay in ("C", "F", "strided", "reversed", "df"):
        return c20.build_input(case)
    n, w = len(case["rows"]), case["w"]
    a = np.array(case["rows"], dtype=float).reshape(n, w)
    if lay == "readonly":
        x = np.ascontiguousarray(a); x.setflags(write=False); return x, x
    if lay == "df_mixed":
        lc = case["intcol"]
        x = pd.DataFrame({case["names"][j]: (a[:, j].astype(np.int64) if j == lc else a[:, j].copy()) for j in range(w)})
        return x, x
    if lay == "list":
        return a.tolist(), None
    if lay == "series":
        return pd.Series(a[:, 0].copy()), None
    raise ValueError(lay)


INJ_KIND = {"C": "KArrC", "F": "KArrF", "strided": "KArrStrided", "reversed": "KArrStrided", "df": "KDFOne", "readonly": "KArrReadonly",
            "df_mixed": "KDFMixed", "list": "KList", "series": "KSeries"}


def run_inj(case, shared=None):
    if case["inj"] == "seq":
        inst = c20.INJ[case["cls"]]()          # ONE instance for every call of the sequence
        return {"calls": [run_inj(sub, inst) for sub in case["calls"]]}
    case = dict(case, args=dict(case["args"]))
    a, k = case["args"], case["inj"]
    if k == "prob":
        a["_dict"] = {kv[0]: kv[1] for kv in a["cp"]}
    if k == "dirichlet":
        a["_dict"] = {kv[0]: kv[1] for kv in a["alpha"]}
    dsnap = snap(a["_dict"]) if "_dict" in a else None
    obj, base = inj_build(case)
    roots = [base] if base is not None and base is not obj else []
    before = snap(obj, roots)
    c2 = dict(case, layout="df" if case["layout"] == "df_mixed" else case["layout"])
    np.random.seed(case["seed"])
    obs = {"raised": None}
    try:
        _, out = c20.call(c2, obj, shared)
        obs["same_type"] = type(out) is type(obj)
        obs["is_input"] = out is obj
        obs["shares"] = bool(out is obj or shares([obj] + roots, out))
        same_content = (isinstance(out, (np.ndarray, pd.DataFrame)) and np.shape(out) == np.shape(obj)
                        and np.asarray(out, dtype=float).tobytes() == np.asarray(obj, dtype=float).tobytes())
        obs["differs"] = not same_content
    except Exception as e:
        obs["raised"] = f"{type(e).__name__}: {str(e)[:160]}"
    obs["input_unchanged"] = snap(obj, roots) == before
    obs["dict_unchanged"] = True if dsnap is None else snap(a["_dict"]) == dsnap
    return obs


# =============================================================================== module API
def run_twin(case):
    runner = run_ensemble if "ensemble" in case else run_detector
    a = runner(case, case["mode"])
    b = runner(case, None)
    ra, rb = a.rows, b.rows
    first = None
    for i, (x, y) in enumerate(zip(ra, rb)):
        if x != y:
            keys = [k for k in ("call", "err", "obs", "late") if x.get(k) != y.get(k)]
            det = {}
            for k in keys:
                if isinstance(x[k], dict):
                    det[k] = {kk: [x[k].get(kk), y[k].get(kk)] for kk in x[k] if x[k].get(kk) != y[k].get(kk)}
                else:
                    det[k] = [x[k], y[k]]
            first = {"position": i, "call": x["call"], "differs": det}
            break
    if first is None and len(ra) != len(rb):
        first = {"position": min(len(ra), len(rb)), "call": "length", "differs": [len(ra), len(rb)]}
    lastobs = [r["obs"] for r in rb]
    return {"equal": first is None, "first_diff": first, "n_calls": len(rb), "n_overwrites": a.n_over,
            "drifts": sum(1 for o in lastobs if o.get("ds") == "drift" or any(s[1] == "drift" for s in o.get("states", []))),
            "warnings": sum(1 for o in lastobs if o.get("ds") == "warning"),
            "labels": sum(1 for r in rb if r["call"].startswith("label")),
            "arg_changed": (a.arg_changed + b.arg_changed)[:5], "alias": a.alias[:5],
            "errors": sum(1 for r in rb if r["err"]), "errors_a": sum(1 for r in ra if r["err"]),
            "first_error": next((r["err"] for r in rb if r["err"]), None)}


RUNSTATS = {}


def _bump(k, n=1):
    RUNSTATS[k] = RUNSTATS.get(k, 0) + n


def run_impl(case):
    t = case["t"]
    if t == "fact":
        return run_fact(case)
    if t == "alias":
        o = run_alias(case)
        _bump("alias_reached" if o.get("reached") else "alias_not_reached")
        if not o.get("reached"):
            RUNSTATS.setdefault("alias_not_reached_sites", []).append(f"{case['det']}/{case['site']}/{case['container']}")
        return o
    if t == "twin":
        o = run_twin(case)
        who_ = case.get("det") or case["ensemble"] + "_ensemble"
        _bump("twin_calls", o["n_calls"]); _bump("twin_overwrites", o["n_overwrites"]); _bump("twin_drift_reports", o["drifts"])
        if o["drifts"]:
            _bump("twin_cases_with_drift"); _bump(f"twin_cases_with_drift_{who_}")
        if case.get("set_reference_at") is not None:
            _bump("twin_cases_with_explicit_set_reference")
        if o["labels"]:
            _bump("twin_md3_cases_with_oracle_labels")
        if o["errors"]:
            _bump("twin_cases_with_refused_calls")
        return o
    if t == "inj":
        o = run_inj(case)
        for oo in o.get("calls", [o]):
            _bump("inj_returned" if oo["raised"] is None else "inj_raised")
        if "calls" in o:
            _bump("inj_sequences_on_one_instance")
        return o
    raise ValueError(t)


def extra(ctx):
    return {"run_stats": dict(RUNSTATS)}


def who(case):
    if case["t"] == "twin":
        return (f"{case.get('det') or case['ensemble'] + ' ensemble'} {case.get('params', '')} on {case['container']} input, "
                f"overwrite mode {case['mode']}, seed {case['seed']}")
    if case["t"] == "alias":
        return f"{case['det']} at {case['site']} with {case['container']} input"
    return str({k: v for k, v in case.items() if k not in ("rows", "data")})


def direct_check(case, obs):
    if "__exception__" in obs:
        return [f"harness could not run the case: {obs['__exception__']}: {obs.get('__message__')} {obs.get('__trace__', '')[-400:]}"]
    t = case["t"]
    if t == "fact":
        return []
    msgs = []
    if t == "alias":
        if not obs.get("reached"):
            return []
        if any(obs["shares"]):
            msgs.append(f"{who(case)}: the stored attribute shares memory with the caller's object"
                        f"{' (it IS the caller object)' if any(obs['same_object']) else ''}")
        if obs["scan"]:
            msgs.append(f"{who(case)}: the detector keeps a live reference to the caller's data at {obs['scan']}")
        return msgs
    if t == "twin":
        if obs["arg_changed"]:
            msgs.append(f"{who(case)}: the call modified its argument: {obs['arg_changed']}")
        if obs["alias"]:
            msgs.append(f"{who(case)}: after the call the detector holds memory of the caller's object: {obs['alias'][:2]}")
        if not obs["equal"]:
            msgs.append(f"{who(case)}: overwriting the handed-over objects changes the detector's outputs; first difference at call "
                        f"{obs['first_diff']['position']} ({obs['first_diff']['call']}): {json.dumps(obs['first_diff']['differs'])[:500]}")
        return msgs
    if t == "inj" and case["inj"] == "seq":
        for i, (sub, o) in enumerate(zip(case["calls"], obs["calls"])):
            m = direct_check(dict(sub, t="inj"), o)
            if m:
                return [f"call {i + 1} of {len(case['calls'])} on one {case['cls']} injector instance (inputs so far "
                        f"{[c['layout'] for c in case['calls'][:i + 1]]}): {x}" for x in m]
        return []
    if t == "inj":
        k = case["inj"]
        if not obs["input_unchanged"]:
            msgs.append(f"{k} on {case['layout']}: the input object was modified by the call")
        if not obs["dict_unchanged"]:
            msgs.append(f"{k}: the dict argument was modified by the call")
        if obs["raised"]:
            return msgs
        if not obs["same_type"]:
            msgs.append(f"{k} on {case['layout']}: the result is not of the container type of the input")
        if obs["is_input"]:
            msgs.append(f"{k} on {case['layout']}: the injector returned its input object")
        elif obs["shares"]:
            msgs.append(f"{k} on {case['layout']}: the result shares memory with the input")
        return msgs
    return msgs


def coq_term(case, obs):
    if "__exception__" in obs:
        return None
    t = case["t"]
    if t == "fact":
        return f"chk_fact current {case['fact']} {KIND[case['container']]} {G.boolc(obs['shares'])}"
    if t == "alias":
        if not obs.get("reached") or not all(obs.get("located", [True])):
            return None
        sites = ENS_SITES.get(case["site"], [case["site"]])
        k = KIND[case["container"]]
        return " && ".join(f"chk_site current {s} {k} {G.boolc(sh)}" for s, sh in zip(sites, obs["shares"]))
    if t == "twin":
        names = ENS_MEMBERS[case["ensemble"]] if "ensemble" in case else [case["det"]]
        ds = G.lst([DNAME.get(n, "DScalar") for n in names])
        ks = {KIND[case["container"]]}
        if case.get("det") == "MD3" and case["container"] == "df_mixed":
            ks.add("KDFOne")
        return f"chk_twin current {ds} {G.lst(sorted(ks))} {G.boolc(obs['equal'] and not obs['alias'] and not obs['arg_changed'])}"
    if t == "inj" and case["inj"] == "seq":
        ts = [coq_term(dict(sub, t="inj"), o) for sub, o in zip(case["calls"], obs["calls"])]
        ts = [f"({x})" for x in ts if x is not None]
        return " && ".join(ts) if ts else None
    if t == "inj":
        raised = obs["raised"] is not None
        k = INJ_KIND[case["layout"]]
        if raised and case["layout"] not in ("list", "series"):
            return None      # a documented refusal of the arguments (C20's subject); the frame part is checked directly
        return (f"chk_inject current {k} {G.boolc(raised)} {G.boolc(bool(obs.get('same_type')))} {G.boolc(bool(obs.get('shares')))} "
                f"{G.boolc(obs['input_unchanged'] and obs['dict_unchanged'])}")
    return None


def nontrivial(case, obs):
    if "__exception__" in obs:
        return False
    t = case["t"]
    if t == "fact":
        return True
    if t == "alias":
        return bool(obs.get("reached"))
    if t == "twin":
        return obs["n_overwrites"] > 0 and obs["n_calls"] > obs["errors"]
    if t == "inj" and case["inj"] == "seq":
        kinds = {"df" if c["layout"] == "df" else "array" for c in case["calls"]}
        return len(kinds) == 2 and any(o["raised"] is None for o in obs["calls"])
    if t == "inj":
        return obs["raised"] is None and bool(obs.get("differs"))
    return False


def signature(case, obs, msgs):
    t = case["t"]
    what = "alias" if any("shares memory" in m or "live reference" in m or "holds memory" in m for m in msgs) else \
           "mutated" if any("modified" in m for m in msgs) else "outputs"
    return {"t": t, "det": case.get("det") or case.get("ensemble") or case.get("inj"), "what": what,
            "site": case.get("site")}


def shrink_candidates(case):
    if case["t"] == "inj" and case.get("inj") == "seq":
        calls = case["calls"]
        for i in range(len(calls)):
            if len(calls) > 1:
                yield dict(case, calls=calls[:i] + calls[i + 1:])
        return
    if case["t"] != "twin":
        return
    if "data" in case and len(case["data"]) > 3:
        n = len(case["data"])
        yield dict(case, data=case["data"][:n // 2 + 1])
        yield dict(case, data=case["data"][:n - 1])
    if case.get("container") not in ("C", "df_one"):
        yield dict(case, container="C")
    if case.get("mode") != "fill":
        yield dict(case, mode="fill")


# =============================================================================== generators
FACTS = {"FValues": ["df_one", "df_mixed", "df_split"], "FNpArrayOfValues": ["df_one", "df_mixed", "df_split"],
         "FNpArrayOfCopy": ["C", "F", "strided", "readonly", "list", "series"],
         "FFrameCtor": ["C", "F", "strided", "readonly", "df_one"], "FNpCopy": ["C", "F", "strided", "readonly", "df_one", "df_mixed"]}

BATCH_KINDS = ["C", "F", "strided", "readonly", "list", "df_one", "df_mixed", "df_split"]
ROW_KINDS = ["C", "F", "strided", "readonly", "list", "series", "df_one", "df_mixed", "df_split"]
SITES = [("NNDVI", "SiteNndviRef", BATCH_KINDS, 2), ("NNDVI", "SiteNndviAdopted", BATCH_KINDS, 2),
         ("HDDDM", "SiteHdmRef", BATCH_KINDS, 2), ("HDDDM", "SiteHdmAdopted", BATCH_KINDS, 2), ("HDDDM", "SiteHdmConcat", BATCH_KINDS, 2),
         ("CDBD", "SiteHdmRef", ["C", "F", "strided", "readonly", "list", "series", "df_one"], 1),
         ("CDBD", "SiteHdmAdopted", ["C", "strided", "list", "series", "df_one"], 1),
         ("KdqTreeStreaming", "SiteKdqStreamRef", ROW_KINDS, 2),
         ("KdqTreeBatch", "SiteKdqBatchFirst", BATCH_KINDS, 2), ("KdqTreeBatch", "SiteKdqBatchAdopted", BATCH_KINDS, 2),
         ("PCACD", "SitePcacdRef", ROW_KINDS, 3), ("PCACD", "SitePcacdTest", ROW_KINDS, 3),
         ("CUSUM", "SiteCusumStream", ["C", "F", "strided", "readonly", "list", "series", "df_one"], 1),
         ("PageHinkley", "SitePhScores", ["C", "F", "strided", "readonly", "list", "series", "df_one"], 1),
         ("ensemble", "EnsBatchRef", BATCH_KINDS, 2), ("ensemble", "EnsBatchAdopted", BATCH_KINDS, 2),
         ("ensemble", "EnsStreamRef", ["C", "F", "strided", "readonly", "df_one", "df_mixed", "df_split"], 2)]
MD3_SITES = [("MD3", s, ["df_one", "df_mixed", "df_split"], 3) for s in
             ("SiteMd3Features", "SiteMd3Target", "SiteMd3OracleNext", "SiteMd3OracleFirst")]
MODES = ["fill", "reverse", "col", "rename", "reuse"]


def mode_ok(mode, kind, dk):
    if mode == "rename":
        return kind.startswith("df")
    if mode == "col":
        return kind not in ("list", "series")
    return True


def gen_cases(ctx):
    rng = ctx.rng
    cases = []
    st = ctx.stats
    bump = lambda k: st.__setitem__(k, st.get(k, 0) + 1)
    # ---- library facts
    for f, kinds in FACTS.items():
        for k in kinds:
            cases.append({"t": "fact", "fact": f, "container": k}); bump("fact_cases")
    # ---- alias sites x containers
    for det, site, kinds, d in SITES + MD3_SITES:
        for k in kinds:
            for rep in range(ctx.scale(1, 3)):
                c = {"t": "alias", "det": det, "site": site, "container": k, "d": d, "seed": rng.randint(0, 10**6)}
                if site == "SiteKdqStreamRef" and rep % 2 == 1:
                    c["second"] = True
                if site.startswith("Ens") and rng.random() < 0.5:
                    c["selectors"] = True
                cases.append(c); bump("alias_cases"); bump(f"alias_kind_{k}")
    # ---- twin experiment: every detector x containers x modes
    kcount = 0
    for name in SPECS:
        dk = det_kind(name)
        reps = ctx.scale(1, 4)
        combos = []
        for kind in (containers_for(name, 3) if name not in ("CUSUM", "ADWIN", "PageHinkley", "CDBD") else containers_for(name, 1)):
            for mode in MODES:
                if mode_ok(mode, kind, dk):
                    combos.append((kind, mode))
        rng.shuffle(combos)
        # quick: every container and every mode at least once per detector; thorough: the full cross product
        chosen, seen_k, seen_m = [], set(), set()
        for kind, mode in combos:
            if ctx.thorough or kind not in seen_k or mode not in seen_m:
                chosen.append((kind, mode)); seen_k.add(kind); seen_m.add(mode)
        for kind, mode in chosen:
            for _ in range(reps):
                kcount += 1
                for _try in range(12):
                    c = make_params(rng, name)
                    d = (len(c["data"][0][0]) if dk == "batch" else (len(c["data"][0]) if dk == "x" and isinstance(c["data"][0], list) else 1)) \
                        if name != "MD3" else 3
                    if kind_ok(kind, d, one_d=(dk in ("x", "y") or d == 1)):
                        break
                else:
                    continue
                c.update({"t": "twin", "det": name, "container": kind, "mode": mode, "seed": (ctx.seed + 31 * kcount) % 100000})
                if dk == "batch" and rng.random() < 0.4:
                    c["set_reference_at"] = rng.randint(1, max(1, len(c["data"]) - 3))
                cases.append(c)
                bump("twin_cases"); bump(f"twin_mode_{mode}"); bump(f"twin_kind_{kind}"); bump(f"twin_det_{name}")
    # ---- ensembles
    for ens in ("batch", "stream"):
        kinds = BATCH_KINDS if ens == "batch" else ["C", "F", "strided", "readonly", "df_one", "df_mixed", "df_split"]
        for kind in kinds:
            for mode in (MODES if ctx.thorough else [rng.choice([m for m in MODES if mode_ok(m, kind, ens)])]):
                if not mode_ok(mode, kind, ens):
                    continue
                kcount += 1
                data = gen_batches(rng, rng.randint(6, 9), 2, 20, 30) if ens == "batch" else row_stream(rng, rng.randint(60, 90), 2, 20)
                c = {"t": "twin", "ensemble": ens, "container": kind, "mode": mode, "data": data,
                     "selectors": rng.random() < 0.5, "seed": (ctx.seed + 31 * kcount) % 100000}
                cases.append(c); bump("twin_cases"); bump(f"twin_ensemble_{ens}")
    # ---- injectors: a stratified sample of C20's cases, plus more containers
    sub = types.SimpleNamespace(rng=rng, seed=ctx.seed, stats={}, thorough=False, scale=lambda q, t: q)
    need = ("rows", "w", "from", "to", "args", "layout", "names", "seed")
    allc20 = c20.gen_cases(sub)
    pool = [c for c in allc20 if c.get("inj") in c20.INJ and all(k in c for k in need)]
    # call sequences on ONE reused injector instance (DataFrame and ndarray inputs alternate): the container type of
    # every result must be that of ITS input, whatever the instance processed before
    seqs = [c for c in allc20 if c.get("inj") == "seq" and c.get("cls") in c20.INJ
            and all(all(k in sc for k in need) for sc in c.get("calls", []))]
    byc = {}
    for c in seqs:
        byc.setdefault(c["cls"], []).append(c)
    for cls, cs in sorted(byc.items()):
        for c in rng.sample(cs, min(ctx.scale(8, 40), len(cs))):
            cases.append(dict(c, t="inj")); bump("inj_seq_cases"); bump(f"inj_seq_{cls}")
    by = {}
    for c in pool:
        by.setdefault((c["inj"], c["layout"]), []).append(c)
    per = ctx.scale(6, 40)
    for key, cs in sorted(by.items()):
        nonempty = [c for c in cs if c["to"] > c["from"] and c["rows"]]
        pick = rng.sample(nonempty, min(per, len(nonempty))) + rng.sample(cs, min(2, len(cs)))
        for c in pick:
            cases.append(dict(c, t="inj")); bump("inj_cases"); bump(f"inj_{c['inj']}"); bump(f"inj_layout_{c['layout']}")
        # the same calls on a read-only array / a mixed-dtype frame / refused containers
        for c in pick[:ctx.scale(1, 4)]:
            if key[1] == "C":
                cases.append(dict(c, t="inj", layout="readonly")); bump("inj_cases"); bump("inj_layout_readonly")
                cases.append(dict(c, t="inj", layout="list")); bump("inj_cases"); bump("inj_layout_list")
            if key[1] == "df":
                cols = [j for j in range(c["w"]) if all(math.isfinite(r[j]) and float(r[j]).is_integer() for r in c["rows"])]
                if cols and c["w"] >= 2 and c["rows"]:
                    cases.append(dict(c, t="inj", layout="df_mixed", intcol=cols[0])); bump("inj_cases"); bump("inj_layout_df_mixed")
                cases.append(dict(c, t="inj", layout="series")); bump("inj_cases"); bump("inj_layout_series")
    return cases
