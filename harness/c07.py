"""C07 — HDDDM / CDBD alarm exactly when the distance change exceeds the adaptive bound."""
import bisect, contextlib, hashlib, math
from decimal import Decimal, getcontext
from fractions import Fraction
import numpy as np
import pandas as pd
import scipy.stats
from menelaus.data_drift import HDDDM, CDBD
from . import coqgen as G
from .common import feq

ID = "C07"
PROPS = ["Prop_C07"]
IMPORTS = ("From MV Require Import Base Num NumFloat Hist Hdm Corr_C07.\nFrom Coq Require Import PrimFloat.")
CORR_NAME = ("Corr_C07: Hist.v + Hdm.v (NumFloat) = histogram_density_method.py / hdddm.py / cdbd.py: histogram counts, "
             "distances, epsilons, thresholds, decisions, reference content and all public records bit-for-bit after every call")
TRUSTED = ["Coq 8.16.1 kernel + vm_compute + primitive floats",
           "hand-written models coq/Hist.v (np.histogram, uniform bins) and coq/Hdm.v tied to the code by bit-level differential execution "
           "(bounded by the generators)",
           "oracles of the model, logged from the implementation's own library calls: scipy.spatial.distance.jensenshannon / the user "
           "divergence (table histogram pair -> value), scipy.stats.t.ppf (table df -> value), the bootstrap estimate "
           "_estimate_initial_epsilon (pandas sampling; value read from detector.epsilon[0]), and numpy's scalar x ** 2 (libm pow) given as "
           "the list of arguments on which it differs from the rounded product x*x (each entry checked to be within 1 ulp of x*x)",
           "the C cast double -> intp in np.histogram is modelled through FloatOps.Prim2SF (Corr_C07.ftruncZ)",
           "Hellinger / Jensen-Shannon values are validated against a 60-digit recomputation from np.histogram counts "
           "(|diff| <= 1e-12*(1+d) / 1e-9*(1+d)); the JS bound sqrt(ln 2) and symmetry are oracle contracts checked numerically, not proved",
           "the bootstrap estimate is validated by an independent re-implementation under the same seed (|diff| <= 1e-9*(1+v))",
           "harness/c07.py"]
RULE = ("HDDDM with 1-4 features (Hellinger or a user divergence) and CDBD with 1 feature (Jensen-Shannon or a user divergence); "
        "detect_batch in {1,2,3}; statistic tstat (significance .01-.3) / stdev (0-3 deviations, incl. two-pass values aimed at beta == epsilon); "
        "subsets 2-6; a reference and 4-12 test batches of 8-200 rows (sizes vary inside a case; some cases with equal sizes, some with 2-4 rows), "
        "data: dyadic grids (points exactly on bin edges), integer grids, generic floats at several scales, constant columns (degenerate range), "
        "repeated batches (epsilon == beta == 0 ties), level / scale shifts sized to cause 0-4 drifts; arrays or DataFrames; mid-run set_reference "
        "(accepted, and rejected 2-row references for detect_batch 1); np.random.seed(f(case, step)) before every call. Observables after every call: "
        "drift_state, counters, current_distance, beta, epsilon list, total_epsilon, distances / epsilon_values / thresholds, reference_n, "
        "feature_epsilons, feature_info, the reference content, both histograms of every feature; optional private: _lambda, _bins, _prev_distance. "
        "After (up to two) drifts per history a new detector is started on the drifted batch and compared with the running one on the later "
        "batches (state, counters, distance, epsilon, threshold, reference, feature_epsilons from the second batch of the epoch, feature_info on drift). "
        "Non-trivial: at least one drift and at least one update after it; distinct by content."
        " Also: for DataFrame cases with >= 2 features a batch with the columns in another order must be refused (probed after the run)."
        " Mixed numeric dtypes (48 quick / 480 thorough histories, pattern x detect_batch {1,2,3} x HDDDM / CDBD enumerated, ndarray or DataFrame, 1-3 "
        "features, stdev 2 / 3 / 50 or tstat .01 / .05, 6-9 batches of 8-64 rows, optional late level shift and mid-run set_reference in a narrow "
        "dtype): the caller holds each batch in its own dtype - int64 / int32 / float32 reference followed by float64 batches, int64 reference "
        "followed by any of int64 / int32 / float32 / float64, int32 -> int64 -> float64, float64 reference followed by narrow batches, DataFrame "
        "reference with a different dtype per column, all-integer histories; every value is exactly representable in its dtype, and specification "
        "and model receive the caller's values as doubles (what the pooled reference holds after concatenation upcasts). float64 values are whole "
        "numbers, halves, generic fractions and whole numbers -/+ a relative 2^-30 on ranges whose ends are whole numbers (positive and negative), "
        "so that truncation to an integer or rounding to single precision moves them across bin edges (counted: reached.appends_of_a_wider_dtype..., "
        "updates_on_a_reference_widened_in_the_epoch, of_these_with_truncation_changing_a_histogram). float32 is used only where the code computes in "
        "doubles: never for both operands of one histogram (not on consecutive calls, not for a reference that detect_batch=1 splits; int32 takes its "
        "place there) - np.histogram on two float32 operands builds float32 edges, outside the model's arithmetic.")
SHARD = 6

RUN = {"drifts": 0, "updates": 0, "exact_ties_eps_eq_beta": 0, "near_ties_1e-12": 0, "pow_exceptions": 0, "proxy_batches": 0,
       "degenerate_ranges": 0, "rejected_set_reference": 0, "bootstrap_estimates_validated": 0, "thresholds": 0,
       "side_identity": 0, "side_symmetry": 0, "side_symmetry_bit_exact": 0, "twin_rows_compared": 0,
       "appends_of_a_wider_dtype_than_the_reference": 0, "updates_on_a_reference_widened_in_the_epoch": 0,
       "of_these_with_truncation_changing_a_histogram": 0}
getcontext().prec = 60
SQRT2 = math.sqrt(2.0)
SQRTLN2 = math.sqrt(math.log(2.0))
TOL_H, TOL_JS, TOL_BETA, TOL_BOOT = 1e-12, 1e-9, 1e-9, 1e-9


# ------------------------------------------------------------------ user divergences (mirrored as oracle tables)
def div_tv(r, t):
    """total variation between the normalised histograms"""
    r = np.asarray(r, dtype=float); t = np.asarray(t, dtype=float)
    return 0.5 * np.abs(r / r.sum() - t / t.sum()).sum()


def div_maxbin(r, t):
    r = np.asarray(r, dtype=float); t = np.asarray(t, dtype=float)
    return np.abs(r / r.sum() - t / t.sum()).max()


def div_chi(r, t):
    """symmetric chi-square distance (square root)"""
    r = np.asarray(r, dtype=float); t = np.asarray(t, dtype=float)
    p, q = r / r.sum(), t / t.sum()
    m = p + q
    return np.sqrt(np.sum(np.where(m > 0, (p - q) * (p - q) / np.where(m > 0, m, 1.0), 0.0)))


def div_l2counts(r, t):
    """the custom metric of examples/data_drift_examples.py, on the whole histograms (unbounded)"""
    return np.sqrt(np.sum(np.square(np.array(r) - np.array(t))))


# all return numpy float64 scalars, like the documented example (a Python float would send _adaptive_threshold's
# sum() through CPython >= 3.12's compensated float summation: see notes/design_C07.md)
CUSTOM = {"tv": div_tv, "maxbin": div_maxbin, "chi": div_chi, "l2counts": div_l2counts}


def seed_of(case, step):
    return (int(case.get("seed", 0)) * 1000003 + 7919 * (step + 1)) % (2 ** 31 - 1)


# ------------------------------------------------------------------ implementation side
def make(case, detect_batch=None):
    p = case["params"]
    div = p["divergence"]
    if div.startswith("custom:"):
        div = CUSTOM[div.split(":", 1)[1]]
    cls = HDDDM if case["det"] == "HDDDM" else CDBD
    return cls(detect_batch=p["detect_batch"] if detect_batch is None else detect_batch, divergence=div,
               statistic=p["statistic"], significance=p["significance"], subsets=p["subsets"])


def dtype_of(case, bi):
    """numeric dtype in which the caller holds input batch bi: a name, or (DataFrames only) one name per column"""
    dts = case.get("dtypes")
    return "float64" if not dts else dts[bi]


def held_dtype(dt):
    """dtype of the values the library reads out of the caller's container (DataFrame.values takes the common type of the columns)"""
    return np.result_type(*dt) if isinstance(dt, list) else np.dtype(dt)


def container(case, rows, dt="float64"):
    """the caller's batch.  case["batches"] holds the values as doubles, each exactly representable in its batch's dtype: the
    specification and the model see precisely the numbers the caller passed"""
    a = np.array(rows, dtype=float).reshape(len(rows), case["k"])
    cols = [f"c{j}" for j in range(case["k"])]
    if isinstance(dt, list) and case.get("container") != "df":
        dt = str(held_dtype(dt))
    if isinstance(dt, list):
        X = pd.DataFrame({c: a[:, j].astype(d) for j, (c, d) in enumerate(zip(cols, dt))}, columns=cols)
        back = X.to_numpy(dtype=float)
    else:
        X = a.astype(dt) if dt != "float64" else a
        back = X.astype(float)
        if case.get("container") == "df":
            X = pd.DataFrame(X, columns=cols)
    if not np.array_equal(back, a):
        raise AssertionError(f"generated values are not representable in {dt}")
    return X


def batch(case, bi):
    return container(case, case["batches"][bi], dtype_of(case, bi))


@contextlib.contextmanager
def record_tppf(log):
    t = scipy.stats.t
    orig = t.ppf
    def wrapped(q, df, *a, **kw):
        v = orig(q, df, *a, **kw)
        try:
            log.append((float(q), int(df), float(v)))
        except Exception:
            log.append(None)
        return v
    t.ppf = wrapped
    try:
        yield
    finally:
        try:
            del t.ppf
        except AttributeError:
            t.ppf = orig


def fl(v):
    return None if v is None else float(v)


def fll(v):
    return None if v is None else [float(x) for x in v]


def sha(a):
    a = np.ascontiguousarray(np.asarray(a, dtype=float))
    return hashlib.sha1(a.tobytes()).hexdigest()


def finfo_of(det):
    fi = getattr(det, "feature_info", None)
    if not isinstance(fi, dict):
        return None
    get = lambda name: next((v for k, v in fi.items() if str(k).strip() == name), None)
    e, d, i = get("Epsilons"), get("Feature_Distances"), get("Significant_drift_in_variable")
    return [fll(e), fll(d), None if i is None else int(i)]


def snap(det):
    g = lambda n: getattr(det, n, None)
    ref = g("reference")
    refa = None if ref is None else np.asarray(ref.to_numpy() if hasattr(ref, "to_numpy") else ref, dtype=float)
    dd = lambda d: None if d is None else [[int(k), float(v)] for k, v in d.items()]
    lam, bins = g("_lambda"), g("_bins")
    return {"ds": det.drift_state, "total": int(det.total_batches), "since": int(det.batches_since_reset),
            "ref_n": None if g("reference_n") is None else int(g("reference_n")),
            "lam": None if lam is None else int(lam), "bins": None if bins is None else int(bins),
            "cur": fl(g("current_distance")), "beta": fl(g("beta")),
            "epsl": fll(g("epsilon")), "tot": fl(g("total_epsilon")),
            "feps": fll(g("feature_epsilons")), "finfo": finfo_of(det),
            "dists": dd(g("distances")), "epsv": dd(g("epsilon_values")), "thr": dd(g("thresholds")),
            "prev": fl(g("_prev_distance")),
            "ref_shape": None if refa is None else list(refa.shape), "ref_sha": None if refa is None else sha(refa),
            "ref_cols": None if ref is None or not hasattr(ref, "columns") else [str(c) for c in ref.columns]}


def pair_distance(case, a, b):
    """distance the detector records for test batch b against reference a (no split, no bootstrap)"""
    d = make(case, detect_batch=3)
    np.random.seed(1)
    d.set_reference(container(case, a))
    d.update(container(case, b))
    return float(d.current_distance)


TWIN_KEYS = ("ds", "since", "ref_n", "cur", "epsl", "tot", "ref_sha")


def twins(case, rows, limit=2):
    """clean-slate experiment: after a drift at step i a new detector is given the drifted batch as reference and fed the
    later batches under the same seed schedule (up to its next drift / the next set_reference)"""
    out = []
    ops = case["ops"]
    for i, row in enumerate(rows):
        if len(out) >= limit:
            break
        if row["ds"] != "drift" or ops[i][0] != 0 or i + 1 >= len(ops) or ops[i + 1][0] != 0:
            continue
        t = make(case)
        np.random.seed(seed_of(case, i))
        t.set_reference(batch(case, ops[i][1]))
        trows = []
        for j in range(i + 1, len(ops)):
            if ops[j][0] != 0:
                break
            np.random.seed(seed_of(case, j))
            t.update(batch(case, ops[j][1]))
            r = snap(t)
            trows.append(r)
            if r["ds"] == "drift" or rows[j]["ds"] == "drift":
                break
        out.append({"at": i, "rows": trows})
    return out


def check_twins(case, obs):
    for tw in obs.get("twins", []):
        i = tw["at"]
        off = None
        for n, tr in enumerate(tw["rows"]):
            rr = obs["rows"][i + 1 + n]
            where = f"step {i + 1 + n} vs. a new detector started on the batch that drifted at step {i}"
            if off is None:
                off = rr["total"] - tr["total"]
                if off != obs["rows"][i]["total"]:
                    return [f"{where}: total_batches differ by {off}, {obs['rows'][i]['total']} batches were seen before"]
            if rr["total"] - tr["total"] != off:
                return [f"{where}: total_batches offset changed"]
            for key in TWIN_KEYS:
                a, b = rr[key], tr[key]
                same = (a == b) if not isinstance(a, float) else feq(a, b)
                if isinstance(a, list) and isinstance(b, list):
                    same = len(a) == len(b) and all(feq(x, y) for x, y in zip(a, b))
                if not same:
                    return [f"{where}: {key} = {a!r}, the new detector reports {b!r}"]
            last = lambda d, t: None if not d or d[-1][0] != t else d[-1][1]
            for key in ("epsv", "thr", "dists"):
                if not feq(last(rr[key], rr["total"]), last(tr[key], tr["total"])):
                    return [f"{where}: {key} of this batch = {last(rr[key], rr['total'])!r}, the new detector reports {last(tr[key], tr['total'])!r}"]
            if rr["since"] >= 2:      # before that the attribute keeps an older value / does not exist yet
                a, b = rr["feps"], tr["feps"]
                if a is None or b is None or len(a) != len(b) or not all(feq(x, y) for x, y in zip(a, b)):
                    return [f"{where}: feature_epsilons = {a!r}, the new detector reports {b!r}"]
            if rr["ds"] == "drift" and case["k"] > 1:
                a, b = rr["finfo"], tr["finfo"]
                if (a is None or b is None or a[2] != b[2] or len(a[0]) != len(b[0]) or not all(feq(x, y) for x, y in zip(a[0], b[0]))
                        or not all(feq(x, y) for x, y in zip(a[1], b[1]))):
                    return [f"{where}: feature_info = {a!r}, the new detector reports {b!r}"]
            RUN["twin_rows_compared"] += 1
    return []


def run_impl(case):
    if case.get("hist"):
        try:
            cnt, edges = np.histogram(np.array(case["xs"], dtype=float), bins=case["n"], range=(case["lo"], case["hi"]))
        except ValueError:
            return {"raised": True}
        return {"counts": [int(c) for c in cnt], "edges": [float(e) for e in edges]}
    det = make(case)
    k = case["k"]
    calls = []
    inner = det.distance_function
    def logged(r, t):
        v = inner(r, t)
        calls.append(([int(x) for x in r], [int(x) for x in t], float(v)))
        return v
    det.distance_function = logged
    tlog = []
    rows = []
    with record_tppf(tlog):
        for i, (kind, bi) in enumerate(case["ops"]):
            np.random.seed(seed_of(case, i))
            c0, t0 = len(calls), len(tlog)
            tot0 = int(det.total_batches)
            X = batch(case, bi)
            err = None
            try:
                if kind == 1:
                    det.set_reference(X)
                else:
                    det.update(X)
            except ValueError as e:
                err = str(e)[:200]
            row = snap(det)
            ncores = row["total"] - tot0
            cs = calls[c0:]
            row["cores"] = [[[c[0], c[1], c[2]] for c in cs[j * k:(j + 1) * k]] for j in range(ncores)]
            row["nboot_calls"] = len(cs) - ncores * k
            row["tppf"] = [list(x) for x in tlog[t0:]]
            row["err"] = err
            rows.append(row)
    obs = {"rows": rows, "twins": twins(case, rows)}
    # a DataFrame batch whose columns are the reference's in another order: it must not be compared feature-by-position
    # (the detector refuses it); probed after the run so that the history above is unaffected
    if case.get("container") == "df" and k >= 2 and rows and rows[-1]["err"] is None:
        X = batch(case, case["ops"][-1][1])
        Xp = X[list(X.columns[1:]) + [X.columns[0]]]
        before = snap(det)
        try:
            det.update(Xp)
            obs["perm_probe"] = {"raised": False, "distance": fl(getattr(det, "current_distance", None)), "total": [before["total"], int(det.total_batches)]}
        except ValueError:
            obs["perm_probe"] = {"raised": True, "total": [before["total"], int(det.total_batches)]}
    # side experiments for the distance axioms: identity and symmetry
    side = []
    for a, b in case.get("side", []):
        A, B = case["batches"][a], case["batches"][b]
        rec = {"a": a, "b": b, "same": pair_distance(case, A, [list(r) for r in A])}
        if len(A) == len(B):
            rec["ab"] = pair_distance(case, A, B)
            rec["ba"] = pair_distance(case, B, A)
        side.append(rec)
    obs["side"] = side
    return obs


# ------------------------------------------------------------------ exact recomputation
def dsqrt(fr):
    return (Decimal(fr.numerator) / Decimal(fr.denominator)).sqrt()


def hellinger_exact(r, t):
    R, T = sum(r), sum(t)
    s = Decimal(0)
    for a, b in zip(r, t):
        s += dsqrt(Fraction(a, R) * Fraction(b, T))
    v = Decimal(2) - 2 * s
    return (v if v > 0 else Decimal(0)).sqrt()


def js_exact(r, t):
    R, T = sum(r), sum(t)
    acc = Decimal(0)
    for a, b in zip(r, t):
        p, q = Fraction(a, R), Fraction(b, T)
        m = (p + q) / 2
        for x in (p, q):
            if x > 0:
                acc += (Decimal(x.numerator) / Decimal(x.denominator)) * ((Decimal(x.numerator) / Decimal(x.denominator)).ln()
                                                                         - (Decimal(m.numerator) / Decimal(m.denominator)).ln())
    v = acc / 2
    return (v if v > 0 else Decimal(0)).sqrt()


def semantic_hist(col, edges):
    """declarative histogram: edges[i] <= x < edges[i+1], last bin closed"""
    n = len(edges) - 1
    out = [0] * n
    for x in col:
        if x < edges[0] or x > edges[-1]:
            continue
        i = bisect.bisect_right(edges, x) - 1
        out[min(i, n - 1)] += 1
    return out


def expected_hists(ref, X, bins, k):
    hs = []
    for f in range(k):
        both = np.concatenate((ref[:, f], X[:, f]))
        mn, mx = both.min(), both.max()
        rh, e1 = np.histogram(ref[:, f], bins=bins, range=(mn, mx))
        th, e2 = np.histogram(X[:, f], bins=bins, range=(mn, mx))
        hs.append(([int(v) for v in rh], [int(v) for v in th], [float(v) for v in e1], [float(v) for v in e2]))
    return hs


def close(v, exact, tol):
    return abs(Decimal(float(v)) - Decimal(exact)) <= Decimal(tol) * (1 + abs(Decimal(exact)))


def boot_expected(case, ref, ref_n, bins, mins, maxes, step, divf):
    """independent re-implementation of the bootstrap estimate under the same seed"""
    p = case["params"]
    k = case["k"]
    ns = p["subsets"]
    np.random.seed(seed_of(case, step))
    size = int((1 - (1 / ns)) * ref_n)
    df = pd.DataFrame(ref)
    hist = []
    for _ in range(ns):
        sub = df.sample(n=size, replace=True).to_numpy()
        hist.append([[int(v) for v in np.histogram(sub[:, f], bins=bins, range=(mins[f], maxes[f]))[0]] for f in range(k)])
    ds = []
    for i in range(ns):
        for j in range(i + 1, ns):
            ds.append(sum((divf(hist[i][f], hist[j][f]) for f in range(k)), Decimal(0)))
    e = Decimal(0)
    for i in range(len(ds)):
        for j in range(i + 1, len(ds)):
            e += abs(ds[i] - ds[j])
    return e / ns


def exact_divergence(case):
    div = case["params"]["divergence"]
    if div == "H":
        return hellinger_exact, TOL_H
    if div == "KL":
        return js_exact, TOL_JS
    f = CUSTOM[div.split(":", 1)[1]]
    return (lambda r, t: Decimal(float(f(np.array(r), np.array(t))))), 0.0


# ------------------------------------------------------------------ direct property check (no model)
def direct_check(case, obs):
    if "__exception__" in obs:
        return [f"{case.get('det', 'np.histogram')} raised {obs['__exception__']}: {obs['__message__']}"]
    if case.get("hist"):
        if obs.get("raised"):
            return []
        xs, e = case["xs"], obs["edges"]
        if semantic_hist(xs, e) != obs["counts"]:
            return [f"np.histogram counts {obs['counts']} differ from the half-open-bin reading of its edges {e}"]
        if sum(obs["counts"]) != sum(1 for x in xs if e[0] <= x <= e[-1]):
            return ["np.histogram counts do not add up to the number of points in the range"]
        return []
    p, k = case["params"], case["k"]
    db, stat, sig = p["detect_batch"], p["statistic"], p["significance"]
    divname = p["divergence"]
    divf, tol = exact_divergence(case)
    bound = SQRT2 if divname == "H" else SQRTLN2 if divname == "KL" else None
    B = [np.array(b, dtype=float).reshape(len(b), k) for b in case["batches"]]
    # specification state
    ref = None; ref_n = None; bins = None; eps = []; prev = None; prev_fd = None
    total = 0; since = 0; ds = None; lam = 0
    distances, epsv, thr = {}, {}, {}
    feps = None; finfo = None; cur = None; beta_attr = None
    segs = []
    # dtype bookkeeping (coverage counters only: the specification itself works on the caller's values as doubles)
    ref_dt = None; narrowed = None; narrow_dt = None

    def core(X, xi, cobs, row, step, proxy):
        """one pass of update() proper; cobs = the logged divergence calls of this pass"""
        nonlocal ref, ref_n, bins, eps, prev, prev_fd, total, since, ds, lam, feps, finfo, cur, beta_attr, segs, ref_dt, narrowed, narrow_dt
        total += 1; since += 1
        xdt = ref_dt if proxy else held_dtype(dtype_of(case, xi[0]))
        if narrowed is not None:
            # what the reference would hold had the appended batches been kept in the reference's earlier, narrower dtype
            RUN["updates_on_a_reference_widened_in_the_epoch"] += 1
            if any(expected_hists(narrowed, X, bins, k)[f][0] != expected_hists(ref, X, bins, k)[f][0] for f in range(k)):
                RUN["of_these_with_truncation_changing_a_histogram"] += 1
        RUN["updates"] += 1; RUN["proxy_batches"] += 1 if proxy else 0
        where = f"step {step}{' (proxy batch)' if proxy else ''}"
        if len(cobs) != k:
            return [f"{where}: {len(cobs)} divergence evaluations for {k} features"]
        exp = expected_hists(ref, X, bins, k)
        fds = []
        for f in range(k):
            rh, th, e1, e2 = exp[f]
            RUN["degenerate_ranges"] += 1 if float(np.concatenate((ref[:, f], X[:, f])).min()) == float(np.concatenate((ref[:, f], X[:, f])).max()) else 0
            if e1 != e2:
                return [f"{where}: feature {f}: reference and test histograms are built on different edges"]
            if len(rh) != bins or bins != math.isqrt(ref_n):
                return [f"{where}: feature {f}: {len(rh)} bins, floor(sqrt(reference size {ref_n})) = {math.isqrt(ref_n)}"]
            if [cobs[f][0], cobs[f][1]] != [rh, th]:
                return [f"{where}: feature {f}: the divergence was evaluated on histograms {cobs[f][0]} / {cobs[f][1]}, "
                        f"np.histogram over the common range with {bins} bins gives {rh} / {th}"]
            if semantic_hist(ref[:, f], e1) != rh or semantic_hist(X[:, f], e1) != th:
                return [f"{where}: feature {f}: np.histogram counts differ from the half-open-bin reading of its own edges"]
            if sum(rh) != len(ref) or sum(th) != len(X):
                return [f"{where}: feature {f}: histogram counts {sum(rh)}/{sum(th)} do not add up to the sizes {len(ref)}/{len(X)}"]
            v = cobs[f][2]
            ex = divf(rh, th)
            if not close(v, ex, tol):
                return [f"{where}: feature {f}: distance {v!r} differs from the exact value {float(ex)!r} of the divergence of the two histograms"]
            if bound is not None and not (0.0 <= v <= bound * (1 + 1e-12)):
                return [f"{where}: feature {f}: distance {v!r} outside [0, {bound!r}]"]
            fds.append(v)
        # average over features, in the code's float order (oracle values in, plain IEEE arithmetic)
        td = 0
        for v in fds:
            td = td + np.float64(v)
        c = float((1 / k) * td)
        cur = c
        distances[total] = c
        if bound is not None and not (0.0 <= c <= bound * (1 + 1e-12)):
            return [f"{where}: distance {c!r} outside [0, {bound!r}]"]
        if since > 1:          # otherwise the attribute keeps its previous value
            feps = [float(np.float64(a) - np.float64(b)) for a, b in zip(fds, prev_fd)]
        drift = False
        if since >= 2:
            if since == 2 and db != 3:
                boot = row["epsl"][0] if row["epsl"] else None
                if boot is None:
                    return [f"{where}: no bootstrap estimate in detector.epsilon"]
                bmins = [float(np.concatenate((ref[:, f], X[:, f])).min()) for f in range(k)]
                bmaxs = [float(np.concatenate((ref[:, f], X[:, f])).max()) for f in range(k)]
                bex = boot_expected(case, ref, ref_n, bins, bmins, bmaxs, step, divf)
                if not close(boot, bex, TOL_BOOT):
                    return [f"{where}: bootstrap estimate {boot!r}, independent recomputation under the same seed {float(bex)!r}"]
                RUN["bootstrap_estimates_validated"] += 1
                eps.append(boot)
            ce = float(abs(np.float64(c) - np.float64(prev)) * 1.0)
            eps.append(ce)
            epsv[total] = ce
            gate = since >= (3 if db == 3 else 2)
            if gate:
                if since == 3 and db != 3:
                    eps = eps[1:]
                if since == 2 and db != 3:
                    d = 1
                else:
                    d = since - 1
                E = [Fraction(e) for e in eps[:-1]]
                eh = sum(E, Fraction(0)) / d
                var = sum(((e - eh) ** 2 for e in E), Fraction(0)) / d
                sd = dsqrt(var)
                ehd = Decimal(eh.numerator) / Decimal(eh.denominator)
                if stat == "tstat":
                    df_ = ref_n + len(X) - 2
                    tv = float(scipy.stats.t.ppf(1 - (sig / 2), df_))
                    if not any(t is not None and t[1] == df_ and feq(t[0], 1 - (sig / 2)) for t in row["tppf"]):
                        return [f"{where}: the t quantile was not requested at level 1 - significance/2 with "
                                f"reference_n + test_n - 2 = {df_} degrees of freedom: {row['tppf']}"]
                    bex = ehd + Decimal(tv) * sd / Decimal(d).sqrt()
                else:
                    bex = ehd + Decimal(float(sig)) * sd
                b = (row["thr"] and dict(map(tuple, row["thr"])).get(total))
                if b is None or b is False:
                    return [f"{where}: no threshold recorded for batch {total} although batches_since_reset = {since} >= detect threshold"]
                if not close(b, bex, TOL_BETA):
                    return [f"{where}: threshold {b!r}, the documented mean-plus-scaled-deviation of the epoch's epsilons {eps[:-1]} is {float(bex)!r}"]
                thr[total] = b
                beta_attr = b
                drift = ce > b
                RUN["thresholds"] += 1
                RUN["exact_ties_eps_eq_beta"] += 1 if ce == b else 0
                RUN["near_ties_1e-12"] += 1 if ce != b and abs(ce - b) <= 1e-12 * (1 + abs(b)) else 0
        if drift:
            RUN["drifts"] += 1
            if k > 1:
                m = max(feps)
                finfo = [list(feps), list(fds), feps.index(m)]
            ds = "drift"
            ref = X; segs = [[xi[0], xi[1], xi[2]]]
            lam = total
            ref_dt = xdt; narrowed = None
        else:
            prev = c; prev_fd = fds
            wide = np.result_type(ref_dt, xdt)
            if wide != ref_dt or narrowed is not None:
                RUN["appends_of_a_wider_dtype_than_the_reference"] += 1 if wide != ref_dt else 0
                if narrowed is None:
                    narrowed, narrow_dt = ref, ref_dt
                narrowed = np.concatenate((narrowed, X.astype(narrow_dt).astype(float)))
            ref_dt = wide
            ref = np.concatenate((ref, X)); segs = segs + [[xi[0], xi[1], xi[2]]]
            ref_n = len(ref); bins = math.isqrt(ref_n)
        return []

    def reset(step, row):
        nonlocal ref, ref_n, bins, eps, since, ds, segs
        since = 0; ds = None
        proxy = None
        if db == 1:
            h = int(len(ref) / 2)
            # the reference is one input batch here (set_reference / the drifted batch)
            bi = segs[0][0]
            proxy = (ref[h:], [bi, h, len(ref)])
            ref = ref[:h]; segs = [[bi, 0, h]]
        ref_n = len(ref); bins = math.isqrt(ref_n); eps = []
        return proxy

    pp = obs.get("perm_probe")
    if pp is not None and not pp["raised"]:     # (a pending reset after a drift may legitimately run before the refusal)
        return [f"a DataFrame batch with the reference's columns in another order was accepted and processed by position "
                f"(total_batches {pp['total'][0]} -> {pp['total'][1]}, recorded distance {pp.get('distance')!r})"]
    for step, ((kind, bi), row) in enumerate(zip(case["ops"], obs["rows"])):
        X = B[bi]
        where = f"step {step}"
        if kind == 1 and db == 1 and len(X) < 3:
            if row["err"] is None:
                return [f"{where}: set_reference accepted a {len(X)}-row reference with detect_batch=1"]
            RUN["rejected_set_reference"] += 1
        else:
            if row["err"] is not None:
                return [f"{where}: unexpected ValueError: {row['err']}"]
            cores = row["cores"]
            ci = 0
            if kind == 1:
                ref = X; segs = [[bi, 0, len(X)]]; lam = total
                ref_dt = held_dtype(dtype_of(case, bi)); narrowed = None
                pr = reset(step, row)
            else:
                pr = reset(step, row) if ds == "drift" else None
            if pr is not None:
                if ci >= len(cores):
                    return [f"{where}: the proxy batch of detect_batch=1 was not processed (total_batches {row['total']})"]
                m = core(pr[0], pr[1], cores[ci], row, step, True); ci += 1
                if m:
                    return m
            if kind == 0:
                if ci >= len(cores):
                    return [f"{where}: total_batches did not advance"]
                m = core(X, [bi, 0, len(X)], cores[ci], row, step, False); ci += 1
                if m:
                    return m
            if ci != len(cores):
                return [f"{where}: total_batches advanced by {len(cores)}, specification says {ci}"]
        # ---- compare every public observable with the specification state
        exp = {"ds": ds, "total": total, "since": since, "ref_n": ref_n, "cur": cur, "beta": beta_attr,
               "feps": feps, "finfo": finfo}
        for name, v in exp.items():
            got = row[name]
            same = (got == v) if not isinstance(v, float) else feq(got, v)
            if isinstance(v, list) and got is not None and name in ("feps",):
                same = len(got) == len(v) and all(feq(a, b) for a, b in zip(got, v))
            if name == "finfo" and v is not None and got is not None:
                same = (len(got[0]) == len(v[0]) and all(feq(a, b) for a, b in zip(got[0], v[0]))
                        and len(got[1]) == len(v[1]) and all(feq(a, b) for a, b in zip(got[1], v[1])) and got[2] == v[2])
            if not same:
                return [f"{where}: {name} = {got!r}, specification says {v!r}"]
        if row["epsl"] is None or len(row["epsl"]) != len(eps) or not all(feq(a, b) for a, b in zip(row["epsl"], eps)):
            return [f"{where}: epsilon list {row['epsl']}, specification says {eps}"]
        for name, d in (("dists", distances), ("epsv", epsv), ("thr", thr)):
            got = row[name]
            if got is None or [g[0] for g in got] != list(d.keys()) or not all(feq(g[1], v) for g, v in zip(got, d.values())):
                return [f"{where}: record {name} = {got}, specification says {list(d.items())}"]
        if row["ref_shape"] != [len(ref), k] or row["ref_sha"] != sha(ref):
            return [f"{where}: reference content differs from the specification (shape {row['ref_shape']}, expected {[len(ref), k]}: "
                    f"{'drifted batch' if ds == 'drift' else 'previous reference followed by the batch'})"]
        if row["lam"] is not None and row["lam"] != lam:
            return [f"{where}: _lambda = {row['lam']}, specification says {lam}"]
        if row["bins"] is not None and row["bins"] != bins:
            return [f"{where}: _bins = {row['bins']}, floor(sqrt(reference_n)) at the last refresh is {bins}"]
        if case.get("container") == "df" and row["ref_cols"] is not None and row["ref_cols"] != [f"c{j}" for j in range(k)]:
            return [f"{where}: reference columns {row['ref_cols']}"]
    # ---- clean slate: the running detector against new detectors started on the drifted batches
    m = check_twins(case, obs)
    if m:
        return m
    # ---- distance axioms on the side experiments
    sym_tol = 1e-12
    for s in obs.get("side", []):
        if not (abs(s["same"]) <= 1e-12):
            return [f"distance of batch {s['a']} to an identical reference is {s['same']!r}, not 0"]
        RUN["side_identity"] += 1
        if "ab" in s:
            if not (abs(s["ab"] - s["ba"]) <= sym_tol * (1 + abs(s["ab"]))):
                return [f"distance not symmetric for equal sizes: d(ref={s['a']}, test={s['b']}) = {s['ab']!r}, swapped {s['ba']!r}"]
            RUN["side_symmetry"] += 1
            RUN["side_symmetry_bit_exact"] += 1 if feq(s["ab"], s["ba"]) else 0
    return []


# ------------------------------------------------------------------ Coq side
def hx(x):
    """compact exact literal of a double, to be read in float_scope"""
    x = float(x)
    if math.isnan(x):
        return "nan"
    if math.isinf(x):
        return "infinity" if x > 0 else "neg_infinity"
    if x == 0.0:
        return "(-0)" if math.copysign(1.0, x) < 0 else "0"
    h = x.hex()
    neg = h.startswith("-")
    h = h.lstrip("-")
    mant, ex = h.split("p")
    if "." in mant:
        mant = mant.rstrip("0").rstrip(".")
    s = mant + "p" + ex
    return f"(-{s})" if neg else s


def F1(x):
    return f"({hx(x)})%float"


def FL(xs):
    return "[" + "; ".join(hx(x) for x in xs) + "]%float"


def optF(x):
    return "None" if x is None else f"(Some {F1(x)})"


def optFL(x):
    return "None" if x is None else f"(Some {FL(x)})"


def kvs(d):
    return G.lst([f"({G.z(a)}, {F1(b)})" for a, b in d])


def pow_exceptions(args, table):
    for x in args:
        x = float(x)
        if math.isnan(x) or math.isinf(x):
            continue
        v = math.pow(x, 2.0)
        if v != x * x:
            table[x] = v


def hellinger_args(r, t):
    r = np.array(r, dtype=np.int64); t = np.array(t, dtype=np.int64)
    rl, tl = sum(r), sum(t)
    return [np.sqrt(t[b] / tl) - np.sqrt(r[b] / rl) for b in range(len(r))]


def segments(case, obs):
    """reference content after every call as slices (batch, from, to) of the input batches, following the observed states"""
    db = case["params"]["detect_batch"]
    segs, out, prev_ds = [], [], None
    for (kind, bi), row in zip(case["ops"], obs["rows"]):
        n = len(case["batches"][bi])
        if row["err"] is None:
            if kind == 1:
                segs = [[bi, 0, n // 2], [bi, n // 2, n]] if db == 1 else [[bi, 0, n]]
            else:
                if prev_ds == "drift" and db == 1 and len(segs) == 1:
                    b0, _, n0 = segs[0]
                    segs = [[b0, 0, n0 // 2], [b0, n0 // 2, n0]]
                segs = [[bi, 0, n]] if row["ds"] == "drift" else segs + [[bi, 0, n]]
            prev_ds = row["ds"]
        out.append([list(g) for g in segs])
    return out


def coq_term(case, obs):
    if "__exception__" in obs:
        return "false"
    if case.get("hist"):
        if obs.get("raised"):
            return None
        return (f"chk_hist {FL(case['xs'])} {case['n']} {F1(case['lo'])} {F1(case['hi'])} {G.zlist(obs['counts'])} {FL(obs['edges'])}")
    p, k = case["params"], case["k"]
    allsegs = segments(case, obs)
    db = p["detect_batch"]
    mode = 0 if p["divergence"] == "H" else 1
    sqt, dt, tt = {}, {}, {}
    ops, exps = [], []
    B = [np.array(b, dtype=float).reshape(len(b), k) for b in case["batches"]]
    for (kind, bi), row, segs in zip(case["ops"], obs["rows"], allsegs):
        content = np.concatenate([B[i][a:z] for i, a, z in segs]) if segs else np.zeros((0, k))
        if row["ref_sha"] != sha(content) or row["ref_shape"] != [len(content), k]:
            return "false"          # the reference is not made of these slices of the inputs: the model cannot reproduce it
        boot = 0.0
        if kind == 0 and row["since"] == 2 and db != 3 and row["epsl"]:
            boot = row["epsl"][0]
        ops.append(f"({kind}, {bi}, {F1(boot)})")
        for c in row["cores"]:
            for rh, th, v in c:
                if mode == 0:
                    pow_exceptions(hellinger_args(rh, th), sqt)
                else:
                    dt[(tuple(rh), tuple(th))] = v
        # arguments of ** 2 inside _adaptive_threshold
        if row["thr"] and row["thr"][-1][0] == row["total"] and row["epsl"]:
            since = row["since"]
            d = 1 if (since == 2 and db != 3) else since - 1
            if d >= 1:
                eh = (1 / d) * np.float64(row["tot"])
                pow_exceptions([np.float64(e) - eh for e in row["epsl"][:-1]], sqt)
        for t in row["tppf"]:
            if t is not None:
                tt[t[1]] = t[2]
        hists = None
        if row["cores"]:
            hists = G.lst([f"({G.zlist(c[0])}, {G.zlist(c[1])})" for c in row["cores"][-1]])
        fi = row["finfo"]
        finfo = "None" if fi is None else f"(Some ({FL(fi[0])}, {FL(fi[1])}, {G.z(fi[2])}))"
        exps.append("mk_hexp " + " ".join([
            G.ds(row["ds"]), G.z(row["total"]), G.z(row["since"]), G.z(row["ref_n"] if row["ref_n"] is not None else -1),
            G.optz(row["lam"]), G.optz(row["bins"]), optF(row["cur"]), optF(row["beta"]),
            FL(row["epsl"] or []), F1(row["tot"] if row["tot"] is not None else float("nan")),
            optFL(row["feps"]), finfo, kvs(row["dists"] or []), kvs(row["epsv"] or []), kvs(row["thr"] or []),
            "None" if hists is None else f"(Some {hists})",
            G.lst([f"({a}, {b}, {c})" for a, b, c in segs]), optF(row["prev"])]))
    RUN["pow_exceptions"] += len(sqt)
    for x, v in sqt.items():
        if not (abs(v - x * x) <= math.ulp(x * x)):
            return "false"
    orc = (f"(mk_orc {mode} {G.lst([f'({F1(x)}, {F1(v)})' for x, v in sqt.items()])} "
           f"{G.lst([f'({G.zlist(r)}, {G.zlist(t)}, {F1(v)})' for (r, t), v in dt.items()])} "
           f"{G.lst([f'({G.z(df)}, {F1(v)})' for df, v in tt.items()])})")
    batches = "[" + ";\n ".join("[" + "; ".join("[" + "; ".join(hx(v) for v in r) + "]" for r in b) + "]" for b in case["batches"]) + "]%float"
    return (f"chk_hdm {db} {G.boolc(p['statistic'] == 'tstat')} {F1(p['significance'])} {k} {orc}\n {batches}\n "
            f"{G.lst(ops)}\n {G.lst(['(' + e + ')' for e in exps])}")


def show_term(case, obs):
    t = coq_term(case, obs)
    if case.get("hist"):
        return f"(@histogram NumFloat ftruncZ {FL(case['xs'])} {case['n']} {F1(case['lo'])} {F1(case['hi'])}, @hist_edges NumFloat {case['n']} {F1(case['lo'])} {F1(case['hi'])})"
    return t.replace("chk_hdm", "show_hdm", 1)


def nontrivial(case, obs):
    if case.get("hist"):
        return "edges" in obs and any(x in obs["edges"][1:-1] for x in case["xs"])
    rows = obs.get("rows", [])
    dr = [i for i, r in enumerate(rows) if r.get("ds") == "drift"]
    return bool(dr) and dr[0] < len(rows) - 1


def signature(case, obs, msgs):
    if case.get("hist"):
        return {"det": "np.histogram"}
    return {"det": case.get("det"), "detect_batch": case.get("params", {}).get("detect_batch"),
            "min_rows": min((len(b) for b in case.get("batches", [[]])), default=0)}


def shrink_candidates(case):
    if case.get("hist"):
        xs = case["xs"]
        for i in range(len(xs)):
            yield dict(case, xs=xs[:i] + xs[i + 1:])
        return
    ops = case["ops"]
    if len(ops) > 2:
        yield dict(case, ops=ops[:-1])
        yield dict(case, ops=ops[:1 + (len(ops) - 1) // 2])
        for i in range(1, len(ops)):
            yield dict(case, ops=ops[:i] + ops[i + 1:])
    if case.get("side"):
        yield dict(case, side=[])
    if case.get("container") == "df":
        yield dict(case, container="array")
    if case.get("dtypes"):
        yield {k_: v for k_, v in case.items() if k_ != "dtypes"}          # everything held as doubles
    # halve batches
    for bi, b in enumerate(case["batches"]):
        if len(b) > 6:
            nb = list(case["batches"]); nb[bi] = b[:len(b) // 2]
            yield dict(case, batches=nb)


# ------------------------------------------------------------------ generators
def gen_data(rng, kind, nb, k, sizes, pshift):
    """nb batches; returns list of batches (lists of rows)"""
    out = []
    mean = [0.0] * k
    sd = 1.0
    scale = rng.choice([1.0, 1.0, 1e-3, 1e4]) if kind == "float" else 1.0
    const_col = rng.randrange(k) if kind == "const" else None
    for b in range(nb):
        if b > 0 and rng.random() < pshift:
            if rng.random() < 0.7:
                j = rng.randrange(k)
                mean[j] += rng.choice([-3, -1.5, 1.5, 3, 6])
            else:
                sd = rng.choice([0.4, 1.0, 2.5])
        n = sizes[b]
        rows = []
        for _ in range(n):
            r = []
            for j in range(k):
                v = mean[j] + sd * rng.gauss(0, 1)
                if kind == "dyadic":
                    v = round(v * 4) / 4
                elif kind == "int":
                    v = float(round(v * 2))
                elif kind == "const" and j == const_col:
                    v = 2.5
                else:
                    v = v * scale
                r.append(float(v))
            rows.append(r)
        out.append(rows)
    return out


def gen_edges(rng, nb, k, sizes):
    """values on an integer grid 0..m with m a multiple of the bin count, so that many points sit exactly on bin edges"""
    out = []
    hi = rng.choice([8, 12, 16, 24])
    shift = 0
    for b in range(nb):
        if b > 0 and rng.random() < 0.3:
            shift = rng.choice([0, 2, 4])
        rows = [[float(min(hi, max(0, rng.randint(0, hi - shift) + shift))) for _ in range(k)] for _ in range(sizes[b])]
        # make sure both ends of the range are present so that the edges are the integers / simple dyadics
        rows[0] = [0.0] * k
        rows[-1] = [float(hi)] * k
        out.append(rows)
    return out


def gen_sizes(rng, nb, small):
    style = rng.random()
    if small:
        return [rng.choice([2, 3, 4, 5]) for _ in range(nb)]
    if style < 0.25:
        n = rng.choice([8, 16, 25, 36, 49, 64])
        return [n] * nb
    if style < 0.85:
        return [rng.randint(8, 60) for _ in range(nb)]
    return [rng.randint(8, 200) for _ in range(nb)]


def gen_one(ctx, idx):
    rng = ctx.rng
    det = "HDDDM" if rng.random() < 0.7 else "CDBD"
    k = rng.choice([1, 2, 2, 3, 4]) if det == "HDDDM" else 1
    stat = rng.choice(["tstat", "stdev"])
    if det == "HDDDM":
        div = "H" if rng.random() < 0.8 else "custom:" + rng.choice(sorted(CUSTOM))
    else:
        div = "KL" if rng.random() < 0.75 else "custom:" + rng.choice(sorted(CUSTOM))
    params = {"detect_batch": rng.choice([1, 2, 3]), "divergence": div, "statistic": stat,
              "significance": rng.choice([0.01, 0.05, 0.2, 0.3]) if stat == "tstat" else rng.choice([0.0, 0.5, 1.0, 2.0, 3.0]),
              "subsets": rng.choice([2, 3, 5, 6])}
    nb = rng.randint(5, 13)
    kind = rng.choice(["float", "float", "dyadic", "dyadic", "int", "const", "edges", "repeat"])
    small = rng.random() < 0.08
    sizes = gen_sizes(rng, nb, small)
    if small and params["detect_batch"] == 1:
        sizes = [max(3, s) for s in sizes]      # a 2-row batch that drifts cannot be split (see design note)
    if kind == "edges":
        batches = gen_edges(rng, nb, k, sizes)
    elif kind == "repeat":
        base = gen_data(rng, rng.choice(["float", "dyadic"]), 2, k, [sizes[0], sizes[0]], 0.0)
        batches = [[list(r) for r in base[0]] for _ in range(nb)]
        if rng.random() < 0.5:
            j = rng.randrange(2, nb)
            batches[j] = [[v + 4.0 for v in r] for r in base[1]]
    else:
        batches = gen_data(rng, kind, nb, k, sizes, rng.choice([0.0, 0.25, 0.4, 0.6]))
    ops = [[1, 0]] + [[0, i] for i in range(1, nb)]
    r = rng.random()
    if r < 0.2 and nb > 4:
        j = rng.randint(2, nb - 2)
        ops[j] = [1, ops[j][1]]                  # a mid-run set_reference
    elif r < 0.3 and params["detect_batch"] == 1:
        batches.append([[0.0] * k, [1.0] * k])     # rejected: too small to split
        ops.insert(rng.randint(1, len(ops) - 1), [1, len(batches) - 1])
    side = []
    eq = [(i, j) for i in range(len(batches)) for j in range(i + 1, len(batches))
          if len(batches[i]) == len(batches[j]) and len(batches[i]) >= 2]
    if eq and rng.random() < 0.6:
        side.append(list(rng.choice(eq)))
    elif rng.random() < 0.3:
        side.append([0, 0])
    return {"det": det, "params": params, "k": k, "batches": batches, "ops": ops, "seed": idx,
            "container": "df" if rng.random() < 0.25 else "array", "side": side, "kind": kind}


MIXED = ("int64>f64", "int32>f64", "f32>f64", "int64>any", "int32>int64>f64", "f64>narrow", "percol>f64", "same-int")
TINY = 2.0 ** -30


def mixed_rows(rng, dt, n, k, lo, hi, off):
    """n rows of values in [lo + off, hi + off], every one exactly representable in dtype dt.  Doubles are whole numbers,
    halves, generic fractions and whole numbers moved by a relative 2^-30 (below / above): kept as they are they fall into
    another histogram bin than after truncation to an integer or rounding to single precision"""
    rows = []
    for _ in range(n):
        r = []
        for _ in range(k):
            u = rng.random()
            if dt in ("int64", "int32"):
                v = float(rng.randint(lo, hi) + off)
            elif dt == "float32":
                g = rng.randint(lo, hi - 1) + off
                v = g + (0.0 if u < 0.3 else rng.choice([0.25, 0.5, 0.75]) if u < 0.6 else rng.random())
                v = float(np.float32(v))
            elif u < 0.25:
                v = rng.randint(lo, hi - 1) + off + rng.random()
            elif u < 0.45:
                v = rng.randint(lo, hi - 1) + off + 0.5
            elif u < 0.65:
                g = float(rng.randint(lo + 1, hi) + off)
                v = g - TINY * max(1.0, abs(g))
            elif u < 0.8:
                g = float(rng.randint(lo, hi - 1) + off)
                v = g + TINY * max(1.0, abs(g))
            else:
                v = float(rng.randint(lo, hi) + off)
            r.append(float(v) + 0.0)
        rows.append(r)
    return rows


def gen_mixed(ctx, idx):
    """reference and test batches held in different numeric dtypes (the pooled reference of the unchanged code is the
    concatenation upcast to the common type, i.e. the caller's values as doubles).  pattern x detect_batch x detector are
    enumerated by idx, the rest is drawn.  Single precision is only used where the code still computes in doubles: never for
    both operands of a histogram (not on consecutive calls, not for a reference that detect_batch=1 splits into reference and
    proxy batch) - np.histogram on two float32 operands builds float32 edges, which is outside the model's arithmetic"""
    rng = ctx.rng
    pat = MIXED[idx % len(MIXED)]
    db = 1 + (idx // len(MIXED)) % 3
    det = "HDDDM" if (idx // (3 * len(MIXED))) % 2 == 0 else "CDBD"
    k = rng.choice([1, 2, 2, 3]) if det == "HDDDM" else 1
    cont = "df" if (pat == "percol>f64" or rng.random() < 0.5) else "array"
    stat = "stdev" if rng.random() < 0.7 else "tstat"
    params = {"detect_batch": db, "divergence": "H" if det == "HDDDM" else "KL", "statistic": stat,
              "significance": rng.choice([0.01, 0.05]) if stat == "tstat" else rng.choice([2.0, 3.0, 50.0]),
              "subsets": rng.choice([2, 3, 5])}
    nb = rng.randint(6, 9)
    f32 = "float32" if db != 1 else "int32"
    anyd = ["int64", "int32", "float64", "float64", f32]
    if pat == "int64>f64":
        dts = ["int64"] + ["float64"] * (nb - 1)
    elif pat == "int32>f64":
        dts = ["int32"] + ["float64"] * (nb - 1)
    elif pat == "f32>f64":
        dts = [f32] + ["float64"] * (nb - 1)
    elif pat == "int64>any":
        dts = ["int64"] + [rng.choice(anyd) for _ in range(nb - 1)]
    elif pat == "int32>int64>f64":
        dts = ["int32", "int64"] + [rng.choice(["int64", "float64", "float64"]) for _ in range(nb - 2)]
    elif pat == "f64>narrow":
        dts = ["float64"] + [rng.choice(["int64", "int32", f32, "float64"]) for _ in range(nb - 1)]
    elif pat == "percol>f64":
        k = max(k, 2) if det == "HDDDM" else 1
        dts = [[rng.choice(["int64", "int32", f32]) for _ in range(k)]] + ["float64"] * (nb - 1)
    else:
        d = rng.choice(["int64", "int32"])
        dts = [d] * nb
    ops = [[1, 0]] + [[0, i] for i in range(1, nb)]
    if rng.random() < 0.3:
        j = rng.randint(3, nb - 2)
        ops[j] = [1, j]                          # a mid-run set_reference in a narrow dtype: a second epoch of the same kind
        dts[j] = rng.choice(["int64", "int32", f32])
        dts[j + 1] = "float64"
    single = lambda d: d == "float32" or (isinstance(d, list) and all(x == "float32" for x in d))
    for i in range(1, nb):
        if single(dts[i]) and single(dts[i - 1]):
            dts[i] = "float64"
    span = rng.choice([8, 12, 16, 24])
    lo = rng.choice([0, 0, -span // 2, 3])
    hi = lo + span
    shift_at = rng.randint(4, nb) if rng.random() < 0.6 else nb      # a level shift late in the run (or none)
    batches = []
    for b in range(nb):
        n = rng.randint(16, 64) if ops[b][0] == 1 else rng.randint(8, 50)
        off = rng.choice([span // 2, span]) if b >= shift_at else 0
        if isinstance(dts[b], list):
            cols = [mixed_rows(rng, d, n, 1, lo, hi, off) for d in dts[b]]
            rows = [[c[i][0] for c in cols] for i in range(n)]
        else:
            rows = mixed_rows(rng, dts[b], n, k, lo, hi, off)
        if ops[b][0] == 1 and rng.random() < 0.7:
            rows[0] = [float(lo + off)] * k          # both ends present: whole-number edges whenever the bin count divides the span
            rows[-1] = [float(hi + off)] * k
        batches.append(rows)
    return {"det": det, "params": params, "k": k, "batches": batches, "dtypes": dts, "ops": ops, "seed": 5000 + idx,
            "container": cont, "side": [], "kind": "dtypes:" + pat}


def two_pass(case):
    """stdev mode: set significance to (epsilon - mean) / deviation of some step of a first run, aiming at beta == epsilon"""
    obs = run_impl(case)
    db = case["params"]["detect_batch"]
    for row in obs["rows"]:
        if row["thr"] and row["thr"][-1][0] == row["total"] and row["since"] >= 3 and len(row["epsl"]) >= 2:
            d = row["since"] - 1
            eh = (1 / d) * np.float64(row["tot"])
            sd = np.sqrt(sum((np.float64(e) - eh) ** 2 for e in row["epsl"][:-1]) / d)
            ce = np.float64(row["epsl"][-1])
            if sd > 0 and ce > eh:
                return dict(case, params=dict(case["params"], significance=float((ce - eh) / sd)), kind=case["kind"] + "+twopass")
    return None


def gen_cases(ctx):
    cases = []
    n = ctx.scale(170, 1500)
    for i in range(n):
        cases.append(gen_one(ctx, i))
    # two-pass boundary cases
    extra = []
    for c in cases:
        if len(extra) >= ctx.scale(8, 80):
            break
        if c["params"]["statistic"] == "stdev" and c["kind"] in ("float", "dyadic", "int"):
            try:
                c2 = two_pass(c)
            except Exception:
                c2 = None
            if c2 is not None:
                extra.append(c2)
    cases += extra
    st = ctx.stats
    hc = gen_hist_cases(ctx)
    st["np_histogram_only_cases"] = len(hc)
    # drawn after everything else: the cases above are the same as before for a given seed
    cases += [gen_mixed(ctx, i) for i in range(ctx.scale(48, 480))]
    for c in cases:
        for key in (c["det"], "db=%d" % c["params"]["detect_batch"], c["params"]["statistic"], "div=" + c["params"]["divergence"],
                    "k=%d" % c["k"], "kind=" + c["kind"], c["container"]):
            st[key] = st.get(key, 0) + 1
        st["mid_set_reference"] = st.get("mid_set_reference", 0) + (1 if any(o[0] == 1 for o in c["ops"][1:]) else 0)
        if c.get("dtypes"):
            st["mixed_dtype_cases"] = st.get("mixed_dtype_cases", 0) + 1
            for d in {str(held_dtype(x)) for x in c["dtypes"]}:
                st["cases_with_" + d] = st.get("cases_with_" + d, 0) + 1
    st["rows_min"] = min(len(b) for c in cases for b in c["batches"])
    st["rows_max"] = max(len(b) for c in cases for b in c["batches"])
    return cases + hc


def gen_hist_cases(ctx):
    """np.histogram alone against Hist.v: points on edges and next to them, degenerate ranges, extreme scales, partial ranges"""
    rng = ctx.rng
    out = []
    for i in range(ctx.scale(400, 4000)):
        n = rng.choice([1, 2, 3, 4, 5, 7, 10, 16, 31])
        m = rng.randint(1, 40)
        style = rng.random()
        if style < 0.3:
            lo, hi = 0.0, float(n * rng.choice([1, 2, 3]))
            xs = [float(rng.randint(-1, int(hi) + 1)) for _ in range(m)]
        elif style < 0.5:
            lo = rng.uniform(-5, 5); hi = lo + rng.uniform(0, 3)
            e = [float(v) for v in np.linspace(lo, hi, n + 1)]
            pool = e + [float(np.nextafter(v, 9e9)) for v in e] + [float(np.nextafter(v, -9e9)) for v in e]
            xs = [rng.choice(pool) for _ in range(m)]
        elif style < 0.6:
            lo = hi = rng.choice([0.0, 1.5, -3.25, 1e10])
            xs = [lo + rng.choice([0.0, 0.5, -0.5, 0.25, 1.0]) for _ in range(m)]
        else:
            sc = rng.choice([1.0, 1e-300, 1e15, 1e-8])
            xs = [rng.gauss(0, 1) * sc for _ in range(m)]
            lo, hi = min(xs), max(xs)
            if rng.random() < 0.3:
                lo, hi = lo + (hi - lo) * 0.1, hi - (hi - lo) * 0.2
        if not (lo <= hi):
            continue
        out.append({"hist": True, "xs": xs, "n": n, "lo": lo, "hi": hi})
    return out


def extra(ctx):
    """what the generated histories actually reached (counted by the direct check while it ran)"""
    return {"reached": dict(RUN)}


def two_row_drift_witness():
    """Open finding HDM-proxy-rows-drift (recorded under C14), seen through this property: with detect_batch=1 a drift
    reported on a 2-row batch makes the next update raise from reset() (the proxy half has one row), leaves the reference
    truncated to 1 row with batches_since_reset = 0, and the batch of the failing call is lost.  Not generated by
    gen_cases (batches on which detect_batch=1 may drift have >= 3 rows); returns the observed behaviour."""
    np.random.seed(0)
    d = HDDDM(detect_batch=1, statistic="stdev", significance=0.0, subsets=2)
    d.set_reference(np.array([[0.], [1.], [2.], [3.]]))
    d.update(np.array([[10.], [11.]]))
    out = {"after_drift": [d.drift_state, int(d.total_batches), int(d.batches_since_reset)]}
    try:
        d.update(np.array([[10.], [11.], [12.]]))
        out["next_update"] = "accepted"
    except ValueError as e:
        out["next_update"] = "ValueError: " + str(e)
    out["then"] = [d.drift_state, int(d.total_batches), int(d.batches_since_reset), int(d.reference_n), len(d.reference)]
    return out
