"""C13 — elections: exhaustive correspondence + direct rule check."""
import itertools
from menelaus.ensemble import election as E
from . import coqgen as G

ID = "C13"
PROPS = ["Prop_C13"]
IMPORTS = "From MV Require Import Base Election."
LEVEL = "proof"
CORR_NAME = "Corr_C13: Election.v (simple_majority/min_approval/ordered_approval/confirmed_run) = election.py"
TRUSTED = ["Coq 8.16.1 kernel + vm_compute", "hand-written model coq/Election.v tied to election.py by this exhaustive comparison",
           "harness/c13.py, harness/coqgen.py (literal printer)", "theorems: Closed under the global context"]
RULE = ("exhaustive: every state vector in {None,warning,drift}^n (n<=5 quick, <=6 thorough) x every parameter in -1..n+1 "
        "(grouped: one case per election kind x n x parameter tuple); ConfirmedElection: breadth-first search of all reachable "
        "counter vectors, each extended by every state vector (one case per call history). Non-trivial: the results of the case "
        "contain drift and non-drift verdicts (grouped cases) / some member was waiting during the history (ConfirmedElection).")
STATES = [None, "warning", "drift"]


class Det:
    def __init__(self, s):
        self.drift_state = s


def vectors(n):
    return [list(v) for v in itertools.product(STATES, repeat=n)]


def make(case):
    k = case["kind"]
    if k == "maj":
        return E.SimpleMajorityElection()
    if k == "min":
        return E.MinimumApprovalElection(case["a"])
    if k == "ord":
        return E.OrderedApprovalElection(case["a"], case["c"])
    return E.ConfirmedElection(case["s"], case["w"])


def gen_cases(ctx):
    cases = []
    nmax = ctx.scale(5, 6)
    for n in range(0, nmax + 1):
        vs = vectors(n)
        cases.append({"kind": "maj", "n": n, "vectors": vs})
        for a in range(-1, n + 2):
            cases.append({"kind": "min", "n": n, "a": a, "vectors": vs})
            for c in range(-1, n + 2):
                cases.append({"kind": "ord", "n": n, "a": a, "c": c, "vectors": vs})
    # ConfirmedElection: explicit-state exploration on the implementation
    nconf = 0
    for n, waits, senss in ([(1, range(0, 4), range(0, 3)), (2, range(0, 4), range(0, 4)), (3, range(0, 3), range(1, 4))]
                            + ([(3, [3], range(0, 5)), (4, [1, 2], [1, 2, 3])] if ctx.thorough else [])):
        vs = vectors(n)
        for w in waits:
            for s in senss:
                # BFS over counter vectors
                start = tuple([0] * n)
                paths = {start: []}
                frontier = [start]
                while frontier:
                    nxt = []
                    for st in frontier:
                        for v in vs:
                            el = E.ConfirmedElection(s, w)
                            for call in paths[st] + [v]:
                                el([Det(x) for x in call])
                            cs = tuple(el.wait_period_counters)
                            cases.append({"kind": "conf", "n": n, "s": s, "w": w, "calls": paths[st] + [v]})
                            nconf += 1
                            if cs not in paths:
                                paths[cs] = paths[st] + [v]; nxt.append(cs)
                    frontier = nxt
                ctx.stats[f"conf_reachable_states_n{n}_w{w}_s{s}"] = len(paths)
    # random long histories
    for _ in range(ctx.scale(200, 2000)):
        n = ctx.rng.randint(1, 6)
        calls = [[ctx.rng.choice(STATES + ["drift"]) for _ in range(n)] for _ in range(ctx.rng.randint(5, 40))]
        cases.append({"kind": "conf", "n": n, "s": ctx.rng.randint(0, n + 1), "w": ctx.rng.randint(0, 5), "calls": calls})
    ctx.stats["conf_histories_from_bfs"] = nconf
    return cases


def run_impl(case):
    if case["kind"] == "conf":
        el = make(case)
        out = []
        for call in case["calls"]:
            r = el([Det(x) for x in call])
            out.append([r, list(el.wait_period_counters)])
        return {"trace": out}
    el = make(case)
    return {"results": [el([Det(x) for x in v]) for v in case["vectors"]]}


def rule(case, v):
    """the documented voting rule; None = outside the documented parameter range"""
    k = sum(1 for x in v if x == "drift")
    if case["kind"] == "maj":
        return 2 * k > len(v)
    if case["kind"] == "min":
        return (k >= case["a"]) if case["a"] >= 1 else None
    a, c = case["a"], case["c"]
    return (k >= a + c) if (a >= 0 and c >= 0 and a + c >= 1) else None


def direct_check(case, obs):
    if "__exception__" in obs:
        return [f"election raised {obs['__exception__']}: {obs['__message__']}"]
    msgs = []
    if case["kind"] == "conf":
        s, w = case["s"], case["w"]
        rem = [0] * case["n"]          # remaining non-warning calls in which the member still votes
        for t, (call, (ret, cnts)) in enumerate(zip(case["calls"], obs["trace"])):
            nd = nw = 0
            for i, st in enumerate(call):
                if rem[i] == 0:
                    if st == "drift":
                        nd += 1; rem[i] = w
                    elif st == "warning":
                        nw += 1
                else:
                    if st == "warning":
                        nw += 1
                    else:
                        nd += 1; rem[i] -= 1
            exp = "drift" if nd >= s else "warning" if nd + nw >= s else None
            if ret != exp:
                msgs.append(f"call {t}: verdict {ret!r}, waiting rule gives {exp!r} (voters {nd}, warnings {nw}, sensitivity {s})")
            if any(c > w or c < 0 for c in cnts):
                msgs.append(f"call {t}: wait counters {cnts} exceed wait_time {w}")
            if [0 if c == 0 else w + 1 - c for c in cnts] != rem:
                msgs.append(f"call {t}: counters {cnts} do not encode the remaining waits {rem}")
            if msgs:
                break
        return msgs
    res = obs["results"]
    index = {tuple(v): r for v, r in zip(case["vectors"], res)}
    for v, r in zip(case["vectors"], res):
        if r not in ("drift", None):
            msgs.append(f"{case['kind']} {params(case)} on {v}: returned {r!r}")
        exp = rule(case, v)
        if exp is not None and (r == "drift") != exp:
            msgs.append(f"{case['kind']} {params(case)} on {v}: returned {r!r}, rule says {'drift' if exp else None}")
        if r == "drift":
            for i, x in enumerate(v):
                if x != "drift":
                    v2 = list(v); v2[i] = "drift"
                    r2 = index.get(tuple(v2))
                    if r2 is None and tuple(v2) not in index:
                        r2 = make(case)([Det(y) for y in v2])
                    if r2 != "drift":
                        msgs.append(f"{case['kind']} {params(case)}: verdict on {v} is drift but retracted on {v2}")
        if len(msgs) > 3:
            break
    return msgs


def params(case):
    return {k: case[k] for k in ("a", "c", "s", "w") if k in case}


def coq_term(case, obs):
    if "__exception__" in obs:
        return "false"
    if case["kind"] == "conf":
        calls = G.lst([G.dslist(c) for c in case["calls"]])
        exp = G.lst([f"({G.ds(r)}, {G.zlist(c)})" for r, c in obs["trace"]])
        return f"chk_confirmed {G.z(case['s'])} {G.z(case['w'])} {calls} {exp}"
    vs = G.lst([G.dslist(v) for v in case["vectors"]])
    exp = G.dslist(obs["results"])
    f = {"maj": "simple_majority", "min": f"(min_approval {G.z(case.get('a', 0))})",
         "ord": f"(ordered_approval {G.z(case.get('a', 0))} {G.z(case.get('c', 0))})"}[case["kind"]]
    return f"list_eqb dstate_eqb (map {f} {vs}) {exp}"


def show_term(case, obs):
    if case["kind"] == "conf":
        calls = G.lst([G.dslist(c) for c in case["calls"]])
        return f"confirmed_run {{| sensitivity := {G.z(case['s'])}; wait_time := {G.z(case['w'])} |}} None {calls}"
    vs = G.lst([G.dslist(v) for v in case["vectors"]])
    f = {"maj": "simple_majority", "min": f"(min_approval {G.z(case.get('a', 0))})",
         "ord": f"(ordered_approval {G.z(case.get('a', 0))} {G.z(case.get('c', 0))})"}[case["kind"]]
    return f"map {f} {vs}"


def nontrivial(case, obs):
    if "__exception__" in obs:
        return False
    if case["kind"] == "conf":
        return any(any(c > 0 for c in cn) for _, cn in obs["trace"])
    return len(set(obs["results"])) > 1


def shrink_candidates(case):
    if case["kind"] == "conf":
        calls = case["calls"]
        for i in range(len(calls)):
            yield dict(case, calls=calls[:i] + calls[i + 1:])
        for i in range(len(calls) - 1, 0, -1):
            yield dict(case, calls=calls[:i])
    else:
        vs = case["vectors"]
        if len(vs) > 1:
            h = len(vs) // 2
            yield dict(case, vectors=vs[:h])
            yield dict(case, vectors=vs[h:])
            if len(vs) <= 64:
                for v in vs:
                    yield dict(case, vectors=[v])


def signature(case, obs, msgs):
    return dict(params(case), kind=case["kind"])


# ------------------------------------------------------------------ the translated model (second tie)
def obligations(ctx):
    """Re-translates election.py of the tree under test to Gallina (tools/py2coq_election.py) and re-checks, against that
    fresh translation, the theorems of coqgen/Election_Gen_Proofs.v: the translation computes the same function as the
    hand-written model Election.v on every input, hence the C13 theorems hold of the translated source.  A construct
    the translator does not support makes this tie not applicable (the correspondence check still decides)."""
    import os, shutil, subprocess, sys, re
    from . import coqrun
    repo = os.environ.get("VERIF_REPO", "/repo")
    src = os.path.join(repo, "menelaus", "ensemble", "election.py")
    d = os.path.join(coqrun.BUILD, "C13", f"gen.{os.getpid()}")
    shutil.rmtree(d, ignore_errors=True)
    os.makedirs(d)
    try:
        r = subprocess.run([sys.executable, os.path.join(coqrun.VERIF, "tools", "py2coq_election.py"), src,
                            os.path.join(d, "Election_Gen.v")], capture_output=True, text=True, timeout=120)
        if r.returncode != 0:
            yield {"name": "py2coq_election", "ok": None,
                   "detail": "translation not applicable: " + (r.stderr.strip() or r.stdout.strip())[-300:]}
            return
        shutil.copy(os.path.join(coqrun.VERIF, "coqgen", "Election_Gen_Proofs.v"), d)
        hits = [l.strip() for l in open(os.path.join(d, "Election_Gen_Proofs.v"))
                if re.search(r"\b(Admitted|admit|Axiom|Parameter|Conjecture|Abort)\b|Unset Guard|bypass_check|native_compute", l)
                and not l.strip().startswith("(*")]
        if hits:
            yield {"name": "Election_Gen_Proofs", "ok": False, "detail": f"forbidden constructs: {hits[:3]}"}
            return
        args = ["coqc", "-Q", coqrun.COQ, "MV", "-Q", ".", "MVG"]
        r = subprocess.run(args + ["Election_Gen.v"], cwd=d, capture_output=True, text=True, timeout=300)
        if r.returncode != 0:
            yield {"name": "py2coq_election", "ok": None,
                   "detail": "translation not applicable: the generated Gallina does not type-check: " + (r.stdout + r.stderr)[-300:]}
            return
        r = subprocess.run(args + ["Election_Gen_Proofs.v"], cwd=d, capture_output=True, text=True, timeout=600)
        out = r.stdout + r.stderr
        if r.returncode != 0:
            yield {"name": "Election_Gen_Proofs (translation of the current election.py = Election.v, on every input)", "ok": False,
                   "detail": "the equivalence proof no longer checks against the re-translated source: " + out[-600:]}
            return
        names = re.findall(r"^Print Assumptions (\w+)\.", open(os.path.join(d, "Election_Gen_Proofs.v")).read(), re.M)
        closed = out.count("Closed under the global context")
        if closed != len(names):
            yield {"name": "Election_Gen_Proofs", "ok": False,
                   "detail": f"{len(names) - closed} of {len(names)} theorems depend on axioms: " + out[-400:]}
            return
        gen = open(os.path.join(d, "Election_Gen.v")).read()
        snap = open(os.path.join(coqrun.VERIF, "coqgen", "Election_Gen.v")).read()
        for n in names:
            yield {"name": "MVG.Election_Gen_Proofs." + n, "ok": True,
                   "detail": "closed under the global context; checked against the translation of " + src
                             + ("" if gen == snap else " (differs from the committed snapshot coqgen/Election_Gen.v)")}
    finally:
        shutil.rmtree(d, ignore_errors=True)
