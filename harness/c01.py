"""C01 — drift state, counters and warm-up follow the detector lifecycle contract (all 15 detectors)."""
import numpy as np
from . import coqgen as G
from . import c03, c04, c05, c06
from .common import *
from .detectors import SPECS, gen_case, epoch_start

ID = "C01"
# the lifecycle theorems of the data-drift detectors and MD3 live in their own property files and are re-checked here
PROPS = ["Prop_C01", "Prop_C09", "Prop_C07", "Prop_C11", "Prop_C10", "Prop_C19"]
IMPORTS = ("From MV Require Import Base Num NumFloat Lifecycle Pairwise Ddm ChangeDet Adwin Lfr Corr Corr_C03 Corr_C06 Corr_Percentile.\n"
           "From Coq Require Import PrimFloat.")
CORR_NAME = "Corr_C01: the generic machine instantiated with the DDM/EDDM/STEPD/PH/CUSUM/LFR kernels and the ADWIN model = the implementation's lifecycle observables"
TRUSTED = ["Coq 8.16.1 kernel + vm_compute + primitive floats",
           "hand-written models (Lifecycle.v and the kernels) tied to the code by bit-level differential execution for DDM, EDDM, STEPD, PageHinkley, CUSUM, LinearFourRates, ADWIN, ADWINAccuracy",
           "KdqTreeStreaming / KdqTreeBatch (Prop_C09: C09_lifecycle_*), HDDDM / CDBD (Prop_C07: C07_lifecycle_*), PCACD (Prop_C11: C11_lifecycle_*, C11_silent_*), NNDVI (Prop_C10: C10_nndvi_history) and MD3 (Prop_C19: C19_counters, C19_protocol_invariant) have their lifecycle theorems in those files (re-checked by this check; their models are tied to the code by the correspondence of C09/C07/C11/C10/C19); in this check their contract is additionally verified on implementation traces by the direct oracle (table in DESIGN.md C01)",
           "harness/c01.py, harness/detectors.py"]
RULE = ("per detector: random parameter draws with emphasis on tiny warm-up values and histories built to drift several times back to back; "
        "observables after every update: drift_state, both counters, retraining_recs. Non-trivial: at least one drift followed by >= 1 update. "
        "Distinct by content.")
SHARD = 40
MODELLED = {"DDM": "ddm", "EDDM": "eddm", "STEPD": "stepd", "PageHinkley": "ph", "CUSUM": "cusum"}
SLOW = {"KdqTreeStreaming", "KdqTreeBatch", "HDDDM", "CDBD", "NNDVI", "PCACD", "MD3", "LinearFourRates"}


def gen_cases(ctx):
    cases = []
    k = 0
    for name in SPECS:
        n = ctx.scale(6, 60) if name in SLOW else ctx.scale(14, 200)
        if name in ("ADWIN", "ADWINAccuracy"):
            n = ctx.scale(24, 300)
        for _ in range(n):
            k += 1
            cases.append(gen_case(ctx, name, k))
    # ADWIN / ADWINAccuracy: an abrupt change well inside the warm-up (window_size_thresh much larger than the position of the
    # change and than subwindow_size_thresh), with the loosest delta: no drift may be reported while W <= window_size_thresh
    for name in ("ADWIN", "ADWINAccuracy"):
        for wst, sub, pos in ((25, 1, 8), (60, 3, 12), (60, 5, 20), (25, 3, 10)):
            k += 1
            n = ctx.rng.randint(70, 110)
            if name == "ADWIN":
                data = [0.0 + 0.01 * (j % 3) if j < pos else 5.0 + 0.01 * (j % 3) for j in range(n)]
            else:
                data = [[1, 1] if j < pos else [1, 0] for j in range(n)]
            cases.append({"det": name, "seed": (ctx.seed + 31 * k) % 100000, "data": data,
                          "params": {"delta": 1.0, "max_buckets": 5, "new_sample_thresh": 1, "window_size_thresh": wst,
                                     "subwindow_size_thresh": sub, "conservative_bound": False}})
    # PCACD with and without online scaling over a stream with at least two strong shifts (second epoch after a drift)
    from .detectors import row_stream
    for scaling in (False, True, False):
        k += 1
        c = gen_case(ctx, "PCACD", k)
        w = c["params"]["window_size"]
        c["params"]["online_scaling"] = scaling
        c["data"] = row_stream(ctx.rng, 10 * w, 3, 3 * w)
        cases.append(c)
    return cases


def run_impl(case):
    return {"rows": SPECS[case["det"]].run(case)}


def direct_check(case, obs):
    name = case["det"]
    if "__exception__" in obs:
        return [f"{name} raised {obs['__exception__']}: {obs['__message__']}"]
    spec, rows, p = SPECS[name], obs["rows"], case["params"]
    start = 0
    if spec.kind == "batch":
        start = 1            # row 0 = state after set_reference
    prev = rows[0] if spec.kind == "batch" else {"ds": None, "total": 0, "since": 0, "recs": [None, None]}
    hdm1 = name in ("HDDDM", "CDBD") and p["detect_batch"] == 1
    for i in range(start, len(rows)):
        r = rows[i]
        k = i - start            # index into the updates
        if r["ds"] not in (None, "warning", "drift"):
            return [f"{name} update {k}: drift_state {r['ds']!r} is not None/'warning'/'drift'"]
        restarted = (prev["ds"] is not None) if name in ("ADWIN", "ADWINAccuracy") else (prev["ds"] == "drift")
        if name == "MD3" and r.get("op") == "label":
            if (r["total"], r["since"]) != (prev["total"], prev["since"]):
                return [f"MD3 call {k}: give_oracle_label changed the counters"]
            prev = r
            continue
        dt = 2 if (hdm1 and restarted) else 1
        if r["total"] != prev["total"] + dt:
            return [f"{name} {p} update {k}: total counter went {prev['total']} -> {r['total']} (expected +{dt})"]
        if restarted:
            want = 2 if hdm1 else spec.restart_to
            if r["since"] != want:
                return [f"{name} {p} update {k}: since-reset counter is {r['since']} on the update after a drift (expected {want})"]
        else:
            ok = r["since"] == prev["since"] + 1
            if name == "KdqTreeStreaming" and r["since"] == 0:
                # additionally restarts when the reference window completes
                j = epoch_start(rows, i)
                ok = (i - j + 1) == p["window_size"]
            if not ok:
                return [f"{name} {p} update {k}: since-reset counter went {prev['since']} -> {r['since']} without a preceding drift"]
        if r["ds"] is not None and not spec.warmup_ok(case, rows[start:] if spec.kind == "batch" else rows, k):
            return [f"{name} {p} update {k}: {r['ds']!r} reported before the documented minimum amount of data (since={r['since']}, total={r['total']})"]
        if spec.has_recs:
            a, b = r["recs"]
            t = r["total"] - 1
            if r["ds"] == "drift":
                if a is None or b is None or not (a <= b == t):
                    return [f"{name} {p} update {k}: drift with retraining_recs {r['recs']} (current index {t})"]
            if prev["ds"] == "drift":
                adwin = name in ("ADWIN", "ADWINAccuracy")
                if r["ds"] is None and r["recs"] != [None, None]:
                    return [f"{name} {p} update {k}: retraining_recs {r['recs']} not cleared by the update after a drift"]
                if r["ds"] == "warning" and r["recs"] not in ([t, None], [t, t]):
                    return [f"{name} {p} update {k}: stale retraining_recs {r['recs']} after a drift (current index {t})"]
                if r["ds"] == "drift" and not adwin and r["recs"] != [t, t]:
                    return [f"{name} {p} update {k}: stale retraining_recs {r['recs']} after a drift (current index {t})"]
        prev = r
    return []


def delegate(case):
    """the equivalent case of the module that owns the detector's model"""
    name, p = case["det"], case["params"]
    if name in ("DDM", "EDDM", "STEPD"):
        keys = {"DDM": ("n_threshold", "warning_scale", "drift_scale"), "EDDM": ("n_threshold", "warning_thresh", "drift_thresh"),
                "STEPD": ("window_size", "alpha_warning", "alpha_drift")}[name]
        return c05, {"det": MODELLED[name], "params": [p[k] for k in keys], "seq": [1 if a == b else 0 for a, b in case["data"]], "extras": True}
    if name in ("PageHinkley", "CUSUM"):
        return c04, {"det": MODELLED[name], "params": p, "xs": case["data"]}
    if name == "ADWIN":
        return c03, {"kind": "adwin", "params": p, "xs": case["data"]}
    if name == "ADWINAccuracy":
        return c03, {"kind": "acc", "params": p, "pairs": case["data"], "encoding": 0}
    if name == "LinearFourRates":
        return c06, {"params": p, "pairs": case["data"], "seed": case["seed"]}
    return None, None


def coq_term(case, obs):
    mod, c = delegate(case)
    if mod is None or "__exception__" in obs:
        return None
    o = mod.run_impl(c)
    return mod.coq_term(c, o)


def nontrivial(case, obs):
    rows = obs.get("rows", [])
    return any(r.get("ds") == "drift" for r in rows[:-1])


def shrink_candidates(case):
    d = case["data"]
    lo = 2 if SPECS[case["det"]].kind == "batch" else 1
    if len(d) > lo:
        yield dict(case, data=d[:-1])
        yield dict(case, data=d[:max(lo, len(d) // 2)])
    for i in range(lo - 1, min(len(d), 30)):
        if len(d) - 1 >= lo:
            yield dict(case, data=d[:i] + d[i + 1:])


def signature(case, obs, msgs):
    return {"det": case["det"]}


# ------------------------------------------------------------------ the translated base classes (second tie)
def obligations(ctx):
    """detector.py's base-class bookkeeping (counters, reset, drift_state setter) re-translated to Gallina and re-proved to be
    the generic machine Lifecycle.v on every run."""
    from .pytrans import obligations_lifecycle
    yield from obligations_lifecycle(ctx)
