"""C03 — ADWIN keeps exact statistics of its adaptive window and cuts it by its rule."""
import math
from fractions import Fraction
import numpy as np
from menelaus.change_detection import ADWIN
from menelaus.concept_drift import ADWINAccuracy
from . import coqgen as G
from .common import *

ID = "C03"
PROPS = ["Prop_C03", "Prop_C03_exact"]
IMPORTS = "From MV Require Import Base Num NumFloat Lifecycle Corr Adwin Corr_C03.\nFrom Coq Require Import PrimFloat."
CORR_NAME = "Corr_C03: Adwin.v (exponential histogram, scan, shrink; NumFloat, log as tabulated oracle) = adwin.py / adwin_accuracy.py, bit-for-bit"
TRUSTED = ["Coq 8.16.1 kernel + vm_compute + primitive floats",
           "hand-written model coq/Adwin.v tied to adwin.py by bit-level differential execution",
           "numpy.log enters through delta' = log(c*log(W)/delta), tabulated by the harness with the same numpy call (oracle)",
           "harness/c03.py (generators; independent reference implementation + exact rational recomputation as direct oracle)"]
RULE = ("float streams with level shifts / constant runs / several scales; delta in (0,1]; max_buckets in {1,2,3,5}; new_sample_thresh in {1,2,4,32}; "
        "small window / sub-window thresholds so that shrinks happen; both bounds; ADWINAccuracy on label pairs under several encodings with "
        "non-default constructor arguments. Non-trivial: at least one shrink (drift) in the run; distinct by content."
        " Also: conservative_bound handed over as np.bool_ / 0 / 1.")
SHARD = 40
KEYS = ("delta", "max_buckets", "new_sample_thresh", "window_size_thresh", "subwindow_size_thresh", "conservative_bound")


def make(case):
    p = case["params"]
    kw = {k: p[k] for k in KEYS}
    # the same truth value handed over as another type (numpy bool from an array-valued parameter sweep, 0 / 1)
    cb = case.get("cb_kind")
    if cb == "np_bool":
        kw["conservative_bound"] = np.bool_(kw["conservative_bound"])
    elif cb == "int":
        kw["conservative_bound"] = int(kw["conservative_bound"])
    return (ADWINAccuracy if case["kind"] == "acc" else ADWIN)(**kw)


def values(case):
    if case["kind"] == "acc":
        return [1.0 if a == b else 0.0 for a, b in case["pairs"]]
    return case["xs"]


def gen_stream(ctx, n):
    out, level = [], ctx.rng.choice([0.0, 0.5, 10.0])
    scale = ctx.rng.choice([1.0, 0.1, 5.0, 1e3, 1e-3])
    i = 0
    while i < n:
        seg = ctx.rng.randint(4, max(5, n // 3))
        kind = ctx.rng.random()
        for _ in range(min(seg, n - i)):
            v = level if kind < 0.15 else level + scale * ctx.rng.gauss(0, 0.3)
            if kind > 0.8:
                v = round(v * 8) / 8
            out.append(float(v))
        i += seg
        level += scale * ctx.rng.choice([-3, -1, 0, 1, 2, 5])
    return out[:n]


def gen_params(ctx):
    return {"delta": ctx.rng.choice([1.0, 0.5, 0.1, 0.002, 1e-6]), "max_buckets": ctx.rng.choice([1, 1, 2, 3, 5]),
            "new_sample_thresh": ctx.rng.choice([1, 1, 2, 4, 32]), "window_size_thresh": ctx.rng.choice([0, 2, 5, 10]),
            "subwindow_size_thresh": ctx.rng.choice([1, 2, 3, 5]), "conservative_bound": ctx.rng.random() < 0.3}


def gen_cases(ctx):
    cases = []
    for _ in range(ctx.scale(160, 3000)):
        cases.append({"kind": "adwin", "params": gen_params(ctx), "xs": gen_stream(ctx, ctx.rng.randint(20, 220))})
    encs = [lambda a: a, lambda a: "ab"[a], lambda a: bool(a), lambda a: 2.5 * a - 1, lambda a: 7 + 3 * a]
    for _ in range(ctx.scale(40, 600)):
        n = ctx.rng.randint(30, 220)
        acc = piecewise_bernoulli(ctx.rng, n, [0.95, 0.7, 0.4, 0.1])
        enc = ctx.rng.randrange(len(encs))
        pairs = []
        for ok in acc:
            t = ctx.rng.randint(0, 1)
            pr = t if ok else 1 - t
            pairs.append([encs[enc](t), encs[enc](pr)])
        p = gen_params(ctx)
        cases.append({"kind": "acc", "params": p, "pairs": pairs, "encoding": enc})
    import random
    r2 = random.Random(ctx.seed + 3)
    for c in cases:
        kind = r2.choice(["bool", "bool", "np_bool", "int"])
        if kind != "bool":
            c["cb_kind"] = kind
    return cases


def run_impl(case):
    d = make(case)
    rows = []
    if case["kind"] == "acc":
        ctor = {k: getattr(d, k, None) for k in KEYS}
    for i, v in enumerate(values(case)):
        if case["kind"] == "acc":
            a, b = case["pairs"][i]
            d.update(a, b)
        else:
            d.update(v)
        st, tot, sin = lifecycle_obs(d)
        rows.append({"ds": st, "total": tot, "since": sin, "recs": recs_of(d), "mean": float(d.mean()), "var": float(d.variance()),
                     "priv": [priv(d, "_window_size"), priv(d, "_curr_total"), priv(d, "_curr_variance")]})
    out = {"rows": rows}
    if case["kind"] == "acc":
        out["ctor"] = ctor
    return out


# ---------------- reference implementation (plain doubles), independent of the Coq model ----------------
def dpd_value(W, delta, cons):
    return float(np.log((4 if cons else 2) * np.log(W) / delta))


def ref_adwin(p, xs):
    M, nst, wst, sst, cons, delta = (p["max_buckets"], p["new_sample_thresh"], p["window_size_thresh"],
                                     p["subwindow_size_thresh"], p["conservative_bound"], p["delta"])
    rows = [[]]
    total = var = 0.0
    W = n = since = 0
    ds = None; recs = [None, None]
    out = []
    for x in xs:
        if ds is not None:
            since = 0; ds = None; recs = [None, None]
        n += 1; since += 1; W += 1
        rows[0].append((x, 0.0))
        if W > 1:
            d = x - total / (W - 1)
            var += (W - 1) * d * d / W
        total += x
        i = 0
        while i < len(rows):
            if len(rows[i]) == M + 1:
                if i + 1 == len(rows):
                    rows.append([])
                ne = 2 ** i
                (t0, v0), (t1, v1) = rows[i][0], rows[i][1]
                m1, m2 = t0 / ne, t1 / ne
                rows[i + 1].append((t0 + t1, v0 + v1 + ne * (m1 - m2) * (m1 - m2) / 2))
                del rows[i][0:2]
                if len(rows[i + 1]) <= M:
                    break
            else:
                break
            i += 1
        if n % nst == 0 and W > wst:
            while True:
                found = False
                n0, n1, t0, t1 = 0, W, 0.0, total
                stop = False
                for pos in range(len(rows) - 1, -1, -1):
                    for bi, (bt, _) in enumerate(rows[pos]):
                        n0 += 2 ** pos; n1 -= 2 ** pos; t0 += bt; t1 -= bt
                        if pos == 0 and bi == len(rows[0]) - 1:
                            stop = True; break
                        if n0 >= sst and n1 >= sst:
                            h = 1 / (n0 - sst + 1) + 1 / (n1 - sst + 1)
                            L = dpd_value(W, delta, cons)
                            v = var / W
                            if cons:
                                e = math.sqrt((0.5 * h) * L) if (0.5 * h) * L >= 0 else math.nan
                            else:
                                a = (2 * h) * v * L
                                e = (math.sqrt(a) if a >= 0 else math.nan) + 1.0 * (2 / 3) * h * L
                            if abs(1.0 * ((t0 / n0) - (t1 / n1))) > e:
                                found = True; stop = True; break
                    if stop:
                        break
                if not found:
                    break
                ds = "drift"
                k = len(rows) - 1
                nc = 2 ** k
                bt, bv = rows[k][0] if rows[k] else (0.0, 0.0)
                W -= nc; total -= bt
                mc = bt / nc
                dd = mc - (total / W if W != 0 else math.nan)
                var -= bv + nc * W * dd * dd / (nc + W)
                if rows[k]:
                    del rows[k][0]
                while len(rows) > 1 and not rows[-1]:
                    rows.pop()
                recs = [n - W, n - 1]
        out.append({"ds": ds, "recs": list(recs), "W": W, "mean": total / W if W else 0.0, "var": var / W if W else 0.0,
                    "boundaries": None})
    return out


def direct_check(case, obs):
    if "__exception__" in obs:
        return [f"{case['kind']} raised {obs['__exception__']}: {obs['__message__']}"]
    p, xs = case["params"], values(case)
    if case["kind"] == "acc":
        bad = {k: (obs["ctor"][k], p[k]) for k in KEYS if obs["ctor"].get(k) != p[k]}
        if bad:
            return [f"ADWINAccuracy ignores constructor arguments: {bad}"]
    ref = ref_adwin(p, xs)
    W = 0
    for i, (row, r) in enumerate(zip(obs["rows"], ref)):
        W += 1
        if row["ds"] == "drift":
            a, b = row["recs"]
            if a is None or b is None or b != row["total"] - 1 or a > b:
                return [f"adwin {p} step {i}: drift with retraining_recs {row['recs']} (total {row['total']})"]
            Wn = row["total"] - a
            if Wn > W:
                return [f"adwin {p} step {i}: retained window {Wn} larger than the window before the update ({W})"]
            W = Wn
        # exact statistics of the W most recent inputs
        win = [Fraction(v) for v in xs[i + 1 - W:i + 1]]
        m = sum(win) / len(win)
        v = sum((a - m) ** 2 for a in win) / len(win)
        scale = max(1.0, max(abs(float(a)) for a in win))
        if abs(Fraction(row["mean"]) - m) > Fraction(1e-9) * Fraction(scale):
            return [f"adwin {p} step {i}: mean() = {row['mean']!r} but the mean of the last W={W} inputs is {float(m)!r}"]
        if abs(Fraction(row["var"]) - v) > Fraction(1e-7) * Fraction(scale) ** 2:
            return [f"adwin {p} step {i}: variance() = {row['var']!r} but the population variance of the last W={W} inputs is {float(v)!r}"]
        if row["ds"] != r["ds"]:
            return [f"adwin {p} step {i}: drift_state {row['ds']!r}, the cut rule of the reference implementation says {r['ds']!r}"]
        if row["recs"] != r["recs"]:
            return [f"adwin {p} step {i}: retraining_recs {row['recs']}, expected {r['recs']} (= [total - W, total - 1])"]
    return []


def coq_term(case, obs):
    if "__exception__" in obs:
        return "false"
    p, xs = case["params"], values(case)
    tbl = [dpd_value(W, p["delta"], p["conservative_bound"]) for W in range(len(xs) + 2)]
    rows = []
    for r in obs["rows"]:
        ex = [r["mean"], r["var"]] + r["priv"] + [0.0]
        rows.append(row_term(r["ds"], r["total"], r["since"], r["recs"], ex))
    return (f"chk_adwin {G.z(p['max_buckets'])} {G.z(p['new_sample_thresh'])} {G.z(p['window_size_thresh'])} "
            f"{G.z(p['subwindow_size_thresh'])} {G.boolc(p['conservative_bound'])} {G.fltlist(tbl)} {G.fltlist(xs)} {G.lst(rows)}")


def show_term(case, obs):
    return coq_term(case, obs).replace("chk_adwin", "show_adwin", 1)


def nontrivial(case, obs):
    return any(r.get("ds") == "drift" for r in obs.get("rows", []))


def shrink_candidates(case):
    key = "pairs" if case["kind"] == "acc" else "xs"
    s = case[key]
    if len(s) > 1:
        yield dict(case, **{key: s[:-1]})
        yield dict(case, **{key: s[:len(s) // 2]})
    for i in range(min(len(s), 40)):
        yield dict(case, **{key: s[:i] + s[i + 1:]})


def signature(case, obs, msgs):
    return {"kind": case["kind"], "max_buckets": case["params"]["max_buckets"]}
