"""C02 — after a drift (or a new reference) a detector starts from a clean slate."""
import numpy as np
from . import coqgen as G
from . import c01
from .common import *
from .detectors import SPECS, gen_case, seed_of

ID = "C02"
PROPS = ["Prop_C02", "Prop_C09", "Prop_C07", "Prop_C10"]
IMPORTS = c01.IMPORTS
CORR_NAME = "Corr_C02: the models whose clean-slate theorems are proved (DDM, EDDM, STEPD, PageHinkley, CUSUM on the generic machine) = the implementation"
TRUSTED = ["Coq 8.16.1 kernel + vm_compute + primitive floats",
           "hand-written models tied to the code by bit-level differential execution (DDM, EDDM, STEPD, PageHinkley, CUSUM)",
           "KdqTreeStreaming / KdqTreeBatch (Prop_C09: C09_clean_slate_*), HDDDM / CDBD (Prop_C07: C07_clean_slate_drift / _set_reference) and NNDVI (Prop_C10: C10_nndvi_history: the reference after a drift is the drifted batch, decisions depend on reference and batch only) have their clean-slate theorems in those files (re-checked here; models tied to the code by C09/C07/C10); in this check the property is additionally decided on the implementation by the twin experiment (fresh detector, same numpy seed schedule)",
           "harness/c02.py, harness/detectors.py"]
RULE = ("random multi-drift histories for DDM, EDDM, STEPD, PageHinkley, CUSUM, KdqTreeStreaming, KdqTreeBatch, HDDDM, CDBD, NNDVI; after every reported "
        "drift a newly constructed detector (plus documented carry-over) is fed the remaining data under the same seed schedule and every observable is "
        "compared epoch by epoch; explicit set_reference at a random position of batch histories and in the call that directly follows a reported drift. Non-trivial: >= 1 drift followed by >= 1 update.")
SHARD = 40
DETS = [n for n, s in SPECS.items() if s.in_c02]
SLOW = {"KdqTreeStreaming", "KdqTreeBatch", "HDDDM", "CDBD", "NNDVI"}
SKIP_KEYS = {"lam", "step", "setref"}


def gen_cases(ctx):
    cases, k = [], 0
    for name in DETS:
        for _ in range(ctx.scale(6, 60) if name in SLOW else ctx.scale(12, 150)):
            k += 1
            cases.append(gen_case(ctx, name, k))
    # explicit set_reference at a random position (batch detectors)
    for name in ("KdqTreeBatch", "HDDDM", "CDBD", "NNDVI"):
        for _ in range(ctx.scale(4, 40)):
            k += 1
            c = gen_case(ctx, name, k)
            c["_set_reference_at"] = ctx.rng.randint(1, max(1, len(c["data"]) - 3))
            cases.append(c)
    # explicit set_reference in the call that directly follows a reported drift
    for name in ("KdqTreeBatch", "HDDDM", "CDBD", "NNDVI"):
        for _ in range(ctx.scale(5, 40)):
            k += 1
            c = gen_case(ctx, name, k)
            c["_set_reference_at"] = "after_drift"
            cases.append(c)
    return cases


def run_impl(case):
    return {"rows": SPECS[case["det"]].run(case)}


def same(a, b):
    if isinstance(a, float) or isinstance(b, float):
        return feq(a, b) if (a is not None and b is not None) else a is b
    if isinstance(a, list) and isinstance(b, list):
        return len(a) == len(b) and all(same(x, y) for x, y in zip(a, b))
    return a == b


def compare(name, main_rows, twin_rows, off_total, since_too=True):
    """main_rows / twin_rows: aligned observation rows; returns a message or None"""
    for j, (m, t) in enumerate(zip(main_rows, twin_rows)):
        if m["ds"] != t["ds"]:
            return f"update {j} after the restart: drift_state {m['ds']!r}, a fresh detector reports {t['ds']!r}"
        if m["total"] != t["total"] + off_total:
            return f"update {j} after the restart: total {m['total']} vs fresh {t['total']} + {off_total}"
        if since_too and m["since"] != t["since"]:
            return f"update {j} after the restart: since-reset counter {m['since']}, fresh detector {t['since']}"
        if "recs" in m:
            sh = [None if v is None else v + off_total for v in t["recs"]]
            if m["recs"] != sh:
                return f"update {j} after the restart: retraining_recs {m['recs']}, fresh detector (shifted) {sh}"
        for k in m:
            if k in ("ds", "total", "since", "recs") or k in SKIP_KEYS:
                continue
            if not same(m[k], t.get(k)):
                return f"update {j} after the restart: {k} = {m[k]!r}, a fresh detector has {t.get(k)!r}"
    return None


def direct_check(case, obs):
    name = case["det"]
    if "__exception__" in obs:
        return [f"{name} raised {obs['__exception__']}: {obs['__message__']}"]
    spec, rows = SPECS[name], obs["rows"]
    upd = rows[1:] if spec.kind == "batch" else rows
    sr = case.get("_set_reference_at")
    if sr == "after_drift":
        at = [j for j, r in enumerate(upd) if r.get("setref")]
        sr = at[0] if at else None       # no drift (or only at the last batch): an ordinary history
    if sr is not None:
        # equivalent to starting a new detector on that reference
        data = case["data"][1:]
        twin = dict(case, data=[data[sr]] + data[sr + 1:], _offset=sr + 1, _ref_step=sr)
        twin.pop("_set_reference_at")
        trows = spec.run(twin)
        off = upd[sr]["total"] - trows[0]["total"]
        # observables are compared after every *update* that follows the call (the property's observe_at)
        msg = compare(name, upd[sr + 1:], trows[1:], off, since_too=(name != "NNDVI"))
        return [f"{name} {case['params']}: explicit set_reference at batch {sr} is not equivalent to a new detector: {msg}"] if msg else []
    for i, r in enumerate(upd[:-1]):
        if r["ds"] != "drift":
            continue
        twin = spec.twin_case(case, upd, i)
        trows = spec.run(twin)
        if spec.kind == "batch":
            trows = trows[1:]
        msg = compare(name, upd[i + 1:], trows, r["total"])
        if msg:
            return [f"{name} {case['params']}: after the drift at update {i}: {msg}"]
    return []


def coq_term(case, obs):
    if case.get("_set_reference_at") is not None:
        return None
    return c01.coq_term(case, obs)


def nontrivial(case, obs):
    rows = obs.get("rows", [])
    return case.get("_set_reference_at") is not None or any(r.get("ds") == "drift" for r in rows[:-1])


shrink_candidates = c01.shrink_candidates


def signature(case, obs, msgs):
    return {"det": case["det"]}
