"""C18 — batch detectors ignore the order of the rows inside a batch.

A case is a batch history plus one permutation per data item (reference included).  The
implementation is run twice under the same numpy seed schedule: on the original history and on the
history whose every item has its rows permuted.  The direct check compares what the two runs expose;
the Coq side evaluates the models of C08 / C10 / C07 on both histories.
"""
import contextlib, math
from fractions import Fraction
import numpy as np
import scipy.stats
from menelaus.partitioners.KDQTreePartitioner import KDQTreePartitioner
from menelaus.data_drift import NNDVI
from . import coqgen as G
from . import c08, c10
from .common import rebound, feq, lifecycle_obs, priv, obs_term
from .detectors import SPECS, seed_of

ID = "C18"
PROPS = ["Prop_C18"]
IMPORTS = ("From MV Require Import Base Num NumFloat Lifecycle KdqTree Corr_C08 Nnsp PermDet Hist Hdm Corr_C07 Corr_C18.\n"
           "From Coq Require Import PrimFloat QArith.")
CORR_NAME = ("Corr_C18: KdqTree.v + PermDet.KdqBatch (tree, leaf counts, _test_dist, _critical_dist, states), Nnsp.v (D, v1, v2, "
             "k-NN checker, distance, NNDVI states), Hist.v/Hdm.all_hists (np.histogram counts inside HDDDM/CDBD updates) = the "
             "implementation, on the original AND on the row-permuted history, and equal to each other")
TRUSTED = ["Coq 8.16.1 kernel + vm_compute + primitive floats (theorems: Closed under the global context)",
           "PermLaws (total order incl. antisymmetry; symmetric, transitive feqb) are hypotheses of the kdq-tree / histogram-range "
           "theorems: proved for the reals (PermLawsR), true of IEEE doubles without NaN except for the pair +0 / -0 (excluded from "
           "the generators; Example C18_float_signed_zero shows the exception)",
           "reused hand-written models KdqTree.v (C08), Nnsp.v (C10), Hist.v / Hdm.v (C07) and the thin detector models of "
           "PermDet.v, tied to the code by differential execution on both sides of every permutation",
           "oracles equal on both sides by construction of the run (same seed schedule, checked bitwise by the direct check where "
           "the implementation exposes them): scipy.stats.entropy, the kdq-tree bootstrap critical value, sklearn's adjacency "
           "matrix, np.random.permutation trials and the normal quantile of NN-DVI; HDM divergences, t.ppf",
           "HDM with detect_batch = 2: the bootstrap estimate of the first epsilon resamples the reference by position, so "
           "decisions may differ; distances are compared up to and including the first batch whose decisions differ",
           "harness/c18.py, harness/c08.py and harness/c10.py (printers, k-NN and threshold helpers), harness/detectors.py"]
RULE = ("HDDDM (1-3 features) and CDBD (1 feature) with detect_batch in {2,3}, KdqTreeBatch (1-3 features, count_ubound in {3,8}), "
        "NNDVI (1-3 features, k in {2,3,5}, batches of unequal sizes); data: gaussian with mean/scale shifts, integer-coded grids "
        "(ties), rows duplicated from a small pool, batches sorted by the first column, batches whose two halves come from "
        "different distributions; one permutation per data item (reference included): shuffle, reversal, sort by first column, "
        "exchange of the two halves, identity for some items; np.random.seed(seed_of(case, step)) before every call in both runs. "
        "Non-trivial: some item is really permuted and the original run reports at least one drift and one non-drift update "
        "(detect_batch = 2: at least two updates). Excluded: NaN / inf / -0.0 coordinates."
        " Also: detect_batch handed over as np.int64 / float; batches of 20000 and 70000 rows (the latter decided on the implementation only); a non-default cutpoint_proportion_lbound on features scaled so that it bites.")
SHARD = 6

DET_KINDS = ["HDDDM", "CDBD", "KdqTreeBatch", "NNDVI"]
CLB = 2e-10          # KdqTreeBatch's default cutpoint_proportion_lbound


# ------------------------------------------------------------------ data and permutations
def clean(x):
    x = float(x)
    return 0.0 if x == 0.0 else x


def gen_batch(rng, style, n, dim, mean, sd):
    if style == "grid":
        g = rng.choice([2, 3, 5, 9])
        rows = [[float(round(mean[j]) + rng.randint(0, g)) for j in range(dim)] for _ in range(n)]
    elif style == "dup":
        pool = [[mean[j] + sd * rng.gauss(0, 1) for j in range(dim)] for _ in range(max(2, n // rng.choice([2, 3, 4])))]
        rows = [list(rng.choice(pool)) for _ in range(n)]
    elif style == "halves":
        h = n // 2
        rows = [[mean[j] + sd * rng.gauss(0, 1) for j in range(dim)] for _ in range(h)]
        rows += [[mean[j] + 2.5 + 0.5 * sd * rng.gauss(0, 1) for j in range(dim)] for _ in range(n - h)]
    else:  # gauss / sorted
        rows = [[mean[j] + sd * rng.gauss(0, 1) for j in range(dim)] for _ in range(n)]
    rows = [[clean(v) for v in r] for r in rows]
    if style == "sorted":
        rows.sort()
    return rows


def gen_history(rng, nb, dim, lo, hi, style, p_shift):
    mean, sd, out = [0.0] * dim, 1.0, []
    for b in range(nb):
        if b > 0 and rng.random() < p_shift:
            if rng.random() < 0.75:
                mean = [m + rng.choice([-4, -2.5, 2.5, 4]) for m in mean]
            else:
                sd = rng.choice([0.4, 1.0, 2.5])
        st = style if style != "mixed" else rng.choice(["gauss", "grid", "dup", "sorted", "halves"])
        out.append(gen_batch(rng, st, rng.randint(lo, hi), dim, mean, sd))
    return out


def gen_perm(rng, rows, kind):
    n = len(rows)
    idx = list(range(n))
    if kind == "shuffle":
        rng.shuffle(idx)
    elif kind == "reverse":
        idx.reverse()
    elif kind == "sort":
        idx.sort(key=lambda i: rows[i])
    elif kind == "unsort":          # sorted data put back into a random order is the same as shuffle
        rng.shuffle(idx)
    elif kind == "halves":
        h = n // 2
        idx = idx[h:] + idx[:h]
    return idx


def permuted(case):
    return [[rows[j] for j in p] for rows, p in zip(case["data"], case["perm"])]


def multiset(rows):
    return sorted(tuple(float(x) for x in r) for r in rows)


def _ident(data):
    return [list(range(len(b))) for b in data]


def _rev(data):
    return [list(range(len(b)))[::-1] for b in data]


_INT1 = [[float(v)] for v in [0, 0, 0, 1, 1, 2, 2, 3, 3, 4, 5, 5, 6, 7, 7, 8, 9, 9, 10, 11]]
_INT1B = [[float(v)] for v in [6, 6, 7, 8, 8, 9, 10, 10, 11, 11, 12, 13, 13, 14, 15, 15]]
_NN_REF = [[0.0, 0.0], [1.0, 0.0], [0.0, 0.0], [2.0, 2.0], [1.0, 1.0], [3.0, 1.0]]
FIXED = [
    # NN-DVI, sizes 6 + 2 then 2 + 5 (a split of the pooled index anywhere but at len(sample1) shows here), duplicates
    {"det": "NNDVI", "params": {"k_nn": 2, "sampling_times": 5, "alpha": 0.4}, "seed": 11,
     "data": [_NN_REF, [[1.0, 0.0], [5.0, 5.0]], [[9.0, 9.0], [8.0, 9.0], [9.0, 8.0], [1.0, 0.0], [9.0, 9.0]], _NN_REF[:4]],
     "perm": [[5, 4, 3, 2, 1, 0], [1, 0], [3, 4, 0, 1, 2], [2, 3, 0, 1]]},
    # kdq-tree, sorted integer-coded reference with few distinct values per cell, count_ubound 3
    {"det": "KdqTreeBatch", "params": {"alpha": 0.2, "bootstrap_samples": 10, "count_ubound": 3}, "seed": 12,
     "data": [_INT1, _INT1[2:14], _INT1B, _INT1B[::-1][:12], _INT1[4:]],
     "perm": [[(7 * i + 3) % 20 for i in range(20)], list(range(12))[::-1], [(5 * i + 1) % 16 for i in range(16)],
              list(range(12)), [(3 * i) % 16 for i in range(16)]]},
    # HDM detect_batch = 3, sorted batches, halves exchanged / reversed
    {"det": "HDDDM", "params": {"detect_batch": 3, "divergence": "H", "statistic": "stdev", "significance": 0.5, "subsets": 3},
     "seed": 13, "data": [_INT1, _INT1[3:15], _INT1[1:17], _INT1B, _INT1B[2:], _INT1[5:]],
     "perm": [list(range(10, 20)) + list(range(10)), list(range(12))[::-1], list(range(8, 16)) + list(range(8)),
              list(range(16))[::-1], list(range(7, 14)) + list(range(7)), list(range(15))[::-1]]},
    {"det": "CDBD", "params": {"detect_batch": 2, "divergence": "KL", "statistic": "tstat", "significance": 0.05, "subsets": 5},
     "seed": 14, "data": [_INT1, _INT1[3:15], _INT1[1:17], _INT1B, _INT1B[2:], _INT1[5:]],
     "perm": [list(range(20))[::-1], list(range(12))[::-1], list(range(16))[::-1], list(range(16))[::-1],
              list(range(14))[::-1], list(range(15))[::-1]]},
]


def gen_cases(ctx):
    rng = ctx.rng
    st = ctx.stats
    for key in ("det", "style", "perm_kind", "dim", "detect_batch", "detect_batch_type"):
        st[key] = {}
    def bump(key, v):
        st[key][str(v)] = st[key].get(str(v), 0) + 1
    plan = [("HDDDM", ctx.scale(36, 500)), ("CDBD", ctx.scale(18, 250)), ("KdqTreeBatch", ctx.scale(24, 400)),
            ("NNDVI", ctx.scale(36, 500))]
    cases, k = [dict(c) for c in FIXED], 0
    for c in FIXED:
        bump("det", c["det"]); bump("style", "hand-made")
    for name, count in plan:
        for _ in range(count):
            k += 1
            style = rng.choice(["gauss", "grid", "dup", "sorted", "halves", "mixed"])
            if name in ("HDDDM", "CDBD"):
                dim = 1 if name == "CDBD" else rng.choice([1, 2, 3])
                stat = rng.choice(["tstat", "stdev"])
                db = rng.choice([2, 3, 3])
                params = {"detect_batch": db, "divergence": "H" if name == "HDDDM" else "KL", "statistic": stat,
                          "significance": rng.choice([0.05, 0.2]) if stat == "tstat" else rng.choice([0.5, 1.0, 2.0]),
                          "subsets": rng.choice([3, 5])}
                data = gen_history(rng, rng.randint(6, 10), dim, 8, 26, style, 0.4)
                bump("detect_batch", db)
                db_kind = rng.choice(["int", "int", "np_int", "float"])
                bump("detect_batch_type", db_kind)
            elif name == "KdqTreeBatch":
                dim = rng.choice([1, 2, 3])
                params = {"alpha": rng.choice([0.05, 0.2]), "bootstrap_samples": 10, "count_ubound": rng.choice([3, 8])}
                data = gen_history(rng, rng.randint(5, 8), dim, 12, 32, style, 0.45)
                if rng.random() < 0.4:
                    # a non-default minimum cell size on features whose range makes it bite (int(clb * range) >= 1)
                    params["clb"] = rng.choice([0.05, 0.1])
                    data = [[[float(v) * 40.0 for v in r] for r in b] for b in data]
                    bump("style", "clb")
            else:
                dim = rng.choice([1, 2, 3])
                kk = rng.choice([2, 3, 3, 5])
                params = {"k_nn": kk, "sampling_times": rng.choice([5, 20, 20]), "alpha": rng.choice([0.05, 0.2, 0.4])}
                for _attempt in range(40):
                    data = gen_history(rng, rng.randint(4, 7), dim, max(4, kk), 14, style, 0.5)
                    if all(len(set(map(tuple, b))) >= kk for b in data):
                        break
                else:
                    data = [[[float(7 * b + j)] * dim for j in range(kk + 2)] for b in range(4)]
            perm = []
            for rows in data:
                pk = rng.choice(["shuffle", "shuffle", "reverse", "sort", "halves", "identity"])
                perm.append(gen_perm(rng, rows, pk))
                bump("perm_kind", pk)
            bump("det", name); bump("style", style); bump("dim", dim)
            cases.append({"det": name, "params": params, "data": data, "perm": perm, "seed": (ctx.seed + 31 * k) % 100000,
                          **({"db_kind": db_kind} if name in ("HDDDM", "CDBD") and db_kind != "int" else {})})
    # one history with test batches larger than any plausible internal block size: a row-blocked
    # implementation must not make the leaf divergence depend on which rows come last
    # (the first is also run through the model; the second, beyond 2^16 rows, is decided on the implementation only)
    for nbig, no_model in ((20000, False), (70000, True)):
        big = [[[float(rng.gauss(0, 1))] for _ in range(80)]]
        for shift in (0.0, 0.6):
            big.append([[float(rng.gauss(shift if j % 2 else 0.0, 1))] for j in range(nbig)])
        cases.append({"det": "KdqTreeBatch", "params": {"alpha": 0.2, "bootstrap_samples": 5, "count_ubound": 8}, "data": big,
                      "perm": [gen_perm(rng, rows, "sort") for rows in big], "seed": (ctx.seed + 977) % 100000,
                      **({"no_model": True} if no_model else {})})
        bump("det", "KdqTreeBatch"); bump("style", "large-batch")
    return cases


# ------------------------------------------------------------------ running the implementation
@contextlib.contextmanager
def record_histogram(log):
    orig = np.histogram
    def wrapped(a, bins=10, range=None, *args, **kw):
        r = orig(a, bins=bins, range=range, *args, **kw)
        try:
            log.append({"bins": int(bins), "counts": [int(x) for x in r[0]],
                        "data": sorted(float(x) for x in np.asarray(a, dtype=float).ravel())})
        except Exception:
            log.append(None)
        return r
    with rebound(np, "histogram", wrapped):
        yield


def fl(v):
    return None if v is None else float(v)


def run_hdm(case, data):
    spec = SPECS[case["det"]]
    pp = dict(case["params"])
    # the same number handed over as another numeric type (numpy integer / float): equal, but not identical, to the int
    if case.get("db_kind") == "np_int":
        pp["detect_batch"] = np.int64(pp["detect_batch"])
    elif case.get("db_kind") == "float":
        pp["detect_batch"] = float(pp["detect_batch"])
    det = spec.make(pp)
    k = len(data[0][0])
    np.random.seed(seed_of(case, -1))
    det.set_reference(np.array(data[0], dtype=float))
    rows = []
    for i, b in enumerate(data[1:]):
        ref_before = np.asarray(det.reference, dtype=float).reshape(-1, k).tolist()
        log = []
        np.random.seed(seed_of(case, i))
        with record_histogram(log):
            det.update(np.array(b, dtype=float))
        ds, tot, sin = lifecycle_obs(det)
        tb = int(det.total_batches)
        first = log[:2 * k]
        ok = len(first) == 2 * k and all(x is not None for x in first)
        hists = None
        if ok:
            # attribute each logged histogram to "column f of the reference" / "column f of the batch" by the data it was
            # computed from, not by the order of the calls
            used, hists = set(), []
            for f in range(k):
                pair = []
                for col in (sorted(r[f] for r in ref_before), sorted(float(r[f]) for r in b)):
                    j = next((j for j, e in enumerate(first) if j not in used and e["data"] == col), None)
                    if j is None:
                        break
                    used.add(j); pair.append(first[j]["counts"])
                if len(pair) != 2:
                    hists = None
                    break
                hists.append(pair)
        rows.append({"ds": ds, "total": tot, "since": sin, "dist": fl(getattr(det, "current_distance", None)),
                     "eps": fl(det.epsilon_values.get(tb)), "beta": fl(det.thresholds.get(tb)),
                     "ref_n": int(det.reference_n), "ref_before": ref_before,
                     "bins": first[0]["bins"] if ok else None,
                     "hists": hists})
    ref_end = np.asarray(det.reference, dtype=float).reshape(-1, k).tolist()
    return {"rows": rows, "distances": [[int(a), float(v)] for a, v in det.distances.items()], "ref_end": ref_end}


def distn(counts):
    total = np.sum(counts)
    hist = np.array(counts) + 0.5
    return hist / (total + len(hist) / 2)


def run_kdq(case, data):
    p = case["params"]
    det = SPECS["KdqTreeBatch"].make(p)
    m = len(data[0][0])
    np.random.seed(seed_of(case, -1))
    det.set_reference(np.array(data[0], dtype=float))
    out = {"crit0": priv(det, "_critical_dist"), "has_crit": hasattr(det, "_critical_dist"), "rows": []}
    ref_idx = 0
    for i, b in enumerate(data[1:]):
        if det.drift_state == "drift":
            ref_idx = i                     # data[i] is the batch that reported drift
        log = []
        np.random.seed(seed_of(case, i))
        with c08.record_entropy(log):
            det.update(np.array(b, dtype=float))
        ds, tot, sin = lifecycle_obs(det)
        df = det.to_plotly_dataframe()
        parents = set(int(x) for x in df["parent_idx"].dropna())
        leaves = df[~df["idx"].astype(int).isin(parents)]
        c0 = [int(x) for x in leaves["cell_count"]]
        c1 = [int(x) for x in (leaves["cell_count"] + leaves["count_diff"])]
        kl = log[-1] if log and log[-1] is not None else None
        # the partitioner on its own: same reference, same batch (ties the detector to the C08 subject)
        part = KDQTreePartitioner(count_ubound=p["count_ubound"], cutpoint_proportion_lbound=p.get("clb", CLB))
        part.build(np.array(data[ref_idx], dtype=float).reshape(-1, m))
        part.fill(np.array(b, dtype=float).reshape(-1, m), "a", reset=True)
        out["rows"].append({"ds": ds, "total": tot, "since": sin, "test_dist": priv(det, "_test_dist"),
                            "has_tdist": hasattr(det, "_test_dist"), "has_crit": hasattr(det, "_critical_dist"),
                            "crit": priv(det, "_critical_dist"), "c0": c0, "c1": c1, "ref_idx": ref_idx,
                            "kl": None if kl is None else [kl[0], kl[1], kl[2]],
                            "recomputed": float(scipy.stats.entropy(distn(c0), distn(c1))),
                            "tree": c08.snap(part.node),
                            "part_c0": [int(x) for x in part.leaf_counts("build")],
                            "part_c1": [int(x) for x in part.leaf_counts("a")]})
    return out


def run_nndvi(case, data):
    """same observation layout as harness/c10.py (sequence cases), seed schedule of detectors.py"""
    p = case["params"]
    dim = len(data[0][0])
    det = NNDVI(k_nn=p["k_nn"], sampling_times=p["sampling_times"], alpha=p["alpha"])
    np.random.seed(seed_of(case, -1))
    det.set_reference(c10.arr(data[0], dim))
    steps = []
    for i, rows in enumerate(data[1:]):
        ref_before = np.array(det.reference_batch, dtype=float)
        np.random.seed(seed_of(case, i))
        det.update(c10.arr(rows, dim))
        st, tot, sin = lifecycle_obs(det)
        b = c10.build_obs(p["k_nn"], ref_before, c10.arr(rows, dim))
        step = {"ds": st, "total": tot, "since": sin, "ref_before": ref_before.tolist(),
                "ref_after": np.array(det.reference_batch, dtype=float).tolist(), "build": b}
        if "raised" not in b:
            step["trials"] = c10.shuffle_obs(case, b, p["sampling_times"], seed_of(case, i))
        steps.append(step)
    return {"steps": steps}


RUNNERS = {"HDDDM": run_hdm, "CDBD": run_hdm, "KdqTreeBatch": run_kdq, "NNDVI": run_nndvi}


def run_impl(case):
    run = RUNNERS[case["det"]]
    return {"o": run(case, case["data"]), "p": run(case, permuted(case))}


# ------------------------------------------------------------------ direct check
def as_c10(case, data):
    p = case["params"]
    return {"kind": "seq", "k": p["k_nn"], "dim": len(data[0][0]), "sampling_times": p["sampling_times"], "alpha": p["alpha"],
            "ref": data[0], "batches": data[1:], "seed": case["seed"]}


def check_hdm(case, obs):
    db = case["params"]["detect_batch"]
    whole = db == 3
    name = f"{case['det']} detect_batch={db}"
    o, p = obs["o"], obs["p"]
    diverged = None
    for i, (a, b) in enumerate(zip(o["rows"], p["rows"])):
        lab = f"{name}, update {i}"
        if multiset(a["ref_before"]) != multiset(b["ref_before"]):
            return [f"{lab}: the references of the original and the permuted run are not the same multiset of rows although every "
                    f"earlier decision agreed"]
        if a["hists"] is None or b["hists"] is None:
            return [f"{lab}: the update did not compute one reference and one test histogram per feature"]
        if a["hists"] != b["hists"] or a["bins"] != b["bins"]:
            return [f"{lab}: histograms differ between the original and the row-permuted run: {a['hists']} vs {b['hists']}"]
        if not feq(a["dist"], b["dist"]):
            return [f"{lab}: current_distance {a['dist']!r} on the original batch, {b['dist']!r} on the row-permuted batch"]
        if not feq(a["eps"], b["eps"]):
            return [f"{lab}: epsilon {a['eps']!r} vs {b['eps']!r} on the row-permuted history"]
        if (a["total"], a["since"]) != (b["total"], b["since"]):
            return [f"{lab}: counters {(a['total'], a['since'])} vs {(b['total'], b['since'])}"]
        if whole:
            if not feq(a["beta"], b["beta"]):
                return [f"{lab}: threshold {a['beta']!r} vs {b['beta']!r} on the row-permuted history"]
            if a["ds"] != b["ds"] or a["ref_n"] != b["ref_n"]:
                return [f"{lab}: drift_state / reference_n {(a['ds'], a['ref_n'])} vs {(b['ds'], b['ref_n'])} on the row-permuted history"]
        elif a["ds"] != b["ds"]:
            diverged = i           # legitimate: the threshold of detect_batch = 2 resamples the reference by position
            break
    if diverged is None:
        n = len(o["rows"])
        if [x[0] for x in o["distances"]] != [x[0] for x in p["distances"]] or \
                not all(feq(x[1], y[1]) for x, y in zip(o["distances"], p["distances"])):
            return [f"{name}: the `distances` attribute differs between the original and the row-permuted run"]
        if multiset(o["ref_end"]) != multiset(p["ref_end"]):
            return [f"{name}: final references are not the same multiset of rows"]
    return []


def check_kdq(case, obs):
    o, p = obs["o"], obs["p"]
    if not feq(o["crit0"], p["crit0"]):
        return [f"KdqTreeBatch: critical distance after set_reference {o['crit0']!r} vs {p['crit0']!r} for the row-permuted reference"]
    for i, (a, b) in enumerate(zip(o["rows"], p["rows"])):
        lab = f"KdqTreeBatch {case['params']}, update {i}"
        for r, who in ((a, "original"), (b, "row-permuted")):
            if r["c0"] != r["part_c0"] or r["c1"] != r["part_c1"]:
                return [f"{lab} ({who}): leaf counts of to_plotly_dataframe {r['c0']}/{r['c1']} differ from KDQTreePartitioner on the "
                        f"same reference and batch {r['part_c0']}/{r['part_c1']}"]
            if r["test_dist"] is not None and not feq(r["recomputed"], r["test_dist"]):
                return [f"{lab} ({who}): _test_dist {r['test_dist']!r}, KL divergence recomputed from the leaf counts {r['recomputed']!r}"]
        if a["c0"] != b["c0"] or a["c1"] != b["c1"]:
            return [f"{lab}: leaf counts (reference / test) {a['c0']} / {a['c1']} on the original data, {b['c0']} / {b['c1']} on the "
                    f"row-permuted data"]
        if a["tree"] != b["tree"]:
            return [f"{lab}: the kdq-tree (axes, split values, counts) differs between original and row-permuted data"]
        if not feq(a["recomputed"], b["recomputed"]) or not feq(a["test_dist"], b["test_dist"]):
            return [f"{lab}: divergence {a['test_dist']!r} (recomputed {a['recomputed']!r}) vs {b['test_dist']!r} (recomputed "
                    f"{b['recomputed']!r}) on the row-permuted data"]
        if not feq(a["crit"], b["crit"]):
            return [f"{lab}: critical distance {a['crit']!r} vs {b['crit']!r} on the row-permuted history"]
        if (a["ds"], a["total"], a["since"], a["ref_idx"]) != (b["ds"], b["total"], b["since"], b["ref_idx"]):
            return [f"{lab}: (drift_state, total, since) {(a['ds'], a['total'], a['since'])} vs {(b['ds'], b['total'], b['since'])} on the "
                    f"row-permuted history"]
    return []


def check_nndvi(case, obs):
    o, p = obs["o"], obs["p"]
    for i, (a, b) in enumerate(zip(o["steps"], p["steps"])):
        lab = f"NNDVI {case['params']}, update {i} (sizes {len(a['ref_before'])}+{len(case['data'][i + 1])})"
        if multiset(a["ref_before"]) != multiset(b["ref_before"]):
            return [f"{lab}: the references held by the two runs are not the same multiset of rows"]
        ba, bb = a["build"], b["build"]
        if ("raised" in ba) != ("raised" in bb):
            return [f"{lab}: NNSpacePartitioner.build raises for one row order only"]
        if "raised" in ba:
            continue
        for key in ("D", "v1", "v2", "adj", "nnps"):
            if ba[key] != bb[key]:
                return [f"{lab}: {key} of NNSpacePartitioner differs: {ba[key]} on the original rows, {bb[key]} on the permuted rows"]
        if not feq(ba["d"], bb["d"]):
            return [f"{lab}: compute_nnps_distance {ba['d']!r} on the original rows, {bb['d']!r} on the permuted rows"]
        if a.get("trials") != b.get("trials"):
            return [f"{lab}: the permutation trials of the threshold differ under the same seed"]
        if (a["ds"], a["total"], a["since"]) != (b["ds"], b["total"], b["since"]):
            return [f"{lab}: (drift_state, total, since) {(a['ds'], a['total'], a['since'])} vs {(b['ds'], b['total'], b['since'])} on the "
                    f"row-permuted history (distance {ba['d']!r} on both)"]
        if multiset(a["ref_after"]) != multiset(b["ref_after"]):
            return [f"{lab}: the reference adopted after the update is not the same multiset of rows in both runs"]
    return []


def direct_check(case, obs):
    if "__exception__" in obs:
        return [f"{case['det']} raised {obs['__exception__']}: {obs['__message__']}"]
    if len(case["perm"]) != len(case["data"]) or any(sorted(p) != list(range(len(r))) for p, r in zip(case["perm"], case["data"])):
        return []          # (only after shrinking) not a permutation
    if case["det"] in ("HDDDM", "CDBD"):
        return check_hdm(case, obs)
    if case["det"] == "KdqTreeBatch":
        return check_kdq(case, obs)
    return check_nndvi(case, obs)


# ------------------------------------------------------------------ model terms
def t_hh(h):
    return G.lst([f"({G.zlist(r)}, {G.zlist(t)})" for r, t in h])


HDM_STEPS = 3


def term_hdm(case, obs):
    o, p = obs["o"]["rows"], obs["p"]["rows"]
    data, pdata = case["data"], permuted(case)
    k = len(data[0][0])
    pick = list(range(min(HDM_STEPS, len(o))))
    for i in range(1, len(o)):
        if o[i - 1]["ds"] == "drift" and i not in pick:
            pick.append(i)          # the update that follows the first drift: the reference was replaced
            break
    # detect_batch = 2: once the decisions differ the references differ legitimately
    div = next((i for i, (a, b) in enumerate(zip(o, p)) if a["ds"] != b["ds"]), len(o))
    items = []
    for i in pick:
        if i > div:
            continue
        a, b = o[i], p[i]
        if a["hists"] is None or b["hists"] is None or len(a["ref_before"]) > 90:
            continue
        items.append(f"({G.z(k)}, {G.z(a['bins'])}, {c08.t_data(a['ref_before'])}, {c08.t_data(data[i + 1])}, "
                     f"{c08.t_data(b['ref_before'])}, {c08.t_data(pdata[i + 1])}, {t_hh(a['hists'])}, {t_hh(b['hists'])})")
    return f"chk_hists_all {G.lst(items)}" if items else None


def t_kexp(r):
    # the divergence of this update: the private attribute when it is readable, else the value scipy.stats.entropy returned
    td = r["test_dist"] if r.get("has_tdist", True) else (r["kl"][2] if r["kl"] else None)
    return (f"({obs_term(r['ds'], r['total'], r['since'], [None, None])}, {G.optf(td)}, {G.flt(r['crit'])}, "
            f"{G.zlist(r['c0'])}, {G.zlist(r['c1'])})")


KDQ_PAIRS = 2


def term_kdq(case, obs):
    o, p = obs["o"], obs["p"]
    data, pdata = case["data"], permuted(case)
    m = len(data[0][0])
    cub = case["params"]["count_ubound"]
    if not (o.get("has_crit", True) and p.get("has_crit", True) and all(r.get("has_crit", True) for r in o["rows"] + p["rows"])):
        return None     # the bootstrap bound (the model's oracle input) is not readable under its private name: not model-checked
    if o["crit0"] is None or p["crit0"] is None or any(r["crit"] is None for r in o["rows"] + p["rows"]):
        return "false"
    tab, seen = [], set()
    for r in o["rows"] + p["rows"]:
        if r["kl"] is None:
            return "false"
        key = (tuple(r["kl"][0]), tuple(r["kl"][1]))
        if key not in seen:
            seen.add(key)
            tab.append(f"({G.fltlist(r['kl'][0])}, {G.fltlist(r['kl'][1])}, {G.flt(r['kl'][2])})")
    head = f"{G.z(cub)} {G.flt(case['params'].get('clb', CLB))} {G.z(m)}"
    xs = G.lst([f"({c08.t_data(b)}, {G.flt(r['crit'])})" for b, r in zip(data[1:], o["rows"])])
    xs2 = G.lst([f"({c08.t_data(b)}, {G.flt(r['crit'])})" for b, r in zip(pdata[1:], p["rows"])])
    t = (f"chk_kdq_twin {head} {G.lst(tab)} {c08.t_data(data[0])} {c08.t_data(pdata[0])} {G.flt(o['crit0'])} {G.flt(p['crit0'])} "
         f"{xs} {xs2} {G.lst([t_kexp(r) for r in o['rows']])} {G.lst([t_kexp(r) for r in p['rows']])}")
    pick = list(range(min(KDQ_PAIRS, len(o["rows"]))))
    for i, r in enumerate(o["rows"]):
        if r["ref_idx"] != 0 and i not in pick:
            pick.append(i)
            break
    for i in pick:
        a, b = o["rows"][i], p["rows"][i]
        t += (f" && chk_kdq_pair {head} {c08.t_data(data[a['ref_idx']])} {c08.t_data(pdata[b['ref_idx']])} "
              f"{c08.t_data(data[i + 1])} {c08.t_data(pdata[i + 1])} {c08.t_tree(a['tree'])}")
    return t


def term_nndvi(case, obs):
    data, pdata = case["data"], permuted(case)
    co, cp = as_c10(case, data), as_c10(case, pdata)
    to, tp = c10.coq_term(co, obs["o"]), c10.coq_term(cp, obs["p"])
    parts = [t for t in (to, tp) if t is not None]
    same = []
    for i, (a, b) in enumerate(zip(obs["o"]["steps"], obs["p"]["steps"])):
        if "raised" in a["build"] or "raised" in b["build"]:
            break
        sc = c10.scale_of([a["ref_before"], b["ref_before"], data[i + 1]])
        A = [c10.as_int_vec(r) for r in a["build"]["adj"]]
        same.append(f"({c10.pts(a['ref_before'], sc)}, {c10.pts(data[i + 1], sc)}, {c10.pts(b['ref_before'], sc)}, "
                    f"{c10.pts(pdata[i + 1], sc)}, {c10.mat(A)})")
    if same:
        parts.append(f"chk_nnsp_same_all {G.lst(same)}")
    return " && ".join(f"({t})" for t in parts) if parts else None


def coq_term(case, obs):
    if "__exception__" in obs:
        return "false"
    if any(sorted(p) != list(range(len(r))) for p, r in zip(case["perm"], case["data"])):
        return None
    if case.get("no_model"):
        return None
    if case["det"] in ("HDDDM", "CDBD"):
        return term_hdm(case, obs)
    if case["det"] == "KdqTreeBatch":
        return term_kdq(case, obs)
    return term_nndvi(case, obs)


def show_term(case, obs):
    if case["det"] == "KdqTreeBatch":
        o = obs["o"]
        data = case["data"]
        m = len(data[0][0])
        tab = G.lst([f"({G.fltlist(r['kl'][0])}, {G.fltlist(r['kl'][1])}, {G.flt(r['kl'][2])})" for r in o["rows"] if r["kl"]])
        xs = G.lst([f"({c08.t_data(b)}, {G.flt(r['crit'])})" for b, r in zip(data[1:], o["rows"])])
        return (f"show_kdq {G.z(case['params']['count_ubound'])} {G.flt(case['params'].get('clb', CLB))} {G.z(m)} {tab} {c08.t_data(data[0])} "
                f"{G.flt(o['crit0'])} {xs}")
    if case["det"] in ("HDDDM", "CDBD"):
        a = obs["o"]["rows"][0]
        return f"show_hists {G.z(len(case['data'][0][0]))} {G.z(a['bins'])} {c08.t_data(a['ref_before'])} {c08.t_data(case['data'][1])}"
    return c10.show_term(as_c10(case, case["data"]), obs["o"])


_STATS = {}


def nontrivial(case, obs):
    if "__exception__" in obs:
        return False
    if all(p == list(range(len(p))) for p in case["perm"]):
        return False
    name = case["det"]
    if name in ("HDDDM", "CDBD"):
        rows = obs["o"]["rows"]
        if case["params"]["detect_batch"] == 2:
            div = next((i for i, (a, b) in enumerate(zip(rows, obs["p"]["rows"])) if a["ds"] != b["ds"]), None)
            _STATS["db2_cases"] = _STATS.get("db2_cases", 0) + 1
            if div is not None:
                _STATS["db2_decisions_diverged"] = _STATS.get("db2_decisions_diverged", 0) + 1
            return len(rows) >= 2
        ds = [r["ds"] for r in rows]
    elif name == "KdqTreeBatch":
        ds = [r["ds"] for r in obs["o"]["rows"]]
    else:
        ds = [s["ds"] for s in obs["o"]["steps"]]
        if len({len(b) for b in case["data"]}) > 1:
            _STATS["nndvi_unequal_sizes"] = _STATS.get("nndvi_unequal_sizes", 0) + 1
    return "drift" in ds and any(d != "drift" for d in ds)


def extra(ctx):
    return {"c18_stats": dict(_STATS)}


def drop_row(case, j, r):
    data = [list(b) for b in case["data"]]
    perm = [list(p) for p in case["perm"]]
    del data[j][r]
    perm[j] = [x - 1 if x > r else x for x in perm[j] if x != r]
    return dict(case, data=data, perm=perm)


def shrink_candidates(case):
    data, perm = case["data"], case["perm"]
    if len(data) > 2:
        yield dict(case, data=data[:-1], perm=perm[:-1])
        yield dict(case, data=data[1:], perm=perm[1:])
    for j in range(len(data)):
        if perm[j] != list(range(len(perm[j]))):
            yield dict(case, perm=perm[:j] + [list(range(len(perm[j])))] + perm[j + 1:])
    kmin = case["params"].get("k_nn", 2)
    for j in range(len(data)):
        n = len(data[j])
        if n > max(4, kmin + 1):
            for r in (n - 1, 0, n // 2):
                c = drop_row(case, j, r)
                if len(set(map(tuple, c["data"][j]))) >= kmin:
                    yield c
    if len(data[0][0]) > 1:
        nd = [[r[:-1] for r in b] for b in data]
        if all(len(set(map(tuple, b))) >= kmin for b in nd):
            yield dict(case, data=nd)


def signature(case, obs, msgs):
    return {"det": case["det"], "detect_batch": case["params"].get("detect_batch")}
