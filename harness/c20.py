"""C20 — drift injectors change only the window and columns they are asked to change.

Every case is one call of one injector.  The implementation is run on an ndarray (C order, Fortran
order, strided view, reversed view) or a DataFrame built from the rows of the case; the random draws
are replayed with the same seed and handed to the Coq model as oracle values."""
import math, os, json, warnings
from fractions import Fraction
import numpy as np
import pandas as pd
from menelaus.injection import (FeatureShiftInjector, FeatureSwapInjector, FeatureCoverInjector,
                                LabelSwapInjector, LabelJoinInjector, LabelProbabilityInjector,
                                LabelDirichletInjector, BrownianNoiseInjector)
from . import coqgen as G

warnings.filterwarnings("ignore")
np.seterr(all="ignore")

ID = "C20"
PROPS = ["Prop_C20"]
IMPORTS = ("From MV Require Import Base Num NumFloat Inject Corr_C20.\n"
           "From Coq Require Import PrimFloat String.\nOpen Scope string_scope.")
LEVEL = "proof"
SHARD = 300
CORR_NAME = ("Corr_C20: Inject.v (call_swap/call_shift/call_label_swap/call_label_join/call_label_probability/"
             "call_label_dirichlet/call_brownian/call_cover on NumFloat) = menelaus/injection/*.py, cell for cell, "
             "bit for bit, incl. container kind, column labels and _p_distribution")
TRUSTED = ["Coq 8.16.1 kernel + vm_compute, PrimFloat = IEEE binary64",
           "hand-written model coq/Inject.v tied to menelaus/injection by this comparison (all windows x columns x layouts on small data)",
           "oracle inputs replayed with the same seed: np.mean (value read from _section_mean, validated against the exact "
           "rational mean at 1e-12 relative), np.random.choice / np.random.dirichlet draws, pandas GroupBy.sample row labels "
           "(legality checked by cover_oracle_ok and replayed independently with RandomState)",
           "harness/c20.py, harness/coqgen.py (literal printer)",
           "realised class frequencies of the resampling injector: chi-square goodness of fit at 1e-6 on 3000-row windows (statistical, not a theorem)"]
RULE = ("for each injector: random small data sets (0..6 rows quick / 0..8 thorough, 1..4 columns, labels from a 2-4 value "
        "alphabet, feature cells incl. ties, -0.0, NaN, inf) x EVERY window 0<=from<=to<=n x every column choice / class pair "
        "drawn from present, absent and equal classes x layouts {C, Fortran, strided view, reversed view, DataFrame} "
        "(+ int64 arrays for the structural injectors); a few windows reaching past the data for the slice-based injectors. "
        "Dirichlet alpha dicts come in ascending and in descending / shuffled key order with clearly unequal weights; class k must get "
        "exactly the component of the seed-recomputed draw at k's position in the dict. Call sequences: for every injector class 2-4 calls on ONE reused instance alternating DataFrame and ndarray inputs with "
        "different labels / shapes / arguments, each call judged exactly like a single call (plus the attribute _columns against the model). "
        "np.random.seed(case seed) before every call; draws are recomputed with the same seed for the model. "
        "Non-trivial: the window is non-empty and the output differs from the input (resampling: window holds >= 2 different rows; "
        "cover: >= 2 groups and n >= 1). The minimal inputs on which the code failed before its repair (Dirichlet draw summing to "
        "1+ulp, present class with probability 0 and negative rounding leftover, FeatureCover on data without rows) run first.")


INJ = {"swap": FeatureSwapInjector, "shift": FeatureShiftInjector, "cover": FeatureCoverInjector,
       "lswap": LabelSwapInjector, "join": LabelJoinInjector, "prob": LabelProbabilityInjector,
       "dirichlet": LabelDirichletInjector, "brownian": BrownianNoiseInjector}
LAYOUTS = ["C", "F", "strided", "reversed", "df"]
STRUCTURAL = ("swap", "lswap", "join", "prob", "cover")


# ------------------------------------------------------------------------------- inputs
def build_input(case):
    """returns (object handed to the injector, array owning the memory)"""
    n, w = len(case["rows"]), case["w"]
    dt = np.int64 if case.get("dtype") == "int" else np.float64
    a = np.array(case["rows"], dtype=dt).reshape(n, w)
    lay = case["layout"]
    if lay == "C":
        x = np.ascontiguousarray(a); return x, x
    if lay == "F":
        x = np.asfortranarray(a); return x, x
    if lay == "strided":
        base = np.full((2 * n + 3, 3 * w + 2), 77, dtype=dt)
        base[1:1 + 2 * n:2, 1:1 + 3 * w:3] = a
        return base[1:1 + 2 * n:2, 1:1 + 3 * w:3], base
    if lay == "reversed":
        base = np.ascontiguousarray(a[::-1, ::-1])
        return base[::-1, ::-1], base
    if lay == "df":
        x = pd.DataFrame(np.ascontiguousarray(a), columns=list(case["names"]))
        return x, x
    raise ValueError(lay)


def colarg(case, c):
    return case["names"][c] if case["layout"] == "df" and isinstance(c, int) and 0 <= c < len(case["names"]) else c


def snapshot(obj, base):
    if isinstance(obj, pd.DataFrame):
        return (obj.to_numpy().tobytes(), list(obj.columns), list(obj.index), [str(t) for t in obj.dtypes], obj.shape)
    return (base.tobytes(), base.shape, base.strides, obj.shape, obj.strides, str(obj.dtype))


def describe(out):
    if isinstance(out, pd.DataFrame):
        return {"type": "DataFrame", "shape": list(out.shape), "columns": [str(c) for c in out.columns],
                "dtypes": sorted({str(t) for t in out.dtypes}), "index_default": list(out.index) == list(range(len(out))),
                "rows": [[float(v) for v in r] for r in out.to_numpy().tolist()]}
    if isinstance(out, np.ndarray):
        return {"type": "ndarray", "shape": list(out.shape), "columns": None, "dtypes": [str(out.dtype)],
                "rows": [[float(v) for v in r] for r in out.tolist()] if out.ndim == 2 else None}
    return {"type": type(out).__name__, "shape": None, "columns": None, "dtypes": [], "rows": None}


def call(case, obj, inj=None):
    a = case["args"]
    inj = inj or INJ[case["inj"]]()
    k, f, t = case["inj"], case["from"], case["to"]
    if k == "swap":
        return inj, inj(obj, f, t, colarg(case, a["c1"]), colarg(case, a["c2"]))
    if k == "shift":
        if a.get("alpha") is None:
            return inj, inj(obj, f, t, colarg(case, a["col"]), a["sf"])
        return inj, inj(obj, f, t, colarg(case, a["col"]), a["sf"], a["alpha"])
    if k == "lswap":
        return inj, inj(obj, f, t, colarg(case, a["col"]), a["k1"], a["k2"])
    if k == "join":
        return inj, inj(obj, f, t, colarg(case, a["col"]), a["k1"], a["k2"], a["knew"])
    if k == "prob":
        return inj, inj(obj, f, t, colarg(case, a["col"]), a["_dict"])
    if k == "dirichlet":
        return inj, inj(obj, f, t, colarg(case, a["col"]), a["_dict"])
    if k == "brownian":
        return inj, inj(obj, f, t, colarg(case, a["col"]), a["x0"], random_state=a["rs"])
    if k == "cover":
        return inj, inj(obj, colarg(case, a["col"]), a["size"], random_state=a["rs"])
    raise ValueError(k)


def run_impl(case):
    if case["inj"] == "freq":
        return run_freq(case)
    if case["inj"] == "seq":
        # one instance reused for every call of the sequence
        inj = INJ[case["cls"]]()
        return {"raised": None, "calls": [run_one(sub, inj) for sub in case["calls"]]}
    return run_one(case)


def run_one(case, shared=None):
    case = dict(case, args=dict(case["args"]))
    a = case["args"]
    k = case["inj"]
    if k == "prob":
        a["_dict"] = {kv[0]: kv[1] for kv in a["cp"]}
    if k == "dirichlet":
        a["_dict"] = {kv[0]: kv[1] for kv in a["alpha"]}
    dict_before = list(a["_dict"].items()) if "_dict" in a else None
    obj, base = build_input(case)
    before = snapshot(obj, base)
    obs = {"oracle": {}}
    np.random.seed(case["seed"])
    inj = shared if shared is not None else INJ[k]()
    for stale in ("_p_distribution", "_section_mean", "_dirichlet_distribution"):
        # observation attributes of an earlier call on a reused instance (the code assigns them before reading)
        if stale in getattr(inj, "__dict__", {}):
            delattr(inj, stale)
    handed = []        # the class -> probability tables really handed to LabelProbabilityInjector.__call__ (public method)
    orig_call = LabelProbabilityInjector.__call__
    def _spy(self, data, from_index, to_index, target_col, class_probabilities, *aa, **kk):
        try:
            handed.append([[float(kk_), float(vv_)] for kk_, vv_ in dict(class_probabilities).items()])
        except Exception:
            handed.append(None)
        return orig_call(self, data, from_index, to_index, target_col, class_probabilities, *aa, **kk)
    if k == "dirichlet":
        LabelProbabilityInjector.__call__ = _spy
    try:
        try:
            _, out = call(case, obj, inj)
        finally:
            LabelProbabilityInjector.__call__ = orig_call
        obs.update(describe(out))
        obs["aliases_input"] = bool(np.shares_memory(out.to_numpy() if isinstance(out, pd.DataFrame) else out, base.to_numpy() if isinstance(base, pd.DataFrame) else base))
        obs["raised"] = None
    except Exception as e:
        out = None
        obs["raised"] = f"{type(e).__name__}: {str(e)[:700]}"
        obs.update({"type": None, "shape": None, "columns": None, "dtypes": [], "rows": None})
    cols_attr = getattr(inj, "_columns", None)
    obs["state_columns"] = None if cols_attr is None else [str(c) for c in cols_attr]
    obs["input_unchanged"] = snapshot(obj, base) == before
    if dict_before is not None:
        obs["dict_unchanged"] = list(a["_dict"].items()) == dict_before and all(
            type(x[1]) is type(y[1]) for x, y in zip(a["_dict"].items(), dict_before))
    orc = obs["oracle"]
    n = len(case["rows"])
    steps = case["to"] - case["from"]
    # ---- replay of the random / library parts -------------------------------------------------
    if k == "shift" and out is not None:
        sm = getattr(inj, "_section_mean", None)        # private, optional: the value np.mean returned
        orc["mean"] = None if sm is None else float(sm)
    if k == "brownian":
        np.random.seed(a["rs"])
        orc["signs"] = [int(np.random.choice([1, -1])) for _ in range(max(0, steps - 1))]
    if k == "prob":
        p = [float(v) for v in inj._p_distribution] if hasattr(inj, "_p_distribution") else None
        orc["p"] = p
        orc["positions"] = []
        if p and out is not None:
            np.random.seed(case["seed"])
            orc["positions"] = [int(v) for v in np.random.choice(len(p), steps, True, p)]
    if k == "dirichlet":
        vals = [kv[1] for kv in a["alpha"]]
        np.random.seed(case["seed"])
        d = np.random.dirichlet(vals)
        st = np.random.get_state()
        orc["dir"] = [float(v) for v in d]
        if hasattr(inj, "_dirichlet_distribution") and [float(v) for v in inj._dirichlet_distribution] != orc["dir"]:
            orc["dir_replay_mismatch"] = True
        orc["p"], orc["positions"] = None, []
        # the class -> probability table the injector really handed on (attribute of the outer instance)
        table = getattr(inj, "_dirichlet_probabilities", None)
        orc["dir_probs"] = None if table is None else [[float(kk), float(vv)] for kk, vv in table.items()]
        if orc["dir_probs"] is None and handed and handed[-1] is not None:
            orc["dir_probs"] = handed[-1]          # name-independent: the argument of the public inner call
        orc["dir_probs_handed"] = handed[-1] if handed else None
        if out is not None:
            helper = LabelProbabilityInjector()
            obj2, _ = build_input(case)
            try:
                # _p_distribution of the inner call is not reachable: recompute it from the table really passed on
                helper(obj2, case["from"], case["to"], colarg(case, a["col"]),
                       dict(table) if table is not None else dict(zip([kv[0] for kv in a["alpha"]], d)))
                p = [float(v) for v in getattr(helper, "_p_distribution")]
                orc["p"] = p
                if p:
                    np.random.set_state(st)
                    orc["positions"] = [int(v) for v in np.random.choice(len(p), steps, True, p)]
            except Exception as e:
                orc["helper_raised"] = f"{type(e).__name__}: {e}"
    if k == "cover":
        orc["idxs"] = []
        if out is not None:
            obj2, _ = build_input(case)
            dfc = pd.DataFrame(np.copy(obj2), columns=(obj2.columns if isinstance(obj2, pd.DataFrame) else None))
            key = colarg(case, a["col"])
            ng = len(dfc[key].unique())
            nn = a["size"] // ng if ng else 0
            np.random.seed(case["seed"])
            orc["idxs"] = [int(i) for i in dfc.groupby(key).sample(n=nn, random_state=a["rs"]).index]
    # ---- second application (involutions) ------------------------------------------------------
    if k in ("swap", "lswap") and out is not None:
        try:
            _, out2 = call(case, out)
            obs["twice"] = describe(out2)["rows"]
        except Exception as e:
            obs["twice"] = f"{type(e).__name__}: {e}"
    return obs


# ------------------------------------------------------------------------------- direct check
def same(a, b):
    if math.isnan(a) or math.isnan(b):
        return math.isnan(a) and math.isnan(b)
    return a == b and math.copysign(1, a) == math.copysign(1, b)


def veq(a, b):
    """equal as numbers (NaN = NaN, -0.0 = 0.0)"""
    return (math.isnan(a) and math.isnan(b)) or a == b


def rows_same(r, s):
    return len(r) == len(s) and all(same(x, y) for x, y in zip(r, s))


def close(a, b, scale):
    if math.isnan(a) or math.isnan(b):
        return math.isnan(a) and math.isnan(b)
    if math.isinf(a) or math.isinf(b):
        return a == b
    return abs(a - b) <= 1e-9 * max(1.0, scale)


def expected_error(case):
    """errors that the documentation of the injectors / of pandas announces for this input"""
    a, k = case["args"], case["inj"]
    rows = case["rows"]
    if k == "prob":
        tot = 0
        for kv in a["cp"]:
            tot = tot + kv[1]
        if tot > 1.0 + 1e-9:
            return "exceed 1"
        labels = [r[a["col"]] for r in rows]
        if any(not any(kv[0] == x for x in labels) for kv in a["cp"]):
            return "not found in data"
    if k == "dirichlet":
        labels = [r[a["col"]] for r in rows]
        if any(not any(kv[0] == x for x in labels) for kv in a["alpha"]):
            return "not found in data"
    if k == "cover" and rows and a["size"] >= 0:
        labels = [r[a["col"]] for r in rows]
        groups = {}
        for x in labels:
            groups[x] = groups.get(x, 0) + 1
        nn = a["size"] // len(groups)
        if any(nn > g for g in groups.values()):
            return "larger sample than population"
    return None


def reason_of(case, obs):
    r = obs.get("raised") or ""
    return r.split(":")[0] if r else None


def direct_check(case, obs):
    if "__exception__" in obs:
        return [f"harness could not run the case: {obs['__exception__']}: {obs.get('__message__')}"]
    if case["inj"] == "freq":
        return check_freq(case, obs)
    if case["inj"] == "seq":
        # every call of the sequence is judged exactly like a single call on a fresh instance
        msgs = []
        for i, (sub, o) in enumerate(zip(case["calls"], obs["calls"])):
            msgs += [f"call {i + 1} of {len(case['calls'])} on one {INJ[case['cls']].__name__} instance "
                     f"(inputs so far: {[c['layout'] for c in case['calls'][:i + 1]]}): {m}" for m in direct_check(sub, o)]
            if msgs:
                break
        return msgs[:4]
    msgs = []
    a, k = case["args"], case["inj"]
    rows, w = case["rows"], case["w"]
    n = len(rows)
    f, t = case["from"], case["to"]
    if not obs["input_unchanged"]:
        msgs.append(f"{k}: the input object was modified by the call")
    if obs.get("dict_unchanged") is False:
        msgs.append(f"{k}: the dict argument was modified by the call")
    exp_err = expected_error(case)
    if obs["raised"]:
        if exp_err and exp_err in obs["raised"]:
            return msgs
        return msgs + [f"{k} on {case['layout']} data {rows}, window [{f},{t}), args {pub(a)}, seed {case['seed']}: raised {obs['raised'][:200]}"]
    if exp_err:
        return msgs + [f"{k}: expected an error ({exp_err}) but the call returned"]
    out = obs["rows"]
    want_type = "DataFrame" if case["layout"] == "df" else "ndarray"
    if obs["type"] != want_type:
        msgs.append(f"{k}: returned a {obs['type']} for a {want_type}")
    if obs.get("aliases_input"):
        msgs.append(f"{k}: the returned object shares memory with the input")
    if case["layout"] != "df" and obs["dtypes"] != [("int64" if case.get("dtype") == "int" else "float64")]:
        msgs.append(f"{k}: dtype changed to {obs['dtypes']}")
    if case["layout"] == "df" and obs["dtypes"] != ["float64"] and obs["shape"][1] > 0:
        msgs.append(f"{k}: DataFrame dtypes changed to {obs['dtypes']}")
    win = [i for i in range(n) if f <= i < t]
    if k == "cover":
        return msgs + check_cover(case, obs)
    # ---- shape / labels -------------------------------------------------------------------
    if obs["shape"] != [n, w]:
        return msgs + [f"{k}: shape {obs['shape']} instead of {[n, w]}"]
    if case["layout"] == "df" and obs["columns"] != list(case["names"]):
        msgs.append(f"{k}: column labels {obs['columns']} instead of {case['names']}")
    # ---- frame ----------------------------------------------------------------------------
    targets = {"swap": lambda: {a["c1"], a["c2"]}, "prob": lambda: set(range(w)), "dirichlet": lambda: set(range(w))}
    tcols = targets.get(k, lambda: {a["col"]})()
    for i in range(n):
        for j in range(w):
            if (i not in win or j not in tcols) and not same(out[i][j], rows[i][j]):
                msgs.append(f"{k}: cell ({i},{j}) outside window [{f},{t}) x columns {sorted(tcols)} changed "
                            f"from {rows[i][j]!r} to {out[i][j]!r}")
    if msgs:
        return msgs[:4]
    # ---- effect inside the window ---------------------------------------------------------
    if k == "swap":
        c1, c2 = a["c1"], a["c2"]
        for i in win:
            if not (same(out[i][c1], rows[i][c2]) and same(out[i][c2], rows[i][c1])):
                msgs.append(f"swap: row {i}: columns {c1},{c2} are {out[i][c1]!r},{out[i][c2]!r}, input had {rows[i][c1]!r},{rows[i][c2]!r}")
        tw = obs.get("twice")
        if not isinstance(tw, list) or len(tw) != n or any(not rows_same(x, y) for x, y in zip(tw, rows)):
            msgs.append(f"swap: applying the swap twice does not restore the input: {tw}")
    elif k == "lswap":
        c, k1, k2 = a["col"], a["k1"], a["k2"]
        for i in win:
            x, y = rows[i][c], out[i][c]
            if k1 == k2:
                ok = veq(x, y)
            elif x == k1:
                ok = same(y, float(k2))
            elif x == k2:
                ok = same(y, float(k1))
            else:
                ok = same(x, y)
            if not ok:
                msgs.append(f"label swap {k1}<->{k2}: row {i}: {x!r} became {y!r}")
        tw = obs.get("twice")
        if not isinstance(tw, list) or len(tw) != n or any(
                len(x) != len(y) or any(not veq(p, q) for p, q in zip(x, y)) for x, y in zip(tw, rows)):
            msgs.append(f"label swap: applying the swap twice does not restore the input: {tw}")
    elif k == "join":
        c, k1, k2, kn = a["col"], a["k1"], a["k2"], a["knew"]
        for i in win:
            x, y = rows[i][c], out[i][c]
            ok = same(y, float(kn)) if (x == k1 or x == k2) else same(x, y)
            if not ok:
                msgs.append(f"label join {k1},{k2}->{kn}: row {i}: {x!r} became {y!r}")
    elif k == "shift":
        c = a["col"]
        alpha = 0.001 if a.get("alpha") is None else a["alpha"]
        xs = [rows[i][c] for i in win]
        if xs and all(math.isfinite(x) for x in xs) and math.isfinite(a["sf"]) and math.isfinite(alpha):
            mean = Fraction(0)
            for x in xs:
                mean += Fraction(x)
            mean /= len(xs)
            delta = Fraction(a["sf"]) * (Fraction(alpha) + mean)
            scale = max([abs(x) for x in xs] + [abs(float(delta))])
            if obs["oracle"].get("mean") is not None and abs(Fraction(obs["oracle"]["mean"]) - mean) > Fraction(1, 10**12) * Fraction(max(1.0, max(abs(x) for x in xs))):
                msgs.append(f"shift: np.mean of the window column returned {obs['oracle']['mean']!r}, exact mean {float(mean)!r}")
            for i in win:
                if not close(out[i][c], float(Fraction(rows[i][c]) + delta), scale):
                    msgs.append(f"shift: row {i}: {rows[i][c]!r} became {out[i][c]!r}, expected {float(Fraction(rows[i][c]) + delta)!r}")
    elif k == "brownian":
        c = a["col"]
        xs = [rows[i][c] for i in win]
        if xs and all(math.isfinite(x) for x in xs):
            steps = t - f
            noise = [Fraction(out[i][c]) - Fraction(rows[i][c]) for i in win]
            scale = max([abs(x) for x in xs] + [abs(a["x0"]), float(steps)])
            tol = Fraction(1, 10**9) * Fraction(max(1.0, scale))
            if abs(noise[0] - Fraction(a["x0"])) > tol:
                msgs.append(f"brownian: first noise value {float(noise[0])!r} is not x0={a['x0']!r}")
            step = 1 / math.sqrt(steps)
            for j in range(1, len(noise)):
                inc = noise[j] - noise[j - 1]
                if abs(abs(inc) - Fraction(step)) > tol:
                    msgs.append(f"brownian: increment {j} is {float(inc)!r}, expected +-{step!r}")
                elif (inc > 0) != (obs["oracle"]["signs"][j - 1] > 0):
                    msgs.append(f"brownian: increment {j} has the opposite sign of the replayed draw")
    elif k in ("prob", "dirichlet"):
        if k == "dirichlet":
            msgs += check_dirichlet_assignment(case, obs)
        wrows = [rows[i] for i in win]
        for i in win:
            if not any(rows_same(out[i], r) for r in wrows):
                msgs.append(f"{k}: new row {i} = {out[i]} is not a row of the old window {wrows}")
        msgs += check_pdist(case, obs, win)
    return msgs[:4]


def check_dirichlet_assignment(case, obs):
    """class k must get exactly draw[position of k in the alpha dict], the draw being made with the alpha values in
    dict order (recomputed from the seed)"""
    orc, alpha = obs["oracle"], case["args"]["alpha"]
    msgs = []
    if orc.get("dir_replay_mismatch"):
        msgs.append(f"dirichlet: the recorded draw differs from np.random.dirichlet({[kv[1] for kv in alpha]}) under the same seed")
    table = orc.get("dir_probs")
    if table is None:
        return msgs          # neither the private attribute nor the inner public call could be observed: sub-check not evaluated
    h = orc.get("dir_probs_handed")
    if h is not None and sorted(map(tuple, h)) != sorted(map(tuple, table)):
        msgs.append(f"dirichlet: the table handed to LabelProbabilityInjector {h} differs from the recorded one {table}")
    got = {kv[0]: kv[1] for kv in table}
    if sorted(got) != sorted(kv[0] for kv in alpha):
        msgs.append(f"dirichlet: table has classes {sorted(got)}, alpha has {sorted(kv[0] for kv in alpha)}")
    for pos, (key, weight) in enumerate(alpha):
        if key in got and not same(got[key], orc["dir"][pos]):
            msgs.append(f"dirichlet: class {key} (weight {weight}, position {pos} of alpha {alpha}) was given probability "
                        f"{got[key]!r}, its component of the draw is {orc['dir'][pos]!r} (draw {orc['dir']})")
    return msgs[:2]


def check_pdist(case, obs, win):
    """exact (rational) statement about the recorded _p_distribution"""
    a, k = case["args"], case["inj"]
    p = obs["oracle"].get("p")
    if p is None:
        return []        # the private attribute is not readable: sub-check not evaluated
    if len(p) != len(win):
        return [f"{k}: _p_distribution has {len(p)} entries for a window of {len(win)} rows"]
    if not win:
        return []
    msgs = []
    if any(v < 0 for v in p):
        msgs.append(f"{k}: negative entry in _p_distribution {p}")
    tot = sum(Fraction(v) for v in p)
    if abs(tot - 1) > Fraction(2, 10**9):
        msgs.append(f"{k}: _p_distribution sums to {float(tot)!r}")
    rows, c = case["rows"], a["col"]
    labels_all = sorted({r[c] for r in rows})
    req = {kv[0]: Fraction(kv[1]) for kv in a["cp"]} if k == "prob" else dict(
        zip([kv[0] for kv in a["alpha"]], [Fraction(v) for v in obs["oracle"]["dir"]]))
    undef = [x for x in labels_all if x not in req]
    missing = max(Fraction(0), 1 - sum(req.values()))
    for x in undef:
        req[x] = missing / len(undef)
    cnt = {x: sum(1 for i in win if rows[i][c] == x) for x in labels_all}
    present_mass = sum(req[x] for x in labels_all if cnt[x] > 0)
    lo = (1 - present_mass) / len(win)
    pos = 0
    for x in labels_all:                      # blocks are laid out in np.unique order
        block = p[pos:pos + cnt[x]]; pos += cnt[x]
        if cnt[x] == 0:
            continue
        want = req[x] + cnt[x] * lo
        got = sum(Fraction(v) for v in block)
        if abs(got - want) > Fraction(2, 10**9):
            msgs.append(f"{k}: class {x} has mass {float(got)!r} in _p_distribution, requested {float(req[x])!r} "
                        f"(+ share {float(cnt[x] * lo)!r} of the mass of absent classes)")
        if any(abs(Fraction(v) - want / cnt[x]) > Fraction(2, 10**9) for v in block):
            msgs.append(f"{k}: class {x}: members do not share the class mass equally: {block}")
    return msgs


def check_cover(case, obs):
    a = case["args"]
    rows, w, c = case["rows"], case["w"], a["col"]
    out = obs["rows"]
    msgs = []
    labels = [r[c] for r in rows]
    groups = sorted(set(labels))
    nn = a["size"] // len(groups) if groups else 0
    if obs["shape"] != [nn * len(groups), w - 1]:
        return [f"cover: shape {obs['shape']}, expected {[nn * len(groups), w - 1]} ({len(groups)} groups x {nn} rows, {w - 1} columns)"]
    if case["layout"] == "df":
        want = [x for j, x in enumerate(case["names"]) if j != c]
        if obs["columns"] != want:
            msgs.append(f"cover: column labels {obs['columns']} instead of {want}")
    idxs = obs["oracle"]["idxs"]
    if len(idxs) != len(out):
        return msgs + [f"cover: oracle returned {len(idxs)} row labels for {len(out)} rows"]
    for g, x in enumerate(groups):
        chunk = idxs[g * nn:(g + 1) * nn]
        if len(set(chunk)) != nn or any(not (0 <= i < len(rows)) or labels[i] != x for i in chunk):
            msgs.append(f"cover: rows {chunk} returned for group {x} are not {nn} distinct rows of that group")
    for pos, i in enumerate(idxs):
        if 0 <= i < len(rows) and not rows_same(out[pos], rows[i][:c] + rows[i][c + 1:]):
            msgs.append(f"cover: output row {pos} = {out[pos]} is not input row {i} without column {c}")
    # independent replay of pandas' sampling with a private RandomState
    if a["rs"] is not None and not msgs:
        rs = np.random.RandomState(a["rs"])
        rep = []
        for x in groups:
            g = [i for i, l in enumerate(labels) if l == x]
            rep += [g[j] for j in rs.choice(len(g), size=nn, replace=False)]
        if rep != idxs:
            msgs.append(f"cover: sampled rows {idxs} differ from the RandomState replay {rep}")
    return msgs[:4]


def pub(a):
    return {k: v for k, v in a.items() if not k.startswith("_")}


# ------------------------------------------------------------------------------- Coq terms
def frows(rows):
    return G.lst([G.lst([G.flt(x) for x in r]) for r in rows])


def cstr(s):
    return '"' + str(s).replace('"', '""') + '"'


def frame_term(case, rows=None, cols=None):
    rows = case["rows"] if rows is None else rows
    if case["layout"] == "df":
        cols = case["names"] if cols is None else cols
        return f"(DF {G.lst([cstr(c) for c in cols])} {frows(rows)})"
    return f"(Arr {frows(rows)})"


def cref(case, c):
    if case["layout"] == "df":
        return f"(ByName {cstr(case['names'][c])})"
    return f"(ByIdx {G.z(c)})"


def exp_term(case, obs, rows=None):
    if obs["raised"]:
        return "None"
    rows = obs["rows"] if rows is None else rows
    if obs["type"] == "DataFrame":
        return f"(Some (DF {G.lst([cstr(c) for c in obs['columns']])} {frows(rows)}))"
    if obs["type"] == "ndarray":
        return f"(Some (Arr {frows(rows)}))"
    return "None"


def state_term(case, obs):
    """the attribute _columns left on the instance (LabelDirichletInjector delegates and keeps none)"""
    if case["inj"] == "dirichlet":
        return "true"
    st = obs.get("state_columns")
    exp = "None" if st is None else f"(Some {G.lst([cstr(c) for c in st])})"
    return f"chk_state {frame_term(case)} {exp}"


def coq_term(case, obs):
    if case["inj"] == "freq":
        return None
    if "__exception__" in obs:
        return "false"
    if case["inj"] == "seq":
        parts = []
        for sub, o in zip(case["calls"], obs["calls"]):
            t = coq_term(sub, o)
            parts.append(state_term(sub, o) if t is None else f"({t}) && {state_term(sub, o)}")
        return " && ".join(parts)
    a, k = case["args"], case["inj"]
    fr, f, t = frame_term(case), G.z(case["from"]), G.z(case["to"])
    exp = exp_term(case, obs)
    orc = obs["oracle"]
    if k == "swap":
        term = f"chk_swap {fr} {f} {t} {cref(case, a['c1'])} {cref(case, a['c2'])} {exp}"
        if isinstance(obs.get("twice"), list):
            term += f" && chk_swap_twice {fr} {f} {t} {cref(case, a['c1'])} {cref(case, a['c2'])} {exp_term(case, obs, obs['twice'])}"
        return term
    if k == "lswap":
        term = f"chk_label_swap {fr} {f} {t} {cref(case, a['col'])} {G.flt(a['k1'])} {G.flt(a['k2'])} {exp}"
        if isinstance(obs.get("twice"), list):
            term += (f" && chk_label_swap_twice {fr} {f} {t} {cref(case, a['col'])} {G.flt(a['k1'])} {G.flt(a['k2'])} "
                     f"{exp_term(case, obs, obs['twice'])}")
        return term
    if k == "join":
        return (f"chk_label_join {fr} {f} {t} {cref(case, a['col'])} {G.flt(a['k1'])} {G.flt(a['k2'])} "
                f"{G.flt(a['knew'])} {exp}")
    if k == "shift":
        alpha = 0.001 if a.get("alpha") is None else a["alpha"]
        m = orc.get("mean")
        if m is None:
            return None     # the mean oracle (np.mean of the window column) is not readable: not model-checked
        return f"chk_shift {fr} {f} {t} {cref(case, a['col'])} {G.flt(a['sf'])} {G.flt(alpha)} {G.flt(m)} {exp}"
    if k == "brownian":
        return f"chk_brownian {fr} {f} {t} {cref(case, a['col'])} {G.flt(a['x0'])} {G.zlist(orc['signs'])} {exp}"
    if k == "prob":
        cp = G.lst([f"({G.flt(kv[0])}, {G.flt(kv[1])})" for kv in a["cp"]])
        p = "None" if orc.get("p") is None else f"(Some {G.fltlist(orc['p'])})"
        return f"chk_label_probability {fr} {f} {t} {cref(case, a['col'])} {cp} {G.zlist(orc['positions'])} {p} {exp}"
    if k == "dirichlet":
        keys = G.fltlist([kv[0] for kv in a["alpha"]])
        p = "None" if orc.get("p") is None else f"(Some {G.fltlist(orc['p'])})"
        return (f"chk_label_dirichlet {fr} {f} {t} {cref(case, a['col'])} {keys} {G.fltlist(orc['dir'])} "
                f"{G.zlist(orc['positions'])} {p} {exp}")
    if k == "cover":
        return f"chk_cover {fr} {cref(case, a['col'])} {G.z(a['size'])} {G.zlist(orc['idxs'])} {exp}"
    return None


def show_term(case, obs):
    if case["inj"] == "seq":
        return "(" + ", ".join(f"({show_term(sub, o)}, {state_term(sub, o)})" for sub, o in zip(case["calls"], obs["calls"])) + ")"
    a, k = case["args"], case["inj"]
    fr, f, t = frame_term(case), G.z(case["from"]), G.z(case["to"])
    orc = obs.get("oracle", {})
    if k == "swap":
        return f"show_rows (call_swap String.eqb {fr} {f} {t} {cref(case, a['c1'])} {cref(case, a['c2'])})"
    if k == "lswap":
        return f"show_rows (call_label_swap String.eqb feq {fr} {f} {t} {cref(case, a['col'])} {G.flt(a['k1'])} {G.flt(a['k2'])})"
    if k == "join":
        return (f"show_rows (call_label_join String.eqb feq {fr} {f} {t} {cref(case, a['col'])} {G.flt(a['k1'])} "
                f"{G.flt(a['k2'])} {G.flt(a['knew'])})")
    if k == "shift":
        alpha = 0.001 if a.get("alpha") is None else a["alpha"]
        return (f"show_rows (call_shift NumFloat String.eqb (fun _ => {G.flt(orc.get('mean', 0.0))}) {fr} {f} {t} "
                f"{cref(case, a['col'])} {G.flt(a['sf'])} {G.flt(alpha)})")
    if k == "brownian":
        return (f"show_rows (call_brownian NumFloat String.eqb {fr} {f} {t} {cref(case, a['col'])} {G.flt(a['x0'])} "
                f"{G.zlist(orc.get('signs', []))})")
    if k == "prob":
        cp = G.lst([f"({G.flt(kv[0])}, {G.flt(kv[1])})" for kv in a["cp"]])
        return (f"(show_rows (call_label_probability NumFloat String.eqb tol9 {fr} {f} {t} {cref(case, a['col'])} {cp} "
                f"{G.zlist(orc.get('positions', []))}), p_distribution NumFloat tol9 {f} {t} {G.z(a['col'])} {cp} (rows_of {fr}))")
    if k == "dirichlet":
        keys = G.fltlist([kv[0] for kv in a["alpha"]])
        return (f"show_rows (call_label_dirichlet NumFloat String.eqb tol9 {fr} {f} {t} {cref(case, a['col'])} {keys} "
                f"{G.fltlist(orc.get('dir', []))} {G.zlist(orc.get('positions', []))})")
    return (f"show_rows (call_cover String.eqb feq flt 0%float {fr} {cref(case, a['col'])} {G.z(a['size'])} "
            f"{G.zlist(orc.get('idxs', []))})")


def nontrivial(case, obs):
    if "__exception__" in obs or obs.get("raised"):
        return False
    if case["inj"] == "freq":
        return True
    if case["inj"] == "seq":
        kinds = ["df" if c["layout"] == "df" else "array" for c in case["calls"]]
        return len(set(kinds)) == 2 and any(nontrivial(c, o) for c, o in zip(case["calls"], obs["calls"]))
    rows, out = case["rows"], obs["rows"]
    k = case["inj"]
    if k == "cover":
        groups = {r[case["args"]["col"]] for r in rows}
        return len(groups) >= 2 and len(out) >= len(groups)
    win = [i for i in range(len(rows)) if case["from"] <= i < case["to"]]
    if not win:
        return False
    if k in ("prob", "dirichlet"):
        return any(not rows_same(rows[i], rows[win[0]]) for i in win)
    return any(not rows_same(x, y) for x, y in zip(rows, out))


def signature(case, obs, msgs):
    if case["inj"] == "seq":
        return {"inj": "seq", "cls": case["cls"], "layouts": [c["layout"] for c in case["calls"]]}
    return {"inj": case["inj"], "layout": case["layout"], "reason": reason_of(case, obs) if isinstance(obs, dict) and "raised" in obs else None}


def shrink_candidates(case):
    if case["inj"] == "freq":
        return
    if case["inj"] == "seq":
        calls = case["calls"]
        for i in range(len(calls)):
            if len(calls) > 1:
                yield dict(case, calls=calls[:i] + calls[i + 1:])
        for i, sub in enumerate(calls):
            for small in shrink_candidates(sub):
                yield dict(case, calls=calls[:i] + [small] + calls[i + 1:])
        return
    rows = case["rows"]
    n = len(rows)
    if case["layout"] != "C":
        yield dict(case, layout="C")
    # drop a row (keep the window consistent)
    for i in range(n - 1, -1, -1):
        f, t = case["from"], case["to"]
        f2 = f - 1 if i < f else f
        t2 = t - 1 if i < t else t
        yield dict(case, rows=rows[:i] + rows[i + 1:], **{"from": f2, "to": t2})
    if case["to"] - case["from"] > 0:
        yield dict(case, to=case["to"] - 1)
        yield dict(case, **{"from": case["from"] + 1})
    # simplify cells
    for i in range(n):
        for j in range(case["w"]):
            if rows[i][j] not in (0.0, 1.0) and not (case["inj"] in ("prob", "dirichlet", "cover", "lswap", "join")
                                                      and j == case["args"].get("col")):
                r2 = [list(r) for r in rows]; r2[i][j] = float(j + 1 == 1)
                yield dict(case, rows=r2)


# ------------------------------------------------------------------------------- generators
SPECIAL = [0.0, -0.0, 1.0, -1.0, 0.5, 2.0, 1e-3, 1e6, -3.25, float("nan"), float("inf"), 7.0, 0.1]
NAMES = ["a", "b", "c", "d", "e"]


def feature_cell(rng, finite=False):
    r = rng.random()
    if r < 0.45:
        return float(rng.randint(-3, 6))
    if r < 0.75:
        x = rng.choice(SPECIAL)
        if finite and not math.isfinite(x):
            return 0.25
        return x
    return rng.choice([rng.uniform(-5, 5), rng.gauss(0, 1) * 1e3, rng.random()])


def make_rows(rng, n, w, label_col=None, nlabels=3, finite=False, intlike=False):
    alphabet = rng.sample([0.0, 1.0, 2.0, 3.0, 5.0, -1.0], nlabels)
    rows = []
    for _ in range(n):
        r = [float(rng.randint(-3, 6)) if intlike else feature_cell(rng, finite) for _ in range(w)]
        if label_col is not None:
            r[label_col] = rng.choice(alphabet)
        rows.append(r)
    return rows, alphabet


def windows(n, rng=None, extra=False):
    ws = [(f, t) for f in range(n + 1) for t in range(f, n + 1)]
    if extra:
        ws += [(0, n + 2), (n, n + 1), (n + 1, n + 3)] + ([(2, 1)] if n >= 2 else [])
    return ws


def gen_cases(ctx):
    rng = ctx.rng
    # the minimal inputs of the three repaired defects run first (see notes/design_C20.md)
    cases = [
        {"inj": "dirichlet", "layout": "C", "dtype": "float", "rows": [[0.0], [1.0]], "w": 1, "names": ["a"],
         "from": 0, "to": 2, "args": {"col": 0, "alpha": [[0.0, 1.0], [1.0, 1.0]]}, "seed": 12},
        {"inj": "prob", "layout": "C", "dtype": "float", "rows": [[0.0], [1.0], [2.0], [2.0], [2.0], [2.0]],
         "w": 1, "names": ["a"], "from": 0, "to": 6, "args": {"col": 0, "cp": [[0.0, 0.0], [1.0, 1.0 / 3.0]]}, "seed": 0},
        {"inj": "cover", "layout": "C", "dtype": "float", "rows": [], "w": 2, "names": ["a", "b"],
         "from": 0, "to": 0, "args": {"col": 0, "size": 4, "rs": None}, "seed": 1},
        {"inj": "cover", "layout": "df", "dtype": "float", "rows": [], "w": 2, "names": ["a", "b"],
         "from": 0, "to": 0, "args": {"col": 1, "size": 0, "rs": 3}, "seed": 2},
    ]
    ctx.stats["repaired_defect_witnesses"] = len(cases)
    # alpha dict in descending key order with unequal weights ({1: 2, 0: 8}): class 0 must get the second component
    cases.append({"inj": "dirichlet", "layout": "C", "dtype": "float",
                  "rows": [[0.0, 10.0], [1.0, 11.0], [0.0, 12.0], [1.0, 13.0], [1.0, 14.0], [0.0, 15.0]], "w": 2,
                  "names": ["a", "b"], "from": 0, "to": 6, "args": {"col": 0, "alpha": [[1.0, 2.0], [0.0, 8.0]]}, "seed": 3})
    seedc = [0]

    def nseed():
        seedc[0] += 1
        return (ctx.seed * 7919 + seedc[0] * 104729) % (2**31 - 1)

    layc = [0]

    def add(inj, rows, w, f, t, args, layout=None, dtype="float"):
        if layout is None:
            layout = LAYOUTS[layc[0] % len(LAYOUTS)]; layc[0] += 1
        case = {"inj": inj, "layout": layout, "dtype": dtype, "rows": rows, "w": w, "names": NAMES[:w],
                "from": f, "to": t, "args": args, "seed": nseed()}
        cases.append(case)
        ctx.stats[f"cases_{inj}"] = ctx.stats.get(f"cases_{inj}", 0) + 1
        ctx.stats[f"layout_{layout}"] = ctx.stats.get(f"layout_{layout}", 0) + 1
        ctx.stats["window_" + ("empty" if f >= t else "full" if (f == 0 and t >= len(rows)) else "inner")] = \
            ctx.stats.get("window_" + ("empty" if f >= t else "full" if (f == 0 and t >= len(rows)) else "inner"), 0) + 1

    nmax = ctx.scale(6, 8)
    reps = ctx.scale(2, 4)
    # every layout sees every window: the layout index advances with every case and the number of cases per
    # data set is not a multiple of 5 in general; in addition one data set per injector runs the full cross product
    for n in range(0, nmax + 1):
        for _ in range(reps):
            # ---- feature swap: all windows x all ordered column pairs
            w = rng.randint(1, 4)
            rows, _ = make_rows(rng, n, w)
            for (f, t) in windows(n, extra=True):
                for c1 in range(w):
                    for c2 in range(w):
                        add("swap", rows, w, f, t, {"c1": c1, "c2": c2})
            # ---- shift: all windows x all columns
            w = rng.randint(1, 3)
            rows, _ = make_rows(rng, n, w, finite=rng.random() < 0.8)
            for (f, t) in windows(n, extra=True):
                for c in range(w):
                    add("shift", rows, w, f, t, {"col": c, "sf": rng.choice([0.5, -1.0, 0.0, 2.0, 0.1, 1e3]),
                                                 "alpha": rng.choice([None, None, 0.0, 0.5, -2.0])})
            # ---- brownian
            w = rng.randint(1, 3)
            rows, _ = make_rows(rng, n, w, finite=rng.random() < 0.8)
            for (f, t) in windows(n):
                for c in range(w):
                    add("brownian", rows, w, f, t, {"col": c, "x0": rng.choice([0.0, 1.0, -2.0, 0.5, 10.0, 3.0]),
                                                    "rs": rng.randint(0, 10**6)})
            # ---- label swap / join: all windows x all columns x class pairs (present, absent, equal)
            w = rng.randint(1, 3)
            lc = rng.randrange(w)
            rows, alpha = make_rows(rng, n, w, label_col=lc, nlabels=rng.randint(2, 4))
            pairs = [(alpha[0], alpha[1]), (alpha[1], alpha[0]), (alpha[0], alpha[0]), (alpha[0], 9.0), (9.0, 8.0),
                     (alpha[-1], -0.0)]
            for (f, t) in windows(n, extra=True):
                for c in range(w):
                    for (k1, k2) in (pairs if c == lc else pairs[:1]):
                        add("lswap", rows, w, f, t, {"col": c, "k1": k1, "k2": k2})
                        add("join", rows, w, f, t, {"col": c, "k1": k1, "k2": k2,
                                                    "knew": rng.choice([7.0, k1, k2, alpha[-1]])})
            # ---- label probability: all windows x several dicts
            w = rng.randint(1, 3)
            lc = rng.randrange(w)
            rows, alpha = make_rows(rng, n, w, label_col=lc, nlabels=rng.randint(2, 4))
            present = sorted({r[lc] for r in rows})
            dicts = prob_dicts(rng, present)
            for (f, t) in windows(n):
                for cp in dicts:
                    add("prob", rows, w, f, t, {"col": lc, "cp": cp})
                if present:
                    add("dirichlet", rows, w, f, t, {"col": lc, "alpha": [[x, float(rng.choice([1, 1, 2, 4, 0.5]))] for x in present]})
                    if len(present) > 1:
                        add("dirichlet", rows, w, f, t, {"col": lc, "alpha": dirichlet_alpha(rng, present)})
                    if len(present) > 1 and rng.random() < 0.3:   # not all labels given weights
                        add("dirichlet", rows, w, f, t, {"col": lc, "alpha": [[x, float(rng.choice([1, 3]))] for x in present[:-1]]})
            # ---- cover
            if True:
                w = rng.randint(1, 4)
                lc = rng.randrange(w)
                rows, alpha = make_rows(rng, n, w, label_col=lc, nlabels=rng.randint(1, 3))
                groups = {}
                for r in rows:
                    groups[r[lc]] = groups.get(r[lc], 0) + 1
                g = max(1, len(groups))
                m = min(groups.values()) if groups else 0
                for size in sorted({0, 1, g, g * m, g * m + g - 1, g * (m + 1), max(0, g * m - 1)}):
                    for rs in (rng.randint(0, 10**6), None):
                        add("cover", rows, w, 0, n, {"col": lc, "size": size, "rs": rs})
    # ---- full cross product layout x window x column on one data set per injector, plus int64 arrays
    n, w = 3, 3
    for layout in LAYOUTS:
        rows, alpha = make_rows(rng, n, w, label_col=1, nlabels=2)
        for (f, t) in windows(n):
            for c1 in range(w):
                add("swap", rows, w, f, t, {"c1": c1, "c2": (c1 + 1) % w}, layout)
                add("shift", rows, w, f, t, {"col": c1, "sf": 0.5, "alpha": None}, layout)
                add("brownian", rows, w, f, t, {"col": c1, "x0": 1.0, "rs": rng.randint(0, 999)}, layout)
            add("lswap", rows, w, f, t, {"col": 1, "k1": alpha[0], "k2": alpha[1]}, layout)
            add("join", rows, w, f, t, {"col": 1, "k1": alpha[0], "k2": alpha[1], "knew": 4.0}, layout)
            add("prob", rows, w, f, t, {"col": 1, "cp": [[alpha[0], 0.75]]}, layout)
        add("cover", rows, w, 0, n, {"col": 1, "size": 2, "rs": 5}, layout)
    for layout in ("C", "F", "strided", "reversed"):
        rows, alpha = make_rows(rng, 4, 3, label_col=0, nlabels=2, intlike=True)
        for (f, t) in windows(4):
            add("swap", rows, 3, f, t, {"c1": 0, "c2": 2}, layout, "int")
            add("lswap", rows, 3, f, t, {"col": 0, "k1": alpha[0], "k2": alpha[1]}, layout, "int")
            add("join", rows, 3, f, t, {"col": 0, "k1": alpha[0], "k2": alpha[1], "knew": 6.0}, layout, "int")
            add("prob", rows, 3, f, t, {"col": 0, "cp": [[alpha[0], 0.25]]}, layout, "int")
        add("cover", rows, 3, 0, 4, {"col": 0, "size": 2, "rs": 1}, layout, "int")
    # ---- larger random data (long windows: np.mean beyond 8 elements, long walks)
    for _ in range(ctx.scale(30, 300)):
        n = rng.randint(8, ctx.scale(40, 200)); w = rng.randint(1, 4)
        f = rng.randint(0, n); t = rng.randint(f, n)
        if rng.random() < 0.3:
            f, t = 0, n
        lc = rng.randrange(w)
        rows, alpha = make_rows(rng, n, w, label_col=lc, nlabels=rng.randint(2, 4), finite=True)
        present = sorted({r[lc] for r in rows})
        other = rng.randrange(w)
        add("shift", rows, w, f, t, {"col": other, "sf": rng.uniform(-2, 2), "alpha": rng.choice([None, 0.01])})
        add("brownian", rows, w, f, t, {"col": other, "x0": float(rng.randint(-3, 3)), "rs": rng.randint(0, 10**6)})
        add("swap", rows, w, f, t, {"c1": lc, "c2": other})
        add("lswap", rows, w, f, t, {"col": lc, "k1": alpha[0], "k2": alpha[1]})
        add("prob", rows, w, f, t, {"col": lc, "cp": rng.choice(prob_dicts(rng, present))})
        add("dirichlet", rows, w, f, t, {"col": lc, "alpha": [[x, float(rng.choice([1, 2, 5]))] for x in present]})
        if len(present) > 1:
            add("dirichlet", rows, w, f, t, {"col": lc, "alpha": dirichlet_alpha(rng, present)})
        add("cover", rows, w, 0, n, {"col": lc, "size": rng.randint(0, n), "rs": rng.choice([None, rng.randint(0, 99)])})
    # ---- call sequences on ONE reused instance: 2-4 calls alternating DataFrame / ndarray inputs with different
    #      column labels, shapes, windows and arguments; each call is judged like a single call
    def one_call(inj, layout):
        n = rng.randint(0 if inj != "cover" else 1, 5); w = rng.randint(2, 4)
        lc = rng.randrange(w)
        rows, alpha = make_rows(rng, n, w, label_col=lc, nlabels=rng.randint(2, 3), finite=True)
        f = rng.randint(0, n); t = rng.randint(f, n)
        if rng.random() < 0.4:
            f, t = 0, n
        other = (lc + 1) % w
        present = sorted({r[lc] for r in rows})
        args = {"swap": lambda: {"c1": lc, "c2": other},
                "shift": lambda: {"col": other, "sf": rng.choice([0.5, -1.0, 2.0]), "alpha": rng.choice([None, 0.5])},
                "brownian": lambda: {"col": other, "x0": rng.choice([0.0, 1.0, -2.0]), "rs": rng.randint(0, 999)},
                "lswap": lambda: {"col": lc, "k1": alpha[0], "k2": alpha[1]},
                "join": lambda: {"col": lc, "k1": alpha[0], "k2": alpha[1], "knew": 7.0},
                "prob": lambda: {"col": lc, "cp": rng.choice(prob_dicts(rng, present)[:4])},
                "dirichlet": lambda: {"col": lc, "alpha": (dirichlet_alpha(rng, present) if len(present) > 1 and rng.random() < 0.6
                                                            else [[x, float(rng.choice([1, 2, 4]))] for x in present])},
                "cover": lambda: {"col": lc, "size": rng.randint(0, n), "rs": rng.choice([None, rng.randint(0, 99)])}}[inj]()
        names = rng.sample(NAMES + ["x", "y", "z", "label", "f0"], w)
        return {"inj": inj, "layout": layout, "dtype": "float", "rows": rows, "w": w, "names": names,
                "from": f, "to": t, "args": args, "seed": nseed()}

    patterns = [["df", "C"], ["C", "df"], ["df", "F", "df"], ["df", "df", "strided"], ["reversed", "df", "C", "df"],
                ["df", "C", "C"], ["C", "df", "df", "F"]]
    for inj in INJ:
        for rep in range(ctx.scale(5, 30)):
            for pat in patterns:
                subs = [one_call(inj, lay) for lay in pat]
                if inj == "dirichlet" and any(not {r[s["args"]["col"]] for r in s["rows"]} for s in subs):
                    continue
                cases.append({"inj": "seq", "cls": inj, "layout": "+".join(pat), "calls": subs})
                ctx.stats["cases_seq"] = ctx.stats.get("cases_seq", 0) + 1
                ctx.stats[f"seq_{inj}"] = ctx.stats.get(f"seq_{inj}", 0) + 1
    # ---- realised class frequencies over a long window (chi-square at 1e-6; statistical, not a theorem)
    for _ in range(ctx.scale(3, 12)):
        cases.append(freq_case(rng, nseed()))
        ctx.stats["cases_freq"] = ctx.stats.get("cases_freq", 0) + 1
    return cases


def dirichlet_alpha(rng, present):
    """alpha dict whose keys are NOT in ascending order (descending or shuffled) with clearly unequal weights"""
    keys = list(present)
    if rng.random() < 0.5:
        keys.reverse()
    else:
        while keys == sorted(keys):
            rng.shuffle(keys)
    weights = rng.sample([0.5, 1.0, 3.0, 8.0, 20.0, 50.0], len(keys))
    return [[x, wgt] for x, wgt in zip(keys, weights)]


def prob_dicts(rng, present):
    """class_probabilities dicts: empty, partial, full, zero mass, mass on an absent class, >1, unknown class"""
    ds = [[]]
    if present:
        ds.append([[present[0], rng.choice([0.5, 0.25, 1.0, 0.0, 0.9])]])
        if len(present) >= 2:
            ds.append([[present[0], 0.25], [present[1], 0.5]])
            ds.append([[x, 1.0 / len(present)] for x in present])
            ds.append([[present[-1], 0.75], [present[0], 0.5]])          # exceeds 1
        ds.append([[present[0], 0.5], [42.0, 0.25]])                     # class not in the data
        ds.append([[present[-1], rng.random()]])
    return ds


# ------------------------------------------------------------------------------- statistical part
def freq_case(rng, seed):
    k = rng.randint(2, 4)
    probs = [rng.random() + 0.05 for _ in range(k)]
    tot = sum(probs)
    probs = [p / tot for p in probs]
    return {"inj": "freq", "layout": "C", "k": k, "n": 4000, "from": 500, "to": 3500,
            "specified": [[float(i), probs[i]] for i in range(k - 1)], "labels_seed": rng.randint(0, 10**6), "seed": seed}


def run_freq(case):
    """realised class frequencies of LabelProbabilityInjector over a long window (never a theorem)"""
    r = np.random.RandomState(case["labels_seed"])
    n, k = case["n"], case["k"]
    data = np.column_stack([r.randint(0, k, size=n).astype(float), np.arange(n, dtype=float)])
    before = data.copy()
    np.random.seed(case["seed"])
    out = LabelProbabilityInjector()(data, case["from"], case["to"], 0, {kv[0]: kv[1] for kv in case["specified"]})
    f, t = case["from"], case["to"]
    return {"raised": None, "counts": [int(np.sum(out[f:t, 0] == float(i))) for i in range(k)],
            "outside_unchanged": bool(np.array_equal(out[:f], before[:f]) and np.array_equal(out[t:], before[t:])),
            "input_unchanged": bool(np.array_equal(data, before)),
            "rows_from_window": bool(set(out[f:t, 1].tolist()) <= set(before[f:t, 1].tolist()))}


def check_freq(case, obs):
    from scipy import stats
    msgs = []
    for key in ("outside_unchanged", "input_unchanged", "rows_from_window"):
        if not obs[key]:
            msgs.append(f"freq: {key} is false")
    want = [kv[1] for kv in case["specified"]]
    want.append(1 - sum(want))
    m = case["to"] - case["from"]
    chi = stats.chisquare(obs["counts"], [p * m for p in want])
    if not (chi.pvalue >= 1e-6):
        msgs.append(f"freq: class counts {obs['counts']} over {m} resampled rows do not follow the requested "
                    f"probabilities {want} (chi-square p = {chi.pvalue:.3g})")
    return msgs
