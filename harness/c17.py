"""C17 — a stricter confidence setting never makes a detector alarm earlier."""
import numpy as np
from . import coqgen as G
from . import c01, c06
from .common import *
from .detectors import SPECS, gen_case

ID = "C17"
PROPS = ["Prop_C17", "Prop_C17_adwin", "Prop_C17_lfr", "Prop_C17_nndvi", "Prop_C17_kdq", "Prop_C17_ph_refuted", "Prop_C17_float", "Prop_C17_hdm"]
IMPORTS = c01.IMPORTS + "\nFrom MV Require Import Corr_C17 Mono_Float."
CORR_NAME = "Corr_C17: the models whose monotonicity theorems are proved (DDM, EDDM, STEPD, CUSUM, PageHinkley) and ADWIN / LFR = the implementation, under both settings of every pair"
TRUSTED = ["Coq 8.16.1 kernel + vm_compute + primitive floats",
           "generic-arithmetic DDM / Page-Hinkley theorems take MonoLaws as hypotheses (proved for the reals, NumLaws.MonoLawsR; every field is refuted for doubles in FloatMono.v); for the bit-exact float model the same results are PROVED (Prop_C17_float.v, via Flocq's IEEE-754 formalisation: monotone rounding) under a computable run condition - finite statistics along the looser run, for Page-Hinkley also no underflow of threshold*mean - that the model evaluates for every generated pair",
           "axioms of the Flocq-based float theorems: the standard library's real-number axioms (ClassicalDedekindReals.sig_forall_dec, sig_not_dec), Classical_Prop.classic, functional_extensionality_dep, and the FloatAxioms specifications of the primitive float operations",
           "hand-written models + bit-level correspondence for both runs of each pair (DDM, EDDM, STEPD, CUSUM, PageHinkley, ADWIN, ADWINAccuracy, LinearFourRates)",
           "for ADWIN, LFR, kdq-tree detectors, NN-DVI, HDDDM/CDBD the relation is decided on the implementation (ordered pairs of settings, same history, same numpy seed schedule)",
           "harness/c17.py, harness/detectors.py"]
RULE = ("for each detector family an ordered pair (loose, strict) of values of its detection threshold, same history and same seed schedule: index of the "
        "first reported drift must not decrease, and both traces must coincide before the looser run's first drift; warning-threshold pairs: drift indices "
        "identical over the whole run and every warning of the stricter setting present in the looser one. Non-trivial: the looser run reports a drift "
        "(resp. the stricter setting warns); distinct by content.")
SHARD = 40

# (detector, parameter, candidate values ordered from loose to strict, optional guard on params)
KNOBS = [
    ("ADWIN", "delta", [1.0, 0.5, 0.1, 0.002, 1e-6]),
    ("ADWINAccuracy", "delta", [1.0, 0.5, 0.1, 0.002, 1e-6]),
    ("CUSUM", "threshold", [0.5, 1, 2, 5, 8]),
    ("PageHinkley", "threshold", [0.0, 0.05, 0.5, 1, 2, 5, 20]),
    ("DDM", "drift_scale", [0.5, 1.0, 2.0, 2.5, 3, 4]),
    ("EDDM", "drift_thresh", [0.99, 0.95, 0.9, 0.8, 0.6, 0.3]),
    ("STEPD", "alpha_drift", [0.5, 0.2, 0.05, 0.003, 1e-5]),
    ("LinearFourRates", "detect", [0.3, 0.2, 0.1, 0.05, 0.01]),
    ("KdqTreeStreaming", "alpha", [0.5, 0.2, 0.05, 0.01]),
    ("KdqTreeBatch", "alpha", [0.5, 0.2, 0.05, 0.01]),
    ("NNDVI", "alpha", [0.5, 0.2, 0.05, 0.01]),
    ("HDDDM", "significance", None),
    ("CDBD", "significance", None),
]
WARN_KNOBS = [  # ordered from strict to loose
    ("DDM", "warning_scale", [3, 2, 1.5, 1.0, 0.5]),
    ("EDDM", "warning_thresh", [0.7, 0.9, 0.95, 0.99]),
    ("STEPD", "alpha_warning", [0.003, 0.05, 0.2, 0.5]),
    ("LinearFourRates", "warn", [0.05, 0.1, 0.2, 0.3]),
]
SLOW = {"KdqTreeStreaming", "KdqTreeBatch", "HDDDM", "CDBD", "NNDVI", "LinearFourRates"}


def gen_cases(ctx):
    cases, k = [], 0
    for name, key, vals in KNOBS:
        for _ in range(ctx.scale(5, 50) if name in SLOW else ctx.scale(12, 150)):
            k += 1
            c = gen_case(ctx, name, k)
            if vals is None:
                vals_ = [0.4, 0.2, 0.05, 0.01, 0.0] if c["params"]["statistic"] == "tstat" else [0.25, 0.5, 1.0, 2.0, 3.0]
            else:
                vals_ = vals
            i, j = sorted(ctx.rng.sample(range(len(vals_)), 2))
            c.update(kind="drift", key=key, loose=vals_[i], strict=vals_[j])
            cases.append(c)
    # the strictest legal t-test level (significance 0: an infinite quantile, a NaN threshold while the epoch's epsilons have no
    # spread) against an ordinary one, for the detect_batch values that decide from the second batch on
    for name in ("HDDDM", "CDBD"):
        for db in (1, 2):
            for _try in range(20):
                k += 1
                c = gen_case(ctx, name, k)
                if c["params"].get("statistic") == "tstat" or "statistic" in c["params"]:
                    break
            c["params"]["statistic"], c["params"]["detect_batch"] = "tstat", db
            c.update(kind="drift", key="significance", loose=ctx.rng.choice([0.2, 0.05]), strict=0.0)
            cases.append(c)
    # NN-DVI with few permutations and small alphas close to each other (a threshold fitted from a different number of
    # shuffles for the two settings would not be ordered)
    for _ in range(ctx.scale(10, 60)):
        k += 1
        c = gen_case(ctx, "NNDVI", k)
        c["params"]["sampling_times"] = ctx.rng.choice([20, 50])
        c.update(kind="drift", key="alpha", loose=ctx.rng.choice([0.05, 0.03, 0.02]), strict=ctx.rng.choice([0.015, 0.01, 0.008]))
        cases.append(c)
    for name, key, vals in WARN_KNOBS:
        for _ in range(ctx.scale(5, 40) if name in SLOW else ctx.scale(10, 100)):
            k += 1
            c = gen_case(ctx, name, k)
            i, j = sorted(ctx.rng.sample(range(len(vals)), 2))
            c.update(kind="warn", key=key, loose=vals[j], strict=vals[i])
            cases.append(c)
    _LAST_CASES[:] = cases
    return cases


_LAST_CASES = []


def run_condition_term(case):
    """the boolean run condition of the float theorems of Prop_C17_float.v (finite statistics along the looser run; for
    Page-Hinkley also: threshold * mean does not underflow to a zero) for this pair, or None"""
    det, p = case["det"], case["params"]
    if det == "DDM":
        errs = "[" + "; ".join(G.boolc(a != b) for a, b in case["data"]) + "]"
        if case["kind"] == "drift":
            return f"ddm_run_ok {G.z(p['n_threshold'])} {G.flt(p['warning_scale'])} {G.flt(case['loose'])} {errs}"
        return f"ddm_warn_run_ok {G.z(p['n_threshold'])} {G.flt(case['loose'])} {G.flt(p['drift_scale'])} {errs}"
    if det == "PageHinkley" and case["kind"] == "drift" and case["loose"] > 0:
        return (f"ph_run_ok {G.flt(p['delta'])} {G.flt(case['loose'])} {G.z(p['burn_in'])} "
                f"{G.boolc(p['direction'] == 'negative')} {G.fltlist(case['data'])}")
    return None


def extra(ctx):
    """how many of the generated DDM / Page-Hinkley pairs satisfy the run condition under which the float theorems
    C17f_* apply (evaluated by the model inside Coq); a false condition is not a violation - the theorem is silent then"""
    from . import coqrun
    terms, kinds = [], {}
    for i, c in enumerate(_LAST_CASES):
        t = run_condition_term(c)
        if t is not None:
            terms.append((i, t)); kinds[i] = f"{c['det']}/{c['key']}"
    if not terms:
        return {}
    bad, secs, _ = coqrun.run_cases("C17rc", IMPORTS, terms, SHARD)
    out = {}
    for i, k in kinds.items():
        o = out.setdefault(k, [0, 0]); o[1] += 1; o[0] += i not in set(bad)
    return {"float_theorem_run_condition_holds": {k: f"{a}/{b} pairs" for k, (a, b) in out.items()}}


def variant(case, which):
    p = dict(case["params"]); p[case["key"]] = case[which]
    return {"det": case["det"], "params": p, "data": case["data"], "seed": case["seed"], **({"ref": case["ref"]} if "ref" in case else {})}


def run_impl(case):
    spec = SPECS[case["det"]]
    out = {}
    for w in ("loose", "strict"):
        fits = []
        if case["det"] == "NNDVI":
            # the normal fit behind each threshold, observed at the public scipy call (one norm.ppf per update): under the
            # same seed schedule both settings must fit the same (mu, sigma) - only the quantile level may differ
            import scipy.stats
            nrm, orig = scipy.stats.norm, scipy.stats.norm.ppf
            def spy(q, *a, **k):
                try:
                    fits.append([float(x) for x in a[:2]] + [float(k[n]) for n in ("loc", "scale") if n in k])
                except Exception:
                    fits.append(None)
                return orig(q, *a, **k)
            nrm.ppf = spy
        try:
            rows = spec.run(variant(case, w))
        finally:
            if case["det"] == "NNDVI":
                try:
                    del nrm.ppf
                except AttributeError:
                    nrm.ppf = orig
        if spec.kind == "batch":
            rows = rows[1:]
        out[w] = [r["ds"] for r in rows]
        if case["det"] == "NNDVI":
            out[w + "_fit"] = fits
    return out


def first(tr, what="drift"):
    for i, d in enumerate(tr):
        if d == what:
            return i
    return None


def direct_check(case, obs):
    name = case["det"]
    if "__exception__" in obs:
        return [f"{name} raised {obs['__exception__']}: {obs['__message__']}"]
    lo, st = obs["loose"], obs["strict"]
    desc = f"{name} {case['params']} with {case['key']} loose={case['loose']} / strict={case['strict']}"
    if case["kind"] == "drift":
        fl, fs = first(lo), first(st)
        if fs is not None and (fl is None or fs < fl):
            return [f"{desc}: the stricter setting reports its first drift at update {fs}, the looser one at {fl}"]
        upto = len(lo) if fl is None else fl
        fa, fb = obs.get("loose_fit"), obs.get("strict_fit")
        if fa is not None and fb is not None and len(fa) == len(lo) and len(fb) == len(st):
            for i in range(min(upto + 1, len(lo))):
                if fa[i] is not None and fb[i] is not None and fa[i] != fb[i]:
                    return [f"{desc}: under the same seed schedule the two settings fitted different statistics at update {i} "
                            f"(mu, sigma = {fa[i]} vs {fb[i]}) although only the quantile level should differ"]
        if lo[:upto] != st[:upto]:
            i = next(i for i in range(upto) if lo[i] != st[i])
            return [f"{desc}: traces differ at update {i} ({lo[i]!r} vs {st[i]!r}) before the looser run's first drift ({fl})"]
        return []
    dl = [i for i, d in enumerate(lo) if d == "drift"]
    ds_ = [i for i, d in enumerate(st) if d == "drift"]
    if dl != ds_:
        return [f"{desc}: changing only the warning threshold moved the drifts: {dl[:6]} vs {ds_[:6]}"]
    for i, d in enumerate(st):
        if d == "warning" and lo[i] is None:
            return [f"{desc}: the warning at update {i} disappeared when the warning threshold was loosened"]
    return []


def coq_term(case, obs):
    """both runs of the pair are reproduced by the model of the detector (where one exists)"""
    if "__exception__" in obs:
        return None
    terms, runs = [], []
    for w in ("loose", "strict"):
        v = variant(case, w)
        mod, c = c01.delegate(v)
        if mod is None:
            return None
        o = mod.run_impl(c)
        runs.append((c, o))
        terms.append(mod.coq_term(c, o))
    if any(t is None for t in terms):
        return None
    t = f"({terms[0]}) && ({terms[1]})"
    if case["det"] == "LinearFourRates" and case["kind"] == "drift" and all("rows" in o for _, o in runs):
        # hypothesis of C17_lfr_first_drift_monotone on the logged oracle rows of the two runs, up to and
        # including the looser run's first drift (afterwards the looser run has been reset)
        fl = first([r["ds"] for r in runs[0][1]["rows"]])
        n = len(runs[0][0]["pairs"]) if fl is None else fl + 1
        xs = [G.lst([c06.input_term(yt, yp, r) for (yt, yp), r in list(zip(c["pairs"], o["rows"]))[:n]]) for c, o in runs]
        t += f" && chk_lfr_pair {xs[0]} {xs[1]}"
    if case["det"] == "LinearFourRates" and case["kind"] == "warn" and all("rows" in o for _, o in runs):
        # hypothesis of C17_lfr_warning_loosening on the logged oracle rows of the whole run ("loose" = looser warning)
        xs = [G.lst([c06.input_term(yt, yp, r) for (yt, yp), r in zip(c["pairs"], o["rows"])]) for c, o in runs]
        t += f" && chk_lfr_wpair {xs[0]} {xs[1]}"
    return t


def nontrivial(case, obs):
    if "loose" not in obs:
        return False
    return first(obs["loose"]) is not None if case["kind"] == "drift" else first(obs["strict"], "warning") is not None


def shrink_candidates(case):
    return c01.shrink_candidates(case)


def _ph_zero_theta(case):
    """Page-Hinkley: the looser threshold times a negative running mean is a zero (threshold 0, or underflow)"""
    if case["det"] != "PageHinkley" or case.get("key") != "threshold":
        return False
    mean, n = 0.0, 0
    for x in case["data"]:
        n += 1
        mean = mean + (x - mean) / n
        if mean < 0 and case["loose"] * mean == 0.0:
            return True
    return False


def signature(case, obs, msgs):
    sig = {"det": case["det"], "key": case["key"]}
    if _ph_zero_theta(case):
        sig["finding"] = "PH-zero-theta"
    return sig


PH_WITNESSES = [   # the two witnesses of Prop_C17_ph_refuted.v
    ("threshold 0 against 1, five samples of -1.0", 0.0, 1.0, [-1.0] * 5),
    ("subnormal threshold 2^-1063 against 1, five samples of -2^-33", 2.0 ** -1063, 1.0, [-(2.0 ** -33)] * 5),
]


def witnesses(ctx):
    """recorded finding PH-zero-theta: a Page-Hinkley threshold whose product with a negative running mean is -0.0
    never alarms on a PH difference of 0, the stricter threshold 1 does (known_findings.json)"""
    for what, loose, strict, xs in PH_WITNESSES:
        case = {"det": "PageHinkley", "params": {"delta": 0.0, "threshold": loose, "burn_in": 2, "direction": "positive"},
                "data": xs, "seed": 0, "kind": "drift", "key": "threshold", "loose": loose, "strict": strict}
        obs = run_impl(case)
        msgs = direct_check(case, obs)
        if msgs:
            yield ({"det": "PageHinkley", "key": "threshold", "finding": "PH-zero-theta"},
                   f"PageHinkley(delta=0, burn_in=2), {what}: " + msgs[0], {"case": case, "obs": obs})
