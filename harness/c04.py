"""C04 — CUSUM and Page-Hinkley apply their sequential tests to the current observations."""
import math
import numpy as np
from menelaus.change_detection import CUSUM, PageHinkley
from . import coqgen as G
from .common import *

ID = "C04"
PROPS = ["Prop_C04"]
IMPORTS = "From MV Require Import Base Num NumFloat Lifecycle Pairwise ChangeDet Corr.\nFrom Coq Require Import PrimFloat."
CORR_NAME = "Corr_C04: ChangeDet.v (PH / CUSUM kernels incl. numpy pairwise mean/std, NumFloat) = page_hinkley.py / cusum.py, bit-for-bit"
TRUSTED = ["Coq 8.16.1 kernel + vm_compute + primitive floats",
           "hand-written models coq/ChangeDet.v, coq/Pairwise.v (numpy pairwise summation), coq/Lifecycle.v, tied to the code by bit-level differential execution",
           "harness/c04.py (generators, independent float specification used as direct oracle)"]
RULE = ("streams with level shifts sized relative to the drawn threshold (so that many alarms occur), on dyadic grids and generic doubles, "
        "constant runs, all directions, given vs estimated target, burn_in in {0,1,2,3,5,8,9,30,130,200}; two-pass boundary cases with the threshold set "
        "to an attained statistic. Non-trivial: at least one drift followed by >= 1 update (a later epoch is exercised); distinct by content.")
SHARD = 60
DIRS = {None: 0, "positive": 1, "negative": 2}


def f(v):
    return float(np.asarray(v).reshape(-1)[0])


def make(case):
    p = case["params"]
    if case["det"] == "ph":
        return PageHinkley(delta=p["delta"], threshold=p["threshold"], burn_in=p["burn_in"], direction=p["direction"])
    return CUSUM(target=p["target"], sd_hat=p["sd_hat"], burn_in=p["burn_in"], delta=p["delta"],
                 threshold=p["threshold"], direction=p["direction"])


def stream(ctx, n, grid):
    out, level, scale = [], 0.0, ctx.rng.choice([1.0, 0.25, 3.0, 100.0, 1e-3])
    i = 0
    while i < n:
        seg = ctx.rng.randint(3, max(4, n // 3))
        kind = ctx.rng.random()
        for _ in range(min(seg, n - i)):
            if kind < 0.15:
                v = level
            else:
                v = level + scale * ctx.rng.gauss(0, 1)
            if grid:
                v = round(v * 4) / 4
            out.append(float(v))
        i += seg
        level += scale * ctx.rng.choice([-4, -2, -1, 0, 1, 2, 4, 8])
    return out[:n]


def gen_cases(ctx):
    cases = []
    for _ in range(ctx.scale(150, 3000)):
        n = ctx.rng.randint(20, 260)
        xs = stream(ctx, n, ctx.rng.random() < 0.4)
        p = {"delta": ctx.rng.choice([0.0, 0.005, 0.01, 0.5]), "threshold": ctx.rng.choice([0.5, 1, 2, 5, 20]),
             "burn_in": ctx.rng.choice([0, 1, 2, 3, 5, 9, 30]), "direction": ctx.rng.choice(["positive", "negative"])}
        cases.append({"det": "ph", "params": p, "xs": xs, "reuse_buffer": ctx.rng.random() < 0.3})
    for _ in range(ctx.scale(220, 4000)):
        n = ctx.rng.randint(20, 260)
        xs = stream(ctx, n, ctx.rng.random() < 0.4)
        given = ctx.rng.random() < 0.3
        b = ctx.rng.choice([1, 2, 3, 5, 8, 9, 30] + ([130, 200] if ctx.rng.random() < 0.1 else []))
        if given:
            b = ctx.rng.choice([0, 1, 2, 5, 9, 30])
        if b > 100:
            xs = stream(ctx, 3 * b, False)
        p = {"target": ctx.rng.choice([0.0, 1.5, xs[0]]) if given else None, "sd_hat": ctx.rng.choice([1.0, 0.5, 2.0]) if given else None,
             "burn_in": b, "delta": ctx.rng.choice([0.0, 0.005, 0.25]), "threshold": ctx.rng.choice([0.5, 1, 2, 5, 8]),
             "direction": ctx.rng.choice([None, "positive", "negative"])}
        cases.append({"det": "cusum", "params": p, "xs": xs, "reuse_buffer": ctx.rng.random() < 0.3})
    # boundary: threshold equal to an attained statistic value
    for _ in range(ctx.scale(60, 600)):
        det = ctx.rng.choice(["ph", "cusum"])
        xs = stream(ctx, ctx.rng.randint(20, 80), True)
        if det == "ph":
            p = {"delta": 0.0, "threshold": 1e18, "burn_in": ctx.rng.choice([0, 2, 5]), "direction": ctx.rng.choice(["positive", "negative"])}
            rows = spec_ph(p, xs)
            vals = [r["diff"] / r["mean"] for r in rows if r["mean"] > 0 and math.isfinite(r["diff"] / r["mean"]) and r["diff"] / r["mean"] > 0]
        else:
            p = {"target": 0.0, "sd_hat": 1.0, "burn_in": ctx.rng.choice([0, 2, 5]), "delta": 0.25, "threshold": 1e18,
                 "direction": ctx.rng.choice([None, "positive", "negative"])}
            rows = spec_cusum(p, xs)
            vals = [v for r in rows for v in (r["up"], r["lo"]) if v > 0]
        if vals:
            p = dict(p, threshold=ctx.rng.choice(vals))
            cases.append({"det": det, "params": p, "xs": xs, "boundary": True})
    return cases


def run_impl(case):
    d = make(case)
    rows = []
    buf = np.empty(1) if case.get("reuse_buffer") else None
    for x in case["xs"]:
        try:
            if buf is None:
                d.update(x)
            else:
                # the caller re-uses one array object and overwrites it after the call
                buf[0] = x
                d.update(buf)
                buf[0] = 12345.678
        except ValueError as e:
            rows.append({"error": "ValueError", "msg": str(e)[:80]})
            break
        st, tot, sin = lifecycle_obs(d)
        row = {"ds": st, "total": tot, "since": sin}
        if case["det"] == "ph":
            df = d.to_dataframe()
            last = df.iloc[-1]
            row["df"] = {"x": f(last["change_scores"]), "sum": f(last["page_hinkley_values"]),
                         "diff": f(last["page_hinkley_differences"]), "theta": f(last["theta_threshold"]),
                         "check": bool(np.asarray(last["drift_detected"]).reshape(-1)[0]),
                         "max": f(last["maximum_sum_values"]), "min": f(last["minimum_sum_values"]),
                         "mean": f(last["mean_values"]), "nrows": len(df)}
        else:
            ub, lb = getattr(d, "_upper_bound", None), getattr(d, "_lower_bound", None)
            row["priv"] = {"up": f(ub[-1]) if ub else None, "lo": f(lb[-1]) if lb else None,
                           "target": None if d.target is None else f(d.target),
                           "sd": None if d.sd_hat is None else f(d.sd_hat)}
        rows.append(row)
    return {"rows": rows}


# ---------------- independent float specifications (direct oracle) ----------------
def spec_ph(p, xs):
    out = []
    st = None; n = 0
    mx = mn = sm = mean = 0.0
    for x in xs:
        if st == "drift":
            st = None; n = 0; mx = mn = sm = mean = 0.0
        n += 1
        mean = mean + (x - mean) / n
        sm = sm + x - mean - p["delta"]
        theta = p["threshold"] * mean
        mn = min(mn, sm) if not math.isnan(sm) else mn
        mx = max(mx, sm) if not math.isnan(sm) else mx
        diff = sm - mn if p["direction"] == "positive" else mx - sm
        chk = diff > theta
        if chk and n > p["burn_in"]:
            st = "drift"
        out.append({"ds": st, "since": n, "sum": sm, "diff": diff, "theta": theta, "check": chk, "max": mx, "min": mn, "mean": mean})
    return out


def spec_cusum(p, xs):
    out = []
    st = None; n = 0
    target, sd, b = p["target"], p["sd_hat"], p["burn_in"]
    up = lo = 0.0
    hist = []
    for x in xs:
        if st == "drift":
            w = hist[-b:] if b != 0 else hist
            target, sd = float(np.mean(w)), float(np.std(w))
            st = None; n = 0; up = lo = 0.0
        n += 1
        hist.append(x)
        if target is None and n == b:
            target, sd = float(np.mean(hist)), float(np.std(hist))
        if sd == 0 and n > b:
            out.append({"error": "ValueError"})
            break
        if target is not None:
            z = (x - target) / sd if sd != 0 else (math.nan if x - target == 0 or math.isnan(x - target) else math.copysign(math.inf, x - target))
            up = max(0, up + z - p["delta"])
            lo = max(0, lo - p["delta"] - z)
        else:
            up = lo = 0.0
        if n > b:
            d = p["direction"]
            if (d is None and (up > p["threshold"] or lo > p["threshold"])) or (d == "positive" and up > p["threshold"]) \
                    or (d == "negative" and lo > p["threshold"]):
                st = "drift"
        out.append({"ds": st, "since": n, "up": float(up), "lo": float(lo), "target": target, "sd": sd})
    return out


def direct_check(case, obs):
    if "__exception__" in obs:
        return [f"{case['det']} raised {obs['__exception__']}: {obs['__message__']}"]
    p = case["params"]
    sp = spec_ph(p, case["xs"]) if case["det"] == "ph" else spec_cusum(p, case["xs"])
    if len(sp) != len(obs["rows"]):
        return [f"{case['det']}: processed {len(obs['rows'])} updates, specification {len(sp)}"]
    for i, (row, s) in enumerate(zip(obs["rows"], sp)):
        if "error" in row or "error" in s:
            if ("error" in row) != ("error" in s):
                return [f"{case['det']} step {i}: error behaviour differs: {row.get('error')} vs {s.get('error')}"]
            continue
        if row["ds"] != s["ds"]:
            return [f"{case['det']} {p} step {i}: drift_state {row['ds']!r}, sequential test of the specification says {s['ds']!r}"]
        if row["ds"] == "drift" and row["since"] <= p["burn_in"]:
            return [f"{case['det']} {p} step {i}: alarm during burn-in (since={row['since']})"]
        if row["since"] != s["since"]:
            return [f"{case['det']} step {i}: samples_since_reset {row['since']} vs {s['since']}"]
        if case["det"] == "ph":
            for k in ("sum", "diff", "theta", "max", "min", "mean"):
                if not feq(row["df"][k], s[k]):
                    return [f"ph {p} step {i}: to_dataframe().{k} = {row['df'][k]!r}, specification {s[k]!r}"]
            if row["df"]["check"] != s["check"]:
                return [f"ph {p} step {i}: drift_detected column {row['df']['check']} vs {s['check']}"]
            if row["df"]["nrows"] != s["since"]:
                return [f"ph step {i}: to_dataframe() has {row['df']['nrows']} rows in an epoch of {s['since']} samples"]
    return []


def opt(x):
    return "None" if x is None else f"(Some {G.flt(x)})"


def coq_term(case, obs):
    if "__exception__" in obs or any("error" in r for r in obs["rows"]):
        return None     # the sd_hat == 0 error path is compared by the direct check only
    p = case["params"]
    rows = []
    for r in obs["rows"]:
        if case["det"] == "ph":
            d = r["df"]
            ex = [d["sum"], d["diff"], d["theta"], d["max"], d["min"], d["mean"], 1.0 if d["check"] else 0.0, d["x"], float(d["nrows"])]
        else:
            q = r["priv"]
            ex = [q["up"], q["lo"], q["target"], q["sd"]]
        rows.append(row_term(r["ds"], r["total"], r["since"], [None, None], ex))
    xs = G.fltlist(case["xs"])
    if case["det"] == "ph":
        return (f"chk_ph {G.flt(p['delta'])} {G.flt(p['threshold'])} {G.z(p['burn_in'])} "
                f"{G.boolc(p['direction'] == 'negative')} {xs} {G.lst(rows)}")
    return (f"chk_cusum {G.z(p['burn_in'])} {G.flt(p['delta'])} {G.flt(p['threshold'])} {DIRS[p['direction']]} "
            f"{opt(p['target'])} {opt(p['sd_hat'])} {xs} {G.lst(rows)}")


def show_term(case, obs):
    t = coq_term(case, obs)
    return t.replace("chk_", "show_", 1) if t else "0"


def nontrivial(case, obs):
    rows = obs.get("rows", [])
    return any(r.get("ds") == "drift" for r in rows[:-1])


def shrink_candidates(case):
    s = case["xs"]
    if len(s) > 1:
        yield dict(case, xs=s[:-1])
        yield dict(case, xs=s[:len(s) // 2])
    for i in range(min(len(s), 40)):
        yield dict(case, xs=s[:i] + s[i + 1:])


def signature(case, obs, msgs):
    return {"det": case["det"]}


def obligations(ctx):
    """second tie: the update() core re-translated from the source of the tree under test (harness/pytrans.py)"""
    from .pytrans import obligations_scalar
    yield from obligations_scalar(ctx, ["PageHinkley", "CUSUM"])
