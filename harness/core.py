"""Generic driver shared by all property modules (DESIGN.md 2.3 / 2.4).

A property module provides
    ID, PROPS (list of Prop_*.v module names), IMPORTS (Coq header of case files),
    LEVEL ("proof"), TRUSTED (list of strings), RULE (how cases are generated / what is non-trivial)
    gen_cases(ctx)            -> list of JSON-serialisable case dicts (corpus cases are prepended)
    run_impl(case)            -> JSON-serialisable observation dict (runs the implementation in /repo)
    direct_check(case, obs)   -> list of strings: violations of the property on this trace (D)
    coq_term(case, obs)       -> Coq term of type bool: "the model reproduces obs" (C), or None
    nontrivial(case, obs)     -> bool
  optional
    shrink_candidates(case)   -> iterable of smaller cases
    signature(case, obs, msg) -> dict used to match known findings
    show_term(case, obs)      -> Coq term whose value is printed into the replay on a C mismatch
    intensify(case)           -> more cases around a case on which only C failed
    extra(ctx)                -> additional property-specific work (returns dict merged into coverage)
"""
import json, os, random, sys, time, traceback, hashlib
from . import coqrun

VERIF = coqrun.VERIF


class Ctx:
    def __init__(self, pid, tier, seed):
        self.pid, self.tier, self.seed = pid, tier, seed
        self.rng = random.Random(seed * 1000003 + sum(map(ord, pid)))
        self.t0 = time.time()
        self.stats = {}
        self.thorough = tier == "thorough"

    def scale(self, quick, thorough):
        return thorough if self.thorough else quick

    def np_rng(self, salt=0):
        import numpy as np
        return np.random.default_rng([self.seed, salt, sum(map(ord, self.pid))])


def load_known():
    p = os.path.join(VERIF, "known_findings.json")
    if not os.path.exists(p):
        return []
    return json.load(open(p)).get("findings", [])


def matches_known(pid, sig, known):
    for k in known:
        if k.get("property") != pid or k.get("status") != "open":
            continue
        if all(sig.get(a) == b for a, b in k.get("match", {}).items()):
            return k
    return None


def case_key(case):
    return hashlib.sha1(json.dumps(case, sort_keys=True, default=str).encode()).hexdigest()


def shrink(mod, case, failing):
    """Greedy shrinking: keep the first smaller candidate that still fails."""
    if not hasattr(mod, "shrink_candidates"):
        return case
    budget = 400
    improved = True
    while improved and budget > 0:
        improved = False
        for cand in mod.shrink_candidates(case):
            budget -= 1
            if budget <= 0:
                break
            try:
                if failing(cand):
                    case = cand; improved = True
                    break
            except Exception:
                continue
    return case


def safe_run(mod, case):
    try:
        return mod.run_impl(case)
    except Exception as e:  # an exception escaping the implementation is an observation too
        out = {"__exception__": type(e).__name__, "__message__": str(e)[:300],
               "__trace__": traceback.format_exc()[-1500:]}
        # ... unless it was raised by the harness's own code (innermost frame in /verif/harness: typically a private
        # attribute or method of the library that no longer exists under that name): then the implementation was not
        # observed at all, which says nothing about the property
        try:
            fr = traceback.extract_tb(e.__traceback__)[-1]
            if os.path.abspath(fr.filename).startswith(os.path.dirname(os.path.abspath(__file__)) + os.sep):
                out["__harness_fault__"] = f"{os.path.basename(fr.filename)}:{fr.lineno} in {fr.name}"
        except Exception:
            pass
        return out


def write_replay(pid, n, payload):
    d = os.path.join(VERIF, "build", pid)
    os.makedirs(d, exist_ok=True)
    p = os.path.join(d, f"replay_{n}.json")
    json.dump(payload, open(p, "w"), indent=1, default=str)
    return p


def run(mod, tier, seed, replay=None):
    pid = mod.ID
    ctx = Ctx(pid, tier, seed)
    known = load_known()
    violations, known_hits = [], []
    cov = {}
    proof_rows = []
    build_s = None

    # ---- P: proofs -------------------------------------------------------------------
    proof_fail = None
    try:
        build_s = coqrun.build(clean=(tier == "thorough" and os.environ.get("VERIF_NO_CLEAN") != "1" and replay is None))
        hits = coqrun.grep_gate()
        if hits:
            raise coqrun.CoqError(f"forbidden constructs in the development: {hits[:5]}")
        from concurrent.futures import ThreadPoolExecutor
        with ThreadPoolExecutor(max_workers=8) as ex:
            for pm, rows in zip(mod.PROPS, ex.map(coqrun.check_props, mod.PROPS)):
                proof_rows += [dict(r, module=pm) for r in rows]
        badax = [r for r in proof_rows if not r["ok"]]
        if badax:
            raise coqrun.CoqError(f"theorems depending on axioms outside the allow-list: {badax}")
    except coqrun.CoqError as e:
        proof_fail = str(e)

    # ---- cases ---------------------------------------------------------------------
    cases = []
    if replay:
        payload = json.load(open(replay))
        if "case" not in payload or payload.get("witness") or payload.get("kind") in ("proof-broken", "correspondence-not-evaluable", "witness-crashed"):
            # nothing to re-execute on the implementation: the replay names the obligation that no longer checks
            print(json.dumps({k: payload.get(k) for k in ("property", "kind", "obligation", "detail", "messages", "note")}, indent=1)[:3000])
            print(f"VIOLATION property={pid} replay={replay} no-failing-input-found")
            return 1
        cases = [payload["case"]]
    else:
        cdir = os.path.join(VERIF, "corpus", pid)
        if os.path.isdir(cdir):
            for fn in sorted(os.listdir(cdir)):
                if fn.endswith(".json"):
                    c = json.load(open(os.path.join(cdir, fn)))
                    cases.extend(c if isinstance(c, list) else [c])
        ctx.n_corpus = len(cases)
        cases.extend(mod.gen_cases(ctx))

    terms, obs_by_id, nontriv, dfail, hfail = [], {}, set(), [], []
    seen = set()
    t_impl = time.time()
    for i, case in enumerate(cases):
        obs = safe_run(mod, case)
        obs_by_id[i] = obs
        if isinstance(obs, dict) and obs.get("__harness_fault__"):
            hfail.append((i, [f"the harness could not observe the implementation on this case: {obs['__exception__']}: "
                              f"{obs['__message__']} (raised by the harness itself at {obs['__harness_fault__']})"]))
            continue
        try:
            msgs = mod.direct_check(case, obs)
        except Exception as e:
            hfail.append((i, [f"direct check crashed: {type(e).__name__}: {e}"]))
            msgs = []
        if msgs:
            dfail.append((i, msgs))
        try:
            if mod.nontrivial(case, obs):
                k = case_key(case)
                if k not in seen:
                    seen.add(k); nontriv.add(i)
        except Exception:
            pass
        try:
            term = mod.coq_term(case, obs)
        except Exception as e:
            term = None
            hfail.append((i, [f"cannot encode the observation for the model: {type(e).__name__}: {e}"]))
        if term is not None:
            terms.append((i, term))
    t_impl = time.time() - t_impl

    # ---- C: correspondence ---------------------------------------------------------
    cbad, coq_s, nfiles, corr_fail = [], 0.0, 0, None
    if terms and proof_fail is None:
        try:
            cbad, coq_s, nfiles = coqrun.run_cases(pid, mod.IMPORTS, terms, shard=getattr(mod, "SHARD", 400))
        except coqrun.CoqError as e:
            corr_fail = str(e)

    nrep = 0
    def report(kind, case, obs, msgs, extra=None):
        nonlocal nrep
        sig = mod.signature(case, obs, msgs) if hasattr(mod, "signature") else {}
        k = matches_known(pid, sig, known)
        if k is not None:
            known_hits.append((k, msgs)); return
        nrep += 1
        payload = {"property": pid, "kind": kind, "messages": msgs, "case": case, "observed": obs,
                   "signature": sig, "how_to_replay": f"./vcheck {pid} --replay <this file>"}
        if extra:
            payload.update(extra)
        path = write_replay(pid, nrep, payload)
        violations.append((kind, path, msgs))

    # D failures: shrink and report (at most a few)
    for i, msgs in dfail[:3]:
        case = cases[i]
        def failing(c):
            o = safe_run(mod, c)
            return bool(mod.direct_check(c, o))
        small = shrink(mod, case, failing)
        o = safe_run(mod, small)
        m2 = mod.direct_check(small, o) or msgs
        report("property-fails-on-implementation", small, o, m2)
    # cases the harness could not evaluate: the property is no longer shown to hold on them, but no failing input exists
    for i, msgs in hfail[:2]:
        report("check-not-evaluable", cases[i], obs_by_id[i],
               [msgs[0] + f" [{len(hfail)} such case(s)]: no-failing-input-found"],
               {"obligation": f"harness/{pid.lower()}.py observes the implementation on every generated case"})
    dset = {i for i, _ in dfail}
    # C failures without D failure
    for i in [i for i in cbad if i not in dset][:(1 if dfail else 3)]:
        case, obs = cases[i], obs_by_id[i]
        found = False
        if hasattr(mod, "intensify"):
            for c2 in mod.intensify(case):
                o2 = safe_run(mod, c2)
                m2 = mod.direct_check(c2, o2)
                if m2:
                    report("property-fails-on-implementation", c2, o2, m2); found = True
                    break
        if not found:
            small = case
            if getattr(mod, "SHRINK_C", True) and hasattr(mod, "shrink_candidates"):
                try:
                    for _round in range(6):
                        cands = list(mod.shrink_candidates(small))[:48]
                        if not cands:
                            break
                        tt = []
                        for j, c in enumerate(cands):
                            t = mod.coq_term(c, safe_run(mod, c))
                            if t is not None:
                                tt.append((j, t))
                        b, _, _ = coqrun.run_cases(pid + "_shrink", mod.IMPORTS, tt, shard=8)
                        if not b:
                            break
                        small = cands[min(b)]
                except Exception:
                    pass
            o = safe_run(mod, small)
            shown = None
            if hasattr(mod, "show_term"):
                try:
                    shown = coqrun.eval_term(pid, mod.IMPORTS, mod.show_term(small, o))
                except Exception as e:
                    shown = f"(could not evaluate: {e})"
            report("correspondence-broken", small, o,
                   [f"{getattr(mod, 'CORR_NAME', 'Corr_' + pid)}: model and implementation disagree on this case; "
                    f"the direct check found no property failure: no-failing-input-found"],
                   {"obligation": getattr(mod, "CORR_NAME", f"Corr_{pid}.model_matches_impl"), "model_output": shown})
    # explicit witnesses of recorded findings (re-run on the implementation on every run)
    if hasattr(mod, "witnesses") and not replay:
        try:
            for sig, msg, wcase in mod.witnesses(ctx):
                k = matches_known(pid, sig, known)
                if k is not None:
                    known_hits.append((k, [msg]))
                else:
                    nrep += 1
                    path = write_replay(pid, nrep, {"property": pid, "kind": "property-fails-on-implementation",
                                                    "messages": [msg], "case": wcase, "signature": sig, "witness": True,
                                                    "note": "explicit witness of a finding, re-run by the check's witnesses() on every run"})
                    violations.append(("property-fails-on-implementation", path, [msg]))
        except Exception as e:
            nrep += 1
            path = write_replay(pid, nrep, {"property": pid, "kind": "witness-crashed", "detail": traceback.format_exc()[-2000:]})
            violations.append(("correspondence-not-evaluable", path, [f"witness replay crashed: {e}"]))
    if proof_fail is not None:
        nrep += 1
        path = write_replay(pid, nrep, {"property": pid, "kind": "proof-broken", "obligation": mod.PROPS,
                                        "detail": proof_fail, "note": "no-failing-input-found"})
        violations.append(("proof-broken", path, [proof_fail[:300]]))
    if corr_fail is not None:
        nrep += 1
        path = write_replay(pid, nrep, {"property": pid, "kind": "correspondence-not-evaluable",
                                        "obligation": getattr(mod, "CORR_NAME", f"Corr_{pid}"),
                                        "detail": corr_fail, "note": "no-failing-input-found"})
        violations.append(("correspondence-not-evaluable", path, [corr_fail[:300]]))

    # ---- further proof obligations a module discharges on every run (e.g. theorems about a model that is
    # re-translated from the current source): each {"name", "ok": True / False / None (= not applicable), "detail"}
    obl_rows = []
    if hasattr(mod, "obligations") and not replay:
        try:
            obl_rows = list(mod.obligations(ctx))
        except Exception as e:
            obl_rows = [{"name": "obligations", "ok": False, "detail": f"{type(e).__name__}: {e}"}]
        for o in obl_rows:
            if o["ok"] is False:
                nrep += 1
                path = write_replay(pid, nrep, {"property": pid, "kind": "proof-broken", "obligation": o["name"],
                                                "detail": o["detail"], "note": "no-failing-input-found"})
                violations.append(("proof-broken", path, [f"{o['name']}: {str(o['detail'])[:300]}"]))

    extra_cov = {}
    if hasattr(mod, "extra") and not replay:
        try:
            extra_cov = mod.extra(ctx) or {}
        except Exception as e:
            extra_cov = {"extra_error": f"{type(e).__name__}: {e}"}

    # ---- evidence ------------------------------------------------------------------
    samples = []
    for i in sorted(nontriv)[:2] or list(range(min(2, len(cases)))):
        samples.append({"case": _trunc(cases[i]), "observed": _trunc(obs_by_id[i])})
    n_thm = len(proof_rows)
    cov = {
        "obligations": n_thm + (1 if terms else 0),
        "discharged": (sum(1 for r in proof_rows if r["ok"]) if proof_fail is None else 0)
                      + (1 if terms and not cbad and corr_fail is None and proof_fail is None else 0),
        "checker_cmd": "make -C /verif/coq (coqc 8.16.1, full .vo build) ; coqc Prop_*.v with Print Assumptions ; "
                       "coqc build/%s/cases_*.v (vm_compute)" % pid,
        "trusted_base": getattr(mod, "TRUSTED", []),
        "theorems": [{"name": r["theorem"], "module": r["module"], "axioms": r["axioms"]} for r in proof_rows],
        "evaluations": len(cases),
        "distinct_nontrivial": len(nontriv),
        "rule": getattr(mod, "RULE", ""),
        "samples": samples,
        "traces_validated_against_impl": len(terms) - len(cbad),
        "model_evaluated_cases": len(terms),
        "model_mismatches": len(cbad),
        "direct_check_failures": len(dfail),
        "corpus_cases": getattr(ctx, "n_corpus", 0),
        "coq_build_s": build_s, "coq_cases_s": round(coq_s, 2), "coq_case_files": nfiles,
        "impl_s": round(t_impl, 2),
        "stats": ctx.stats,
        "known_findings_hit": [k.get("id") for k, _ in known_hits],
    }
    cov.update(extra_cov)
    if obl_rows:
        cov["obligations"] += sum(1 for o in obl_rows if o["ok"] is not None)
        cov["discharged"] += sum(1 for o in obl_rows if o["ok"] is True)
        cov["further_obligations"] = [{k: (str(v)[:300] if k == "detail" else v) for k, v in o.items()} for o in obl_rows]
    ev = {"property_id": pid, "tier": tier, "seed": seed, "level": getattr(mod, "LEVEL", "proof"),
          "coverage": cov, "assumptions": getattr(mod, "ASSUMPTIONS", []),
          "wall_s": round(time.time() - ctx.t0, 2), "violations": len(violations)}
    if not replay and os.environ.get("VERIF_NO_EVIDENCE") != "1":
        os.makedirs(os.path.join(VERIF, "evidence"), exist_ok=True)
        json.dump(ev, open(os.path.join(VERIF, "evidence", pid + ".json"), "w"), indent=1, default=str)

    seen_k = set()
    for k, msgs in known_hits:
        if k.get("id") in seen_k:
            continue
        seen_k.add(k.get("id"))
        print(f"KNOWN-FINDING: property={pid} {k.get('what')}")
    for kind, path, msgs in violations:
        tail = " no-failing-input-found" if kind != "property-fails-on-implementation" else ""
        print(f"  [{kind}] {msgs[0][:400]}")
        print(f"VIOLATION property={pid} replay={path}{tail}")
    ties = ""
    if obl_rows:
        ties = (f", translated-source obligations: {sum(1 for o in obl_rows if o['ok'] is True)} proved / "
                f"{sum(1 for o in obl_rows if o['ok'] is None)} not applicable / {sum(1 for o in obl_rows if o['ok'] is False)} broken")
    print(f"{pid} {tier}: {len(cases)} cases ({len(nontriv)} non-trivial), {len(terms)} model-checked, "
          f"{len(cbad)} mismatches, {len(dfail)} direct failures ({len(known_hits)} recorded findings hit), {n_thm} theorems, "
          f"{time.time() - ctx.t0:.1f}s{ties}")
    return 1 if violations else 0


def _trunc(x, n=40):
    if isinstance(x, dict):
        return {k: _trunc(v, n) for k, v in list(x.items())[:30]}
    if isinstance(x, (list, tuple)):
        if len(x) > n:
            return [_trunc(v, n) for v in x[:n]] + [f"... ({len(x)} items)"]
        return [_trunc(v, n) for v in x]
    return x
