"""Second tie by translation: the update() cores of PageHinkley / DDM / EDDM of the tree under test are re-translated
to Gallina (tools/py2coq_scalar.py) on every run and coqgen/Scalar_Gen_Proofs.v is re-checked against the fresh
translation (see notes/design_py2coq_scalar.md)."""
import os, re, shutil, subprocess, sys
from . import coqrun


def obligations_scalar(ctx, classes):
    """Re-translate <Class>.update cores of the tree under test (tools/py2coq_scalar.py) and re-check the class's part of
    coqgen/Scalar_Gen_Proofs.v against the fresh translation.  unsupported / ill-typed -> ok None, broken proof -> ok False."""
    repo = os.environ.get("VERIF_REPO", "/repo")
    tool = os.path.join(coqrun.VERIF, "tools", "py2coq_scalar.py")
    proofs = open(os.path.join(coqrun.VERIF, "coqgen", "Scalar_Gen_Proofs.v")).read()
    snap = open(os.path.join(coqrun.VERIF, "coqgen", "Scalar_Gen.v")).read()
    marker = r"\(\* BEGIN (\w+) \*\).*?\(\* END \1 \*\)\n?"

    def part(text, c):
        m = re.search(r"\(\* BEGIN %s \*\).*?\(\* END %s \*\)" % (c, c), text, re.S)
        return m.group(0) if m else None

    for c in classes:
        d = os.path.join(coqrun.BUILD, "scalar", f"{c}.{os.getpid()}")
        shutil.rmtree(d, ignore_errors=True)
        os.makedirs(d)
        try:
            r = subprocess.run([sys.executable, tool, repo, os.path.join(d, "Scalar_Gen.v"), c],
                               capture_output=True, text=True, timeout=120)
            if r.returncode != 0:
                yield {"name": f"py2coq_scalar {c}", "ok": None,
                       "detail": "translation not applicable: " + (r.stderr.strip() or r.stdout.strip())[-300:]}
                continue
            if part(proofs, c) is None:
                yield {"name": f"Scalar_Gen_Proofs {c}", "ok": False, "detail": "no BEGIN/END part for this class"}
                continue
            mine = re.sub(marker, lambda m: m.group(0) if m.group(1) == c else "", proofs, flags=re.S)
            hits = [l.strip() for l in mine.splitlines()
                    if re.search(r"\b(Admitted|admit|Axiom|Parameter|Conjecture|Abort)\b|Unset Guard|bypass_check|native_compute", l)
                    and not l.strip().startswith("(*")]
            if hits:
                yield {"name": f"Scalar_Gen_Proofs {c}", "ok": False, "detail": f"forbidden constructs: {hits[:3]}"}
                continue
            open(os.path.join(d, "Scalar_Gen_Proofs.v"), "w").write(mine)
            args = ["coqc", "-Q", coqrun.COQ, "MV", "-Q", ".", "MVG"]
            r = subprocess.run(args + ["Scalar_Gen.v"], cwd=d, capture_output=True, text=True, timeout=300)
            if r.returncode != 0:
                yield {"name": f"py2coq_scalar {c}", "ok": None,
                       "detail": "translation not applicable: the generated Gallina does not type-check: " + (r.stdout + r.stderr)[-300:]}
                continue
            r = subprocess.run(args + ["Scalar_Gen_Proofs.v"], cwd=d, capture_output=True, text=True, timeout=900)
            out = r.stdout + r.stderr
            if r.returncode != 0:
                yield {"name": f"Scalar_Gen_Proofs {c} (translation of the current {c}.update = hand-written kernel step, every N : Num)",
                       "ok": False,
                       "detail": "the equivalence proof no longer checks against the re-translated source: " + out[-600:]}
                continue
            names = re.findall(r"^Print Assumptions (\w+)\.", mine, re.M)
            closed = out.count("Closed under the global context")
            if closed != len(names):
                yield {"name": f"Scalar_Gen_Proofs {c}", "ok": False,
                       "detail": f"{len(names) - closed} of {len(names)} theorems depend on axioms: " + out[-400:]}
                continue
            same = part(open(os.path.join(d, "Scalar_Gen.v")).read(), c) == part(snap, c)
            for n in names:
                yield {"name": "MVG.Scalar_Gen_Proofs." + n, "ok": True,
                       "detail": f"closed under the global context; checked against the translation of {c}.update in {repo}"
                                 + ("" if same else " (differs from the committed snapshot coqgen/Scalar_Gen.v)")}
        finally:
            shutil.rmtree(d, ignore_errors=True)


def obligations_validate(ctx):
    """Re-translate StreamingDetector / BatchDetector ._validate_X / ._validate_y and the validation prologues of ADWIN / CUSUM /
    PageHinkley .update, HistogramDensityMethod.set_reference and CDBD's early guards of the tree under test
    (tools/py2coq_validate.py) and re-check coqgen/Validate_Gen_Proofs.v against the fresh translation: the translated
    validators ARE the hand-written model coq/Validate.v on every state and input, and raise nothing but ValueError.
    unsupported / ill-typed -> ok None, broken proof -> ok False."""
    repo = os.environ.get("VERIF_REPO", "/repo")
    tool = os.path.join(coqrun.VERIF, "tools", "py2coq_validate.py")
    d = os.path.join(coqrun.BUILD, "validate", f"gen.{os.getpid()}")
    shutil.rmtree(d, ignore_errors=True)
    os.makedirs(d)
    try:
        r = subprocess.run([sys.executable, tool, repo, os.path.join(d, "Validate_Gen.v")],
                           capture_output=True, text=True, timeout=120)
        if r.returncode != 0:
            yield {"name": "py2coq_validate", "ok": None,
                   "detail": "translation not applicable: " + (r.stderr.strip() or r.stdout.strip())[-300:]}
            return
        shutil.copy(os.path.join(coqrun.VERIF, "coqgen", "Validate_Gen_Proofs.v"), d)
        text = open(os.path.join(d, "Validate_Gen_Proofs.v")).read()
        hits = [l.strip() for l in text.splitlines()
                if re.search(r"\b(Admitted|admit|Axiom|Parameter|Conjecture|Abort)\b|Unset Guard|bypass_check|native_compute", l)
                and not l.strip().startswith("(*")]
        if hits:
            yield {"name": "Validate_Gen_Proofs", "ok": False, "detail": f"forbidden constructs: {hits[:3]}"}
            return
        args = ["coqc", "-Q", coqrun.COQ, "MV", "-Q", ".", "MVG"]
        r = subprocess.run(args + ["Validate_Gen.v"], cwd=d, capture_output=True, text=True, timeout=300)
        if r.returncode != 0:
            yield {"name": "py2coq_validate", "ok": None,
                   "detail": "translation not applicable: the generated Gallina does not type-check: " + (r.stdout + r.stderr)[-300:]}
            return
        r = subprocess.run(args + ["Validate_Gen_Proofs.v"], cwd=d, capture_output=True, text=True, timeout=900)
        out = r.stdout + r.stderr
        if r.returncode != 0:
            # search (vm_compute over a grid of states x inputs; not a proof) for a concrete point where the translated
            # source and the model differ - it goes into the replay of the broken obligation
            wit = ""
            try:
                shutil.copy(os.path.join(coqrun.VERIF, "coqgen", "Validate_Gen_Search.v"), d)
                rs = subprocess.run(args + ["Validate_Gen_Search.v"], cwd=d, capture_output=True, text=True, timeout=300)
                found = [re.sub(r"\s+", " ", m) for m in re.findall(r"= (\(\"[\w\.\[\]=]+\",\s*Some.*?)\n\s+:", rs.stdout, re.S)]
                wit = ("; translated source and model differ at (method, (state, input, (translated result, no-other-exception, model result))): "
                       + " | ".join(found)) if found else "; no differing point on the search grid"
            except Exception as e:
                wit = f"; witness search not evaluable ({type(e).__name__})"
            yield {"name": "Validate_Gen_Proofs (translation of the current detector.py validators = Validate.v, every state and input)",
                   "ok": False,
                   "detail": "the equivalence proof no longer checks against the re-translated source: " + out[-300:] + wit}
            return
        names = re.findall(r"^Print Assumptions (\w+)\.", text, re.M)
        closed = out.count("Closed under the global context")
        if closed != len(names):
            yield {"name": "Validate_Gen_Proofs", "ok": False,
                   "detail": f"{len(names) - closed} of {len(names)} theorems depend on axioms: " + out[-400:]}
            return
        same = open(os.path.join(d, "Validate_Gen.v")).read() == open(os.path.join(coqrun.VERIF, "coqgen", "Validate_Gen.v")).read()
        for n in names:
            yield {"name": "MVG.Validate_Gen_Proofs." + n, "ok": True,
                   "detail": f"closed under the global context; checked against the translation of menelaus/detector.py in {repo}"
                             + ("" if same else " (differs from the committed snapshot coqgen/Validate_Gen.v)")}
    finally:
        shutil.rmtree(d, ignore_errors=True)


def obligations_lifecycle(ctx):
    """Re-translate the counter / drift_state bookkeeping of StreamingDetector / BatchDetector / DriftDetector of the tree under
    test (tools/py2coq_lifecycle.py) and re-check coqgen/Lifecycle_Gen_Proofs.v against the fresh translation: init / reset /
    the increments of update are those of the generic machine coq/Lifecycle.v, the drift_state setter stores exactly "drift",
    "warning", None.  unsupported / ill-typed -> ok None, broken proof -> ok False."""
    repo = os.environ.get("VERIF_REPO", "/repo")
    tool = os.path.join(coqrun.VERIF, "tools", "py2coq_lifecycle.py")
    d = os.path.join(coqrun.BUILD, "lifecycle", f"gen.{os.getpid()}")
    shutil.rmtree(d, ignore_errors=True)
    os.makedirs(d)
    try:
        r = subprocess.run([sys.executable, tool, repo, os.path.join(d, "Lifecycle_Gen.v")],
                           capture_output=True, text=True, timeout=120)
        if r.returncode != 0:
            yield {"name": "py2coq_lifecycle", "ok": None,
                   "detail": "translation not applicable: " + (r.stderr.strip() or r.stdout.strip())[-300:]}
            return
        shutil.copy(os.path.join(coqrun.VERIF, "coqgen", "Lifecycle_Gen_Proofs.v"), d)
        text = open(os.path.join(d, "Lifecycle_Gen_Proofs.v")).read()
        hits = [l.strip() for l in text.splitlines()
                if re.search(r"\b(Admitted|admit|Axiom|Parameter|Conjecture|Abort)\b|Unset Guard|bypass_check|native_compute", l)
                and not l.strip().startswith("(*")]
        if hits:
            yield {"name": "Lifecycle_Gen_Proofs", "ok": False, "detail": f"forbidden constructs: {hits[:3]}"}
            return
        args = ["coqc", "-Q", coqrun.COQ, "MV", "-Q", ".", "MVG"]
        r = subprocess.run(args + ["Lifecycle_Gen.v"], cwd=d, capture_output=True, text=True, timeout=300)
        if r.returncode != 0:
            yield {"name": "py2coq_lifecycle", "ok": None,
                   "detail": "translation not applicable: the generated Gallina does not type-check: " + (r.stdout + r.stderr)[-300:]}
            return
        r = subprocess.run(args + ["Lifecycle_Gen_Proofs.v"], cwd=d, capture_output=True, text=True, timeout=600)
        out = r.stdout + r.stderr
        if r.returncode != 0:
            gen = open(os.path.join(d, "Lifecycle_Gen.v")).read()
            shown = " | ".join(l.strip() for l in gen.splitlines() if l.startswith("Definition ") and "_Detector" not in l and
                               any(k in l for k in ("_init", "_update", "_reset", "_set_drift_state")))
            yield {"name": "Lifecycle_Gen_Proofs (base-class bookkeeping of the current detector.py = the generic machine Lifecycle.v)",
                   "ok": False,
                   "detail": "the equivalence proof no longer checks against the re-translated source: " + out[-300:]
                             + "; translated bookkeeping: " + shown[:900]}
            return
        names = re.findall(r"^Print Assumptions (\w+)\.", text, re.M)
        closed = out.count("Closed under the global context")
        if closed != len(names):
            yield {"name": "Lifecycle_Gen_Proofs", "ok": False,
                   "detail": f"{len(names) - closed} of {len(names)} theorems depend on axioms: " + out[-400:]}
            return
        same = open(os.path.join(d, "Lifecycle_Gen.v")).read() == open(os.path.join(coqrun.VERIF, "coqgen", "Lifecycle_Gen.v")).read()
        for n in names:
            yield {"name": "MVG.Lifecycle_Gen_Proofs." + n, "ok": True,
                   "detail": f"closed under the global context; checked against the translation of menelaus/detector.py in {repo}"
                             + ("" if same else " (differs from the committed snapshot coqgen/Lifecycle_Gen.v)")}
    finally:
        shutil.rmtree(d, ignore_errors=True)


def _obligations_gen(tool_name, stem, what, source):
    """generic: re-translate with tools/<tool_name>, compile coqgen/<stem>_Gen.v afresh and re-check coqgen/<stem>_Gen_Proofs.v"""
    repo = os.environ.get("VERIF_REPO", "/repo")
    tool = os.path.join(coqrun.VERIF, "tools", tool_name)
    d = os.path.join(coqrun.BUILD, stem.lower(), f"gen.{os.getpid()}")
    shutil.rmtree(d, ignore_errors=True)
    os.makedirs(d)
    gen, prf = f"{stem}_Gen.v", f"{stem}_Gen_Proofs.v"
    try:
        r = subprocess.run([sys.executable, tool, repo, os.path.join(d, gen)], capture_output=True, text=True, timeout=120)
        if r.returncode != 0:
            yield {"name": tool_name, "ok": None,
                   "detail": "translation not applicable: " + (r.stderr.strip() or r.stdout.strip())[-300:]}
            return
        shutil.copy(os.path.join(coqrun.VERIF, "coqgen", prf), d)
        text = open(os.path.join(d, prf)).read()
        hits = [l.strip() for l in text.splitlines()
                if re.search(r"\b(Admitted|admit|Axiom|Parameter|Conjecture|Abort)\b|Unset Guard|bypass_check|native_compute", l)
                and not l.strip().startswith("(*")]
        if hits:
            yield {"name": prf, "ok": False, "detail": f"forbidden constructs: {hits[:3]}"}
            return
        args = ["coqc", "-Q", coqrun.COQ, "MV", "-Q", ".", "MVG"]
        r = subprocess.run(args + [gen], cwd=d, capture_output=True, text=True, timeout=300)
        if r.returncode != 0:
            yield {"name": tool_name, "ok": None,
                   "detail": "translation not applicable: the generated Gallina does not type-check: " + (r.stdout + r.stderr)[-300:]}
            return
        r = subprocess.run(args + [prf], cwd=d, capture_output=True, text=True, timeout=600)
        out = r.stdout + r.stderr
        if r.returncode != 0:
            yield {"name": f"{stem}_Gen_Proofs ({what})", "ok": False,
                   "detail": "the equivalence proof no longer checks against the re-translated source: " + out[-500:]}
            return
        names = re.findall(r"^Print Assumptions (\w+)\.", text, re.M)
        closed = out.count("Closed under the global context")
        if closed != len(names):
            yield {"name": prf, "ok": False, "detail": f"{len(names) - closed} of {len(names)} theorems depend on axioms: " + out[-400:]}
            return
        same = open(os.path.join(d, gen)).read() == open(os.path.join(coqrun.VERIF, "coqgen", gen)).read()
        for n in names:
            yield {"name": f"MVG.{stem}_Gen_Proofs." + n, "ok": True,
                   "detail": f"closed under the global context; checked against the translation of {source} in {repo}"
                             + ("" if same else f" (differs from the committed snapshot coqgen/{gen})")}
    finally:
        shutil.rmtree(d, ignore_errors=True)


def obligations_ensemble(ctx):
    """ensemble.py's update / reset / set_reference re-translated (tools/py2coq_ensemble.py) and re-proved equal to the generic
    ensemble model coq/Ensemble.v for every member machine and every election."""
    yield from _obligations_gen("py2coq_ensemble.py", "Ensemble",
                                "translation of the current ensemble.py = Ensemble.v, every state, input, member machine and election",
                                "menelaus/ensemble/ensemble.py")
