"""Second tie by translation: the update() cores of PageHinkley / DDM / EDDM of the tree under test are re-translated
to Gallina (tools/py2coq_scalar.py) on every run and coqgen/Scalar_Gen_Proofs.v is re-checked against the fresh
translation (see notes/design_py2coq_scalar.md)."""
import os, re, shutil, subprocess, sys
from . import coqrun


def obligations_scalar(ctx, classes):
    """Re-translate <Class>.update cores of the tree under test (tools/py2coq_scalar.py) and re-check the class's part of
    coqgen/Scalar_Gen_Proofs.v against the fresh translation.  unsupported / ill-typed -> ok None, broken proof -> ok False."""
    repo = os.environ.get("VERIF_REPO", "/repo")
    tool = os.path.join(coqrun.VERIF, "tools", "py2coq_scalar.py")
    proofs = open(os.path.join(coqrun.VERIF, "coqgen", "Scalar_Gen_Proofs.v")).read()
    snap = open(os.path.join(coqrun.VERIF, "coqgen", "Scalar_Gen.v")).read()
    marker = r"\(\* BEGIN (\w+) \*\).*?\(\* END \1 \*\)\n?"

    def part(text, c):
        m = re.search(r"\(\* BEGIN %s \*\).*?\(\* END %s \*\)" % (c, c), text, re.S)
        return m.group(0) if m else None

    for c in classes:
        d = os.path.join(coqrun.BUILD, "scalar", f"{c}.{os.getpid()}")
        shutil.rmtree(d, ignore_errors=True)
        os.makedirs(d)
        try:
            r = subprocess.run([sys.executable, tool, repo, os.path.join(d, "Scalar_Gen.v"), c],
                               capture_output=True, text=True, timeout=120)
            if r.returncode != 0:
                yield {"name": f"py2coq_scalar {c}", "ok": None,
                       "detail": "translation not applicable: " + (r.stderr.strip() or r.stdout.strip())[-300:]}
                continue
            if part(proofs, c) is None:
                yield {"name": f"Scalar_Gen_Proofs {c}", "ok": False, "detail": "no BEGIN/END part for this class"}
                continue
            mine = re.sub(marker, lambda m: m.group(0) if m.group(1) == c else "", proofs, flags=re.S)
            hits = [l.strip() for l in mine.splitlines()
                    if re.search(r"\b(Admitted|admit|Axiom|Parameter|Conjecture|Abort)\b|Unset Guard|bypass_check|native_compute", l)
                    and not l.strip().startswith("(*")]
            if hits:
                yield {"name": f"Scalar_Gen_Proofs {c}", "ok": False, "detail": f"forbidden constructs: {hits[:3]}"}
                continue
            open(os.path.join(d, "Scalar_Gen_Proofs.v"), "w").write(mine)
            args = ["coqc", "-Q", coqrun.COQ, "MV", "-Q", ".", "MVG"]
            r = subprocess.run(args + ["Scalar_Gen.v"], cwd=d, capture_output=True, text=True, timeout=300)
            if r.returncode != 0:
                yield {"name": f"py2coq_scalar {c}", "ok": None,
                       "detail": "translation not applicable: the generated Gallina does not type-check: " + (r.stdout + r.stderr)[-300:]}
                continue
            r = subprocess.run(args + ["Scalar_Gen_Proofs.v"], cwd=d, capture_output=True, text=True, timeout=900)
            out = r.stdout + r.stderr
            if r.returncode != 0:
                yield {"name": f"Scalar_Gen_Proofs {c} (translation of the current {c}.update = hand-written kernel step, every N : Num)",
                       "ok": False,
                       "detail": "the equivalence proof no longer checks against the re-translated source: " + out[-600:]}
                continue
            names = re.findall(r"^Print Assumptions (\w+)\.", mine, re.M)
            closed = out.count("Closed under the global context")
            if closed != len(names):
                yield {"name": f"Scalar_Gen_Proofs {c}", "ok": False,
                       "detail": f"{len(names) - closed} of {len(names)} theorems depend on axioms: " + out[-400:]}
                continue
            same = part(open(os.path.join(d, "Scalar_Gen.v")).read(), c) == part(snap, c)
            for n in names:
                yield {"name": "MVG.Scalar_Gen_Proofs." + n, "ok": True,
                       "detail": f"closed under the global context; checked against the translation of {c}.update in {repo}"
                                 + ("" if same else " (differs from the committed snapshot coqgen/Scalar_Gen.v)")}
        finally:
            shutil.rmtree(d, ignore_errors=True)
