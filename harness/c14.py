"""C14 — uniform input validation; rejected inputs do no harm; containers don't matter.

Every case is a history of user-level calls (update / set_reference) on one detector, built from
JSON value specs so that the same values can be put into different containers.
  mode "inject": a valid history with ONE malformed call inserted at a position; compared with a
                 twin that never saw the call (same seed schedule)
  mode "mix":    a valid history run twice with two different container plans
  mode "ypure":  direct calls of _validate_y (the batch variant is used by no detector)
D (direct_check) uses an independent, history-based statement of the rule (spec_run below);
C (coq_term) replays every recorded _validate_X invocation and every user-level verdict and the two
attributes after every call through the model (Validate.chk_history)."""
import copy, hashlib, json, os, traceback
import numpy as np
import pandas as pd
from menelaus.change_detection import ADWIN, CUSUM, PageHinkley
from menelaus.concept_drift import ADWINAccuracy, DDM, EDDM, STEPD, LinearFourRates
from menelaus.data_drift import HDDDM, CDBD, KdqTreeBatch, KdqTreeStreaming, NNDVI, PCACD
from . import coqgen as G
from .common import MISSING

ID = "C14"
PROPS = ["Prop_C14"]
IMPORTS = "From MV Require Import Base Validate."
LEVEL = "proof"
CORR_NAME = ("Corr_C14: Validate.v (validate_X_stream/batch, univariate and CDBD guards, validate_y, call order) = "
             "detector.py + the update()/set_reference() prologues of the 14 detector classes")
TRUSTED = ["Coq 8.16.1 kernel + vm_compute",
           "hand-written model coq/Validate.v, tied to the code by replaying every recorded _validate_X invocation, every "
           "user-level verdict and _input_cols/_input_col_dim after every call (bounded by the generators)",
           "descriptors of detector-internal validation calls (HDM proxy batch, KdqTreeBatch/NNDVI re-referencing, "
           "ADWINAccuracy's 0/1 value) are oracle inputs of the model, recorded from the implementation",
           "numpy/pandas coercion np.array(X) is summarised by the container kind of the descriptor (harness/c14.py: desc)",
           "harness/c14.py, harness/coqgen.py; theorems: Closed under the global context"]
RULE = ("for each of ADWIN, ADWINAccuracy, CUSUM, PageHinkley, DDM, EDDM, STEPD, LinearFourRates, KdqTreeStreaming, KdqTreeBatch, "
        "HDDDM (detect_batch 1,2,3), CDBD (1,2,3), NNDVI, PCACD: valid histories that reach drift, under several container plans "
        "(homogeneous, mixed without DataFrame, DataFrame first, arrays then DataFrame, named / default column labels); "
        "one malformed call of each applicable kind (rows, width, renamed, multicol, ymulti) in varying containers at every "
        "position of the history (PCACD: a subset in the quick tier) incl. right after a drift; container-plan pairs on the same "
        "values; np.random.seed(f(case, number of accepted calls)) before every call. Non-trivial: the injected call is refused "
        "(inject) / the two plans differ and everything is accepted (mix)."
        " Also: PCACD with online_scaling=False.")
SHARD = 300

POOL = ["a", "b", "c", "d", "e", "f", "y", "z"]


def code(label):
    """column label -> integer of the model"""
    if isinstance(label, (int, np.integer)) and not isinstance(label, bool):
        return int(label)
    if isinstance(label, str) and label in POOL:
        return 1000 + POOL.index(label)
    return 5000 + int(hashlib.sha1(repr(label).encode()).hexdigest()[:6], 16)


# ------------------------------------------------------------------------------------------------
# detectors: small windows / few bootstrap samples so that a short history reaches drift
def _hdddm(db):
    return lambda: HDDDM(detect_batch=db, subsets=2)


def _cdbd(db):
    return lambda: CDBD(detect_batch=db, subsets=2, statistic="stdev", significance=1.0)


DETS = {
    "ADWIN": dict(fam="sx", kind="KStreamUni", L=12,
                  mk=lambda: ADWIN(delta=0.5, new_sample_thresh=2, window_size_thresh=4, subwindow_size_thresh=2)),
    "CUSUM": dict(fam="sx", kind="KStreamUni", L=12, mk=lambda: CUSUM(burn_in=4, threshold=3, delta=0.005)),
    "PageHinkley": dict(fam="sx", kind="KStreamUni", L=12, mk=lambda: PageHinkley(delta=0.01, threshold=2, burn_in=3)),
    "KdqTreeStreaming": dict(fam="sx", kind="KStream", L=14,
                             mk=lambda: KdqTreeStreaming(window_size=4, persistence=0.05, bootstrap_samples=6,
                                                         count_ubound=2, alpha=0.3)),
    "PCACD": dict(fam="sx", kind="KStream", L=26,
                  mk=lambda: PCACD(window_size=8, sample_period=0.25, divergence_metric="intersection", delta=0.01)),
    "PCACDraw": dict(fam="sx", kind="KStream", L=26,
                     mk=lambda: PCACD(window_size=8, sample_period=0.25, divergence_metric="intersection", delta=0.01,
                                      online_scaling=False)),
    "ADWINAccuracy": dict(fam="sy", kind="KStreamUni", L=16,
                          mk=lambda: ADWINAccuracy(delta=0.9, new_sample_thresh=2, window_size_thresh=4,
                                                   subwindow_size_thresh=2)),
    "DDM": dict(fam="sy", kind="KStream", L=14, mk=lambda: DDM(n_threshold=4, warning_scale=1, drift_scale=2)),
    "EDDM": dict(fam="sy", kind="KStream", L=14, mk=lambda: EDDM(n_threshold=2, warning_thresh=0.99, drift_thresh=0.95)),
    "STEPD": dict(fam="sy", kind="KStream", L=14, mk=lambda: STEPD(window_size=3, alpha_warning=0.3, alpha_drift=0.2)),
    "LinearFourRates": dict(fam="sy", kind="KStream", L=14,
                            mk=lambda: LinearFourRates(burn_in=3, num_mc=20, time_decay_factor=0.6, warning_level=0.2,
                                                       detect_level=0.1)),
    "KdqTreeBatch": dict(fam="bx", kind="KBatch", L=6,
                         mk=lambda: KdqTreeBatch(bootstrap_samples=6, count_ubound=2, alpha=0.1)),
    "HDDDM1": dict(fam="bx", kind="KBatchHdm1", L=6, mk=_hdddm(1), hdm1=True),
    "HDDDM2": dict(fam="bx", kind="KBatch", L=6, mk=_hdddm(2)),
    "HDDDM3": dict(fam="bx", kind="KBatch", L=6, mk=_hdddm(3)),
    "NNDVI": dict(fam="bx", kind="KBatch", L=6, mk=lambda: NNDVI(k_nn=2, sampling_times=12, alpha=0.1)),
    "CDBD1": dict(fam="bx", kind="KBatchCdbd1", L=6, mk=_cdbd(1), hdm1=True),
    "CDBD2": dict(fam="bx", kind="KBatchCdbd", L=6, mk=_cdbd(2)),
    "CDBD3": dict(fam="bx", kind="KBatchCdbd", L=6, mk=_cdbd(3)),
}


def is_uni(name):
    return DETS[name]["kind"] in ("KStreamUni", "KBatchCdbd", "KBatchCdbd1")


def is_batch(name):
    return DETS[name]["fam"] == "bx"


# ------------------------------------------------------------------------------------------------
# value specs -> python objects
def to_obj(s):
    if s is None:
        return None
    c, v = s["c"], s.get("v")
    if c == "py":
        return copy.deepcopy(v)
    if c == "tuple":
        return tuple(v)
    if c == "np":
        return np.array(v, dtype=(int if s.get("dt") == "i" else float))
    if c == "npscalar":
        return np.int64(v) if s.get("dt") == "i" else np.float64(v)
    if c == "series":
        return pd.Series(v, index=s.get("n"), dtype=(int if s.get("dt") == "i" else float))
    if c == "df":
        return pd.DataFrame(np.array(v, dtype=(int if s.get("dt") == "i" else float)), columns=s.get("n"))
    if c == "empty":
        return np.empty(tuple(s["shape"]))
    if c == "dfempty":
        return pd.DataFrame(np.empty((0, len(s["n"]))), columns=s["n"])
    raise ValueError(f"unknown container {c}")


def desc(o):
    """descriptor of the model: container kind and extent"""
    if isinstance(o, pd.DataFrame):
        return ["df", [code(l) for l in o.columns], int(o.shape[0])]
    a = np.array(o)
    if a.ndim == 0:
        return ["sc"]
    if a.ndim == 1:
        return ["se" if isinstance(o, pd.Series) else "1d", int(a.shape[0])]
    if a.ndim == 2:
        return ["a2", int(a.shape[0]), int(a.shape[1])]
    raise ValueError("inputs with more than two dimensions are outside the model")


def desc_term(d):
    if d is None:
        return "None"
    k = d[0]
    if k == "df":
        return f"(InDF {G.zlist(d[1])} {G.z(d[2])})"
    if k == "a2":
        return f"(InArr2 {G.z(d[1])} {G.z(d[2])})"
    if k == "1d":
        return f"(In1D {G.z(d[1])})"
    if k == "se":
        return f"(InSeries {G.z(d[1])})"
    return "InScalar"


def opt_desc_term(d):
    return "None" if d is None else f"(Some {desc_term(d)})"


# ------------------------------------------------------------------------------------------------
# independent statement of the rule, over the history of user-level calls
def norm_shape(o, batch):
    if isinstance(o, pd.DataFrame):
        return int(o.shape[0]), int(o.shape[1])
    a = np.asarray(o)
    if a.ndim == 0:
        return 1, 1
    if a.ndim == 1:
        return (int(a.shape[0]), 1) if batch else (1, int(a.shape[0]))
    return int(a.shape[0]), int(a.shape[1])


def spec_run(name, calls):
    """expected verdict of every call, plus the structural flags used to recognise the recorded
    findings: width / names are established by the first ACCEPTED input / DataFrame only.
    (For HDDDM/CDBD with detect_batch=1 the proxy batch now goes in as an array, so after array
    input a DataFrame is still subject to the S12 gap.)"""
    batch, uni, hdm1 = is_batch(name), is_uni(name), DETS[name].get("hdm1", False)
    width, names, n_acc = None, None, 0
    out = []
    for c in calls:
        x, yt, yp = to_obj(c.get("x")), to_obj(c.get("yt")), to_obj(c.get("yp"))
        ok, flags = True, {}
        if x is not None:
            r, w = norm_shape(x, batch)
            isdf = isinstance(x, pd.DataFrame)
            rows_ok = (r >= 2) if batch else (r == 1)
            if hdm1 and c.get("op") == "set_reference":
                rows_ok = r >= 3        # detect_batch=1: half of the reference is fed back as a test batch
            width_ok = width is None or w == width
            names_ok = (not isdf) or names is None or list(x.columns) == names
            ok = rows_ok and width_ok and names_ok and ((not uni) or w == 1)
            # S12 for BatchDetector: a DataFrame of another width, only non-DataFrame inputs accepted so far
            flags["s12"] = bool(batch and isdf and rows_ok and names is None and width is not None and w != width
                                and n_acc >= 1 and not uni)
            # HDM detect_batch=1: a two-row test batch on which drift is detected becomes a reference that
            # cannot be split (its proxy batch has one row): the NEXT update is refused
            flags["fb"] = bool(hdm1 and ok and r == 2 and c.get("op") == "update")
            flags["isdf"] = isdf
        for y in (yt, yp):
            if y is not None:
                ok = ok and int(np.size(y)) == 1
        if ok and x is not None:
            n_acc += 1
            width = w
            if isinstance(x, pd.DataFrame) and names is None:
                names = list(x.columns)
        out.append((ok, flags))
    return out


def full_calls(case):
    calls = list(case["calls"])
    if case.get("inj"):
        calls.insert(case["inj"]["pos"], case["inj"]["call"])
    return calls


def pattern(case):
    """which recorded finding (if any) the case is structurally able to show"""
    if case["mode"] == "ypure":
        return ""
    sp = spec_run(case["det"], full_calls(case))
    tags = set()
    for ok, fl in sp:
        for t in ("s12", "fb"):
            if fl.get(t):
                tags.add(t)
    if case["mode"] == "mix":
        for ok, fl in spec_run(case["det"], alt_calls(case)):
            for t in ("s12", "fb"):
                if fl.get(t):
                    tags.add(t)
    return "+".join(sorted(tags))


def alt_calls(case):
    return case["alt"]


# ------------------------------------------------------------------------------------------------
# running the implementation
def canon(v, depth=0):
    if v is None or isinstance(v, (bool, str)):
        return v
    if isinstance(v, (int, np.integer)):
        return int(v)
    if isinstance(v, (float, np.floating)):
        return float(v).hex()
    if isinstance(v, (pd.DataFrame, pd.Series)):
        return canon(np.array(v.values), depth)
    if isinstance(v, np.ndarray):
        if v.dtype == object:
            return ["ndo", list(v.shape), [canon(x, depth + 1) for x in v.ravel().tolist()]]
        try:
            a = np.ascontiguousarray(v, dtype=np.float64)
        except Exception:
            return ["nd?", list(v.shape), str(v.dtype)]
        if a.size <= 16:
            return ["nd", list(a.shape), [float(x).hex() for x in a.ravel()]]
        return ["nd", list(a.shape), hashlib.sha1(a.tobytes()).hexdigest()[:16]]
    if isinstance(v, (list, tuple)) or type(v).__name__ == "deque":
        return [canon(x, depth + 1) for x in v]
    if isinstance(v, dict):
        return [[str(k), canon(x, depth + 1)] for k, x in sorted(v.items(), key=lambda kv: str(kv[0]))]
    if isinstance(v, pd.Index):
        return None            # column labels legitimately differ between container plans
    mod = type(v).__module__ or ""
    if mod.startswith("menelaus") and hasattr(v, "__dict__") and depth < 3:
        return [type(v).__name__, canon({k: x for k, x in vars(v).items() if k not in SKIP}, depth + 1)]
    if callable(v):
        return getattr(v, "__name__", type(v).__name__)
    return type(v).__name__


SKIP = {"_input_cols", "_input_col_dim", "_validate_X"}


def digest(x):
    return hashlib.sha1(json.dumps(x, sort_keys=True, default=str).encode()).hexdigest()[:12]


def snapshot(det):
    """drift_state, counters and every attribute of the detector (public outputs and, when present,
    private statistics), canonicalised bit-exactly; the validator's two attributes are compared
    separately"""
    tot = getattr(det, "total_samples", getattr(det, "total_batches", None))
    sin = getattr(det, "samples_since_reset", getattr(det, "batches_since_reset", None))
    attrs = {k: digest(canon(v)) for k, v in vars(det).items() if k not in SKIP}
    for k in ("retraining_recs",):
        if hasattr(det, k):
            attrs["." + k] = digest(canon(getattr(det, k)))
    return {"ds": det.drift_state, "tot": None if tot is None else int(tot), "since": None if sin is None else int(sin),
            "attrs": attrs}


def vattrs(det):
    c, d = getattr(det, "_input_cols", MISSING), getattr(det, "_input_col_dim", MISSING)
    if c is MISSING or d is MISSING:
        return None
    return [None if c is None else [code(l) for l in c], None if d is None else int(d)]


class Recorder:
    """records every _validate_X invocation of one detector (the user's X and internal ones)"""

    def __init__(self, det):
        self.invs, self.user_obj = [], None
        orig = getattr(det, "_validate_X", None)
        self.ok = orig is not None
        if not self.ok:
            return

        def wrapper(X):
            try:
                d = desc(X)
            except Exception:
                d = None
            user = X is self.user_obj
            try:
                r = orig(X)
            except Exception as e:
                self.invs.append([user, d, ["raise", type(e).__name__]])
                raise
            self.invs.append([user, d, ["ret", [int(n) for n in np.shape(r)]]])
            return r

        det._validate_X = wrapper


def play(name, calls, seed):
    det = DETS[name]["mk"]()
    rec = Recorder(det)
    out, n_acc = [], 0
    last = snapshot(det)
    for c in calls:
        x, yt, yp = to_obj(c.get("x")), to_obj(c.get("yt")), to_obj(c.get("yp"))
        pre = last
        rec.invs, rec.user_obj = [], x
        np.random.seed((seed * 1009 + n_acc) % (2 ** 31))
        exc, msg, where, frames = None, "", None, []
        try:
            if DETS[name]["fam"] == "sy":
                det.update(yt, yp)
            elif c["op"] == "set_reference":
                det.set_reference(x)
            else:
                det.update(x)
        except Exception as e:
            exc, msg = type(e).__name__, str(e)[:120]
            tb = traceback.extract_tb(e.__traceback__)
            fr = tb[-1]
            where = [os.path.basename(fr.filename), fr.name, (os.sep + "menelaus" + os.sep) in fr.filename]
            frames = [[os.path.basename(f.filename), f.name] for f in tb]
        if exc is None:
            n_acc += 1
        last = snapshot(det)
        out.append({"acc": exc is None, "exc": exc, "msg": msg, "where": where, "frames": frames, "invs": rec.invs if rec.ok else None,
                    "attrs": vattrs(det), "pre": pre, "snap": last,

                    "op": c.get("op", "update"), "x": None if x is None else desc(x),
                    "yt": None if yt is None else desc(yt), "yp": None if yp is None else desc(yp)})
    return out


_CACHE = {}
RUNTIME = {"injected_with_reset_pending": {}, "refused_calls": 0, "twin_snapshots_compared": 0,
           "plan_snapshots_compared": 0, "descriptor_kinds": {}, "internal_invocations": 0}


def _note(case, obs):
    try:
        for r in obs["main"]:
            for u, d, o in (r["invs"] or []):
                if d:
                    RUNTIME["descriptor_kinds"][d[0]] = RUNTIME["descriptor_kinds"].get(d[0], 0) + 1
                if not u:
                    RUNTIME["internal_invocations"] += 1
        if case["mode"] == "inject":
            r = obs["main"][case["inj"]["pos"]]
            if not r["acc"]:
                RUNTIME["refused_calls"] += 1
                if r["pre"]["ds"] == "drift":
                    k = case["det"]
                    RUNTIME["injected_with_reset_pending"][k] = RUNTIME["injected_with_reset_pending"].get(k, 0) + 1
            RUNTIME["twin_snapshots_compared"] += sum(1 for t in obs["twin"] if t["acc"])
        else:
            RUNTIME["plan_snapshots_compared"] += sum(1 for t in obs["alt"] if t["acc"])
    except Exception:
        pass


def extra(ctx):
    return {"c14_runtime": RUNTIME}


def play_cached(name, calls, seed):
    k = hashlib.sha1(json.dumps([name, calls, seed], sort_keys=True).encode()).hexdigest()
    if k not in _CACHE:
        if len(_CACHE) > 4000:
            _CACHE.clear()
        _CACHE[k] = play(name, calls, seed)
    return _CACHE[k]


def run_impl(case):
    if case["mode"] == "ypure":
        det = DETS[case["det"]]["mk"]()
        f = getattr(det, "_validate_y", None)
        res = []
        for s in case["ys"]:
            y = to_obj(s)
            if f is None:
                res.append(None); continue
            try:
                f(y); res.append([desc(y), True, None])
            except Exception as e:
                res.append([desc(y), False, type(e).__name__])
        return {"ys": res}
    name, seed = case["det"], case["seed"]
    obs = {"main": play(name, full_calls(case), seed)}
    if case["mode"] == "inject":
        obs["twin"] = play_cached(name, case["calls"], seed)
    else:
        obs["alt"] = play_cached(name, alt_calls(case), seed)
    return obs


# ------------------------------------------------------------------------------------------------
# D
def snap_diff(a, b):
    if a == b:
        return None
    parts = [k for k in ("ds", "tot", "since") if a[k] != b[k]]
    parts += [k for k in sorted(set(a["attrs"]) | set(b["attrs"])) if a["attrs"].get(k) != b["attrs"].get(k)]
    return ", ".join(parts[:6])


def first_deviation(name, calls, recs):
    """index and text of the first call whose outcome is not what the rule says"""
    sp = spec_run(name, calls)
    for i, ((ok, fl), r) in enumerate(zip(sp, recs)):
        if ok and not r["acc"]:
            return i, f"call {i} ({calls[i].get('op', 'update')} {short(calls[i])}) is valid but raised {r['exc']}: {r['msg']}"
        if not ok and r["acc"]:
            return i, f"call {i} ({calls[i].get('op', 'update')} {short(calls[i])}) must be refused with ValueError but was accepted"
        if not ok and r["exc"] != "ValueError":
            return i, f"call {i} ({calls[i].get('op', 'update')} {short(calls[i])}) must be refused with ValueError but raised {r['exc']}: {r['msg']}"
        if not ok and passed_validation(name, r):
            return i, (f"call {i} ({calls[i].get('op', 'update')} {short(calls[i])}) must be refused by validation but passed it "
                       f"(the {r['exc']} came later: {r['msg']})")
    return None, None


def refused_by_validation(r):
    """ValueError raised by a `raise` statement of the library itself (innermost frame inside the menelaus package: the
    base-class validators of detector.py, a guard in the detector's update()/set_reference() or in a helper it calls);
    a ValueError coming out of numpy / pandas / sklearn (innermost frame outside the package) comes from the body.
    Where inside the library the guard is written does not matter."""
    w = r["where"]
    if r["exc"] != "ValueError" or w is None:
        return False
    in_pkg = w[2] if len(w) > 2 else (w[0] == "detector.py" or w[1] in ("update", "set_reference"))
    return bool(in_pkg)


def passed_validation(name, r):
    """the call got past validation although it did not return normally"""
    return not r["acc"] and not refused_by_validation(r)


def short(c):
    def one(s):
        if s is None:
            return "-"
        o = to_obj(s)
        return f"{s['c']}{list(np.shape(o))}" + (f"{list(o.columns)}" if isinstance(o, pd.DataFrame) else "")
    return "X=" + one(c.get("x")) + ("" if c.get("yt") is None else f" y_true={one(c['yt'])} y_pred={one(c.get('yp'))}")


def direct_check(case, obs):
    if "__exception__" in obs:
        return [f"harness/implementation crashed: {obs['__exception__']}: {obs.get('__message__')}"]
    if case["mode"] == "ypure":
        msgs = []
        if DETS[case["det"]]["fam"] != "bx":           # streaming: exactly one observation
            for s, r in zip(case["ys"], obs["ys"]):
                if r is None:
                    continue
                exp = int(np.size(to_obj(s))) == 1
                if r[1] != exp or (not exp and r[2] != "ValueError"):
                    msgs.append(f"_validate_y({s}) -> {'accepted' if r[1] else r[2]}, expected {'accept' if exp else 'ValueError'}")
        return msgs[:4]
    name = case["det"]
    msgs = []
    _note(case, obs)
    calls, main = full_calls(case), obs["main"]
    i, m = first_deviation(name, calls, main)
    if m:
        msgs.append(m)
    if case["mode"] == "inject":
        pos, twin = case["inj"]["pos"], obs["twin"]
        j, m2 = first_deviation(name, case["calls"], twin)
        if m2:
            msgs.append("twin (history without the malformed call): " + m2)
        r = main[pos]
        if not r["acc"]:
            # not counted: nothing observable moves unless a reset was pending
            if r["pre"]["ds"] is None:
                d = snap_diff(r["pre"], r["snap"])
                if d:
                    msgs.append(f"the refused call {pos} changed the detector although no reset was pending: {d}")
            before = main[pos - 1]["attrs"] if pos > 0 else [None, None]
            if r["attrs"] is not None and before is not None and r["attrs"] != before:
                msgs.append(f"the refused call {pos} changed _input_cols/_input_col_dim: {before} -> {r['attrs']}")
            if r["pre"]["tot"] is not None and r["snap"]["tot"] is not None and r["pre"]["ds"] != "drift" \
                    and r["snap"]["tot"] != r["pre"]["tot"]:
                msgs.append(f"the refused call {pos} was counted: total {r['pre']['tot']} -> {r['snap']['tot']}")
        # later (and earlier) accepted updates: identical to the twin's
        rest = main[:pos] + main[pos + 1:]
        for k, (a, b) in enumerate(zip(rest, twin)):
            if a["acc"] != b["acc"] or a["exc"] != b["exc"]:
                msgs.append(f"call {k} of the history: {'accepted' if a['acc'] else a['exc']} after the malformed call at "
                            f"{pos}, {'accepted' if b['acc'] else b['exc']} in the twin")
                break
            if a["acc"]:
                d = snap_diff(a["snap"], b["snap"])
                if d:
                    msgs.append(f"after the malformed call at {pos}, accepted call {k} of the history differs from the twin in: {d}")
                    break
    else:
        alt = obs["alt"]
        j, m2 = first_deviation(name, alt_calls(case), alt)
        if m2:
            msgs.append("second container plan: " + m2)
        for k, (a, b) in enumerate(zip(main, alt)):
            if a["acc"] != b["acc"]:
                if not m and not m2:
                    msgs.append(f"call {k}: {'accepted' if a['acc'] else a['exc']} with {short(calls[k])}, "
                                f"{'accepted' if b['acc'] else b['exc']} with {short(alt_calls(case)[k])}")
                break
            if a["acc"]:
                d = snap_diff(a["snap"], b["snap"])
                if d:
                    msgs.append(f"call {k}: same values in {short(calls[k])} and {short(alt_calls(case)[k])} give different: {d}")
                    break
    return msgs[:5]


def classify(case, obs):
    """name of the recorded finding this failure is an instance of, else 'other'"""
    if case["mode"] == "ypure" or "__exception__" in obs:
        return "other"
    name = case["det"]
    runs = [(full_calls(case), obs["main"])]
    if case["mode"] == "mix":
        runs.append((alt_calls(case), obs["alt"]))
    else:
        runs.append((case["calls"], obs["twin"]))
    found = []
    for calls, recs in runs:
        sp = spec_run(name, calls)
        i, m = first_deviation(name, calls, recs)
        if i is None:
            continue
        ok, fl = sp[i]
        r = recs[i]
        if r["invs"] is not None:
            invs = r["invs"]
            user_ret = any(u and o[0] == "ret" for u, d, o in invs)
            user_raise = any(u and o[0] == "raise" for u, d, o in invs)
            proxy_raise = any((not u) and o[0] == "raise" and o[1] == "ValueError" and d is not None
                              and ((d[0] == "a2" and d[1] <= 1) or (d[0] == "df" and d[2] <= 1)) for u, d, o in invs)
        else:
            # the validator could not be wrapped under its private name: the same three facts from the traceback
            # (name-independent): an internal batch is validated below reset() of histogram_density_method.py
            in_reset = any(f == ["histogram_density_method.py", "reset"] for f in r.get("frames", []))
            user_ret = r["acc"] or passed_validation(name, r) or in_reset
            user_raise = refused_by_validation(r) and not in_reset
            proxy_raise = r["exc"] == "ValueError" and in_reset and refused_by_validation(r)
        if not ok and fl.get("s12") and (r["acc"] or user_ret) and case["mode"] == "inject" \
                and calls is not case["calls"] and i == case["inj"]["pos"]:
            found.append("S12-batch")
        elif ok and DETS[name].get("hdm1") and calls[i].get("op") == "update" and r["exc"] == "ValueError" \
                and proxy_raise and not user_raise and any(f.get("fb") for _, f in sp[:i]):
            found.append("HDM-proxy-rows")
        else:
            found.append("other")
    kinds = set(found)
    if len(kinds) == 1:
        return found[0]
    return "other"


def signature(case, obs, msgs):
    return {"finding": classify(case, obs), "det": case.get("det"), "mode": case.get("mode")}


# ------------------------------------------------------------------------------------------------
# C
def inv_term(inv):
    user, d, o = inv
    seen = "(Some None)" if o[0] == "raise" else f"(Some (Some ({G.z(o[1][0])}, {G.z(o[1][1])})))" if len(o[1]) == 2 else "None"
    return f"({G.boolc(user)}, {desc_term(d)}, {seen})"


def call_term(name, r):
    if r["invs"] is None:      # the validator could not be wrapped under its private name: history not model-checked
        return None
    else:
        if any(d is None for _, d, _ in r["invs"]):
            return None
        invs = [inv_term(i) for i in r["invs"]]
    passed = r["acc"] or not refused_by_validation(r)   # other exceptions come from the body, after validation
    known = r["attrs"] is not None
    cols = "None" if not known or r["attrs"][0] is None else f"(Some {G.zlist(r['attrs'][0])})"
    dim = "None" if not known else G.optz(r["attrs"][1])
    return (f"(mkCall {G.boolc(r.get('op') == 'set_reference')} {opt_desc_term(r['x'])} {opt_desc_term(r['yt'])} "
            f"{opt_desc_term(r['yp'])} {G.lst(invs)} "
            f"{G.boolc(passed)} {cols} {dim} {G.boolc(known)})")


def hist_term(name, recs):
    ts = [call_term(name, r) for r in recs]
    if any(t is None for t in ts):
        return None
    return f"{DETS[name]['kind']} {G.lst(ts)}"


def coq_term(case, obs):
    if "__exception__" in obs:
        return "false"
    if case["mode"] == "ypure":
        batch = G.boolc(DETS[case["det"]]["fam"] == "bx")
        ts = [f"chk_y {batch} {desc_term(r[0])} {G.boolc(r[1])}" for r in obs["ys"] if r is not None]
        return "(" + " && ".join(ts or ["true"]) + ")"
    name = case["det"]
    a = hist_term(name, obs["main"])
    if a is None:
        return None
    t = f"chk_history {a}"
    if case["mode"] == "mix":
        b = hist_term(name, obs["alt"])
        if b is not None:
            t = f"({t} && chk_history {b})"
    return t


def show_term(case, obs):
    if case["mode"] == "ypure" or "__exception__" in obs:
        return "tt"
    return f"show_history {hist_term(case['det'], obs['main']).replace(' [', ' v_init [', 1)}"


def nontrivial(case, obs):
    if "__exception__" in obs:
        return False
    if case["mode"] == "ypure":
        return True
    if case["mode"] == "inject":
        return not obs["main"][case["inj"]["pos"]]["acc"]
    return case["alt"] != case["calls"] and all(r["acc"] for r in obs["main"])


# ------------------------------------------------------------------------------------------------
# generators
def rnd(x):
    return round(float(x), 3)


def base_history(name, d, rng):
    """values of a valid history that reaches drift: list of rows (streaming X), of label pairs, or of batches"""
    info = DETS[name]
    L = info["L"]
    if info["fam"] == "sx":
        shift = L // 2 if not name.startswith("PCACD") else 18
        return [[rnd(rng.gauss(0 if i < shift else 9, 1)) for _ in range(d)] for i in range(L)]
    if info["fam"] == "sy":
        out = []
        for i in range(L):
            yt = rng.randint(0, 1)
            wrong = rng.random() < (0.15 if i < L // 2 else 0.9)
            out.append((yt, 1 - yt if wrong else yt))
        return out
    n = rng.choice([6, 8])
    return [[[rnd(rng.gauss(0 if b < 3 else 6, 1)) for _ in range(d)] for _ in range(n if b else n + 2)]
            for b in range(L + 1)]


SX1 = ["scalar", "npscalar", "list1", "list2", "arr1", "arr2", "series", "df", "tuple1"]
SXD = ["list1", "list2", "arr1", "arr2", "series", "df", "tuple1"]
BX1 = ["list2", "arr2", "df", "list1", "arr1", "series"]
BXD = ["list2", "arr2", "df"]
YC = ["int", "bool", "npint", "list1", "arr1", "arr2", "series", "df"]


def sx(row, c, names):
    """one streaming observation in container c"""
    row = list(row)
    if c == "scalar":
        return {"c": "py", "v": row[0]}
    if c == "npscalar":
        return {"c": "npscalar", "v": row[0]}
    if c == "list1":
        return {"c": "py", "v": row}
    if c == "tuple1":
        return {"c": "tuple", "v": row}
    if c == "list2":
        return {"c": "py", "v": [row]}
    if c == "arr1":
        return {"c": "np", "v": row}
    if c == "arr2":
        return {"c": "np", "v": [row]}
    if c == "series":
        return {"c": "series", "v": row, "n": names}
    return {"c": "df", "v": [row], "n": names}


def bx(rows, c, names):
    """one batch in container c (1-D containers only for one column)"""
    rows = [list(r) for r in rows]
    if c == "list2":
        return {"c": "py", "v": rows}
    if c == "arr2":
        return {"c": "np", "v": rows}
    if c == "df":
        return {"c": "df", "v": rows, "n": names}
    flat = [r[0] for r in rows]
    if c == "list1":
        return {"c": "py", "v": flat}
    if c == "arr1":
        return {"c": "np", "v": flat}
    return {"c": "series", "v": flat}


def yv(v, c):
    if c == "int":
        return {"c": "py", "v": int(v)}
    if c == "bool":
        return {"c": "py", "v": bool(v)}
    if c == "npint":
        return {"c": "npscalar", "v": int(v), "dt": "i"}
    if c == "list1":
        return {"c": "py", "v": [int(v)]}
    if c == "arr1":
        return {"c": "np", "v": [int(v)], "dt": "i"}
    if c == "arr2":
        return {"c": "np", "v": [[int(v)]], "dt": "i"}
    if c == "series":
        return {"c": "series", "v": [int(v)], "dt": "i"}
    return {"c": "df", "v": [[int(v)]], "n": ["y"], "dt": "i"}


def containers(name, d):
    if DETS[name]["fam"] == "sx":
        return SX1 if d == 1 else SXD
    return BX1 if d == 1 else BXD


def plans(name, d, L, rng, thorough):
    """container plans: list of (tag, [container per call], names)"""
    cs = containers(name, d)
    nodf = [c for c in cs if c != "df"]
    named = POOL[:d]
    out = []
    homog = cs if thorough else rng.sample(cs, min(3, len(cs)))
    for c in homog:
        out.append((f"all-{c}", [c] * L, named))
    out.append(("mixed-nodf", [rng.choice(nodf) for _ in range(L)], named))
    out.append(("df-first", ["df"] + [rng.choice(cs) for _ in range(L - 1)], named))
    k = rng.randint(1, max(1, L // 2))
    out.append(("arr-then-df", [rng.choice(nodf) for _ in range(k)] + ["df"] + [rng.choice(cs) for _ in range(L - k - 1)], named))
    out.append(("arr-then-df-default", [rng.choice(nodf) for _ in range(k)] + ["df"] + [rng.choice(cs) for _ in range(L - k - 1)], None))
    return out


def make_calls(name, hist, plan, names):
    fam = DETS[name]["fam"]
    if fam == "sx":
        return [{"op": "update", "x": sx(r, c, names)} for r, c in zip(hist, plan)]
    if fam == "bx":
        return [{"op": "set_reference" if i == 0 else "update", "x": bx(b, c, names)}
                for i, (b, c) in enumerate(zip(hist, plan))]
    return [{"op": "update", "yt": yv(a, c[0]), "yp": yv(b, c[1])} for (a, b), c in zip(hist, plan)]


def malformed(name, d, names, kind, rng, nrows):
    """a malformed input of the given kind, in a random container"""
    batch = is_batch(name)
    g = lambda: rnd(rng.gauss(3, 2))
    nm = names if names is not None else list(range(d))

    def other_names(w):
        if w <= len(nm):
            base = list(nm[:w])
        else:
            extra = [p for p in POOL if p not in nm and p != "z"]
            base = list(nm) + extra[:w - len(nm)]
        # half of the malformed DataFrames carry a label the history never uses: if a refused call leaked
        # its names, a later valid DataFrame of the history would be refused
        if base and rng.random() < 0.5:
            base[0] = "z"
        return base
    if kind == "rows":
        if not batch:
            r = rng.choice([2, 2, 3, 0])
            c = rng.choice(["arr2", "list2", "df"])
            if r == 0:
                return {"c": "empty", "shape": [0, d]} if c != "df" else {"c": "dfempty", "n": other_names(d)}
            return bx([[g() for _ in range(d)] for _ in range(r)], c, other_names(d))
        opts = ["arr2", "list2", "df", "empty", "dfempty"] + (["scalar", "list1", "arr1", "series"] if d == 1 else [])
        c = rng.choice(opts)
        if c == "empty":
            return {"c": "empty", "shape": [0, d]}
        if c == "dfempty":
            return {"c": "dfempty", "n": other_names(d)}
        if c == "scalar":
            return {"c": "py", "v": g()}
        return bx([[g() for _ in range(d)]], c, other_names(d))
    if kind in ("width", "multicol"):
        ws = [d + 1, d + 2] + ([d - 1] if d > 1 else []) + ([0] if kind == "width" and not batch else [])
        if kind == "multicol":
            ws = [2, 3]
        w = rng.choice(ws)
        if not batch:
            cs = ["list1", "arr1", "arr2", "list2", "series", "df"] + (["scalar"] if w == 1 else [])
            c = rng.choice(cs)
            if w == 0:
                return rng.choice([{"c": "py", "v": []}, {"c": "empty", "shape": [1, 0]}, {"c": "np", "v": []}])
            return sx([g() for _ in range(w)], c, other_names(w))
        cs = ["arr2", "list2", "df"] + (["list1", "arr1", "series"] if w == 1 else [])
        return bx([[g() for _ in range(w)] for _ in range(nrows)], rng.choice(cs), other_names(w))
    if kind == "renamed":
        alt = list(nm)
        how = rng.choice(["swap", "replace", "default"] if d > 1 else ["replace", "default"])
        if how == "swap":
            alt[0], alt[1] = alt[1], alt[0]
        elif how == "replace":
            alt[rng.randrange(d)] = "z"
        else:
            alt = list(range(d)) if names is not None else POOL[:d]
        if alt == list(nm):
            alt[0] = "z"
        rows = [[g() for _ in range(d)] for _ in range(nrows if batch else 1)]
        return {"c": "df", "v": rows, "n": alt}
    raise ValueError(kind)


def malformed_y(rng):
    return rng.choice([
        {"c": "py", "v": [0, 1]}, {"c": "np", "v": [0, 1], "dt": "i"}, {"c": "np", "v": [[0], [1]], "dt": "i"},
        {"c": "np", "v": [[0, 1]], "dt": "i"}, {"c": "series", "v": [1, 1], "dt": "i"},
        {"c": "df", "v": [[0], [1]], "n": ["y"], "dt": "i"}, {"c": "df", "v": [[0, 1]], "n": ["y", "z"], "dt": "i"},
        {"c": "py", "v": []}, {"c": "empty", "shape": [0]}, {"c": "py", "v": [1, 0, 1]}])


def repaired_witnesses():
    """the inputs on which HistogramDensityMethod failed before its three repairs (now they must pass)"""
    A = [[float((2 * i + j) % 5) for j in range(2)] for i in range(8)]
    A1 = [[float((3 * i) % 5)] for i in range(8)]
    plus = lambda M, k: [[v + k for v in r] for r in M]
    out = []
    for det, M, nm in (("HDDDM1", A, ["a", "b"]), ("HDDDM2", A, ["a", "b"]), ("HDDDM3", A, ["a", "b"]),
                       ("CDBD1", A1, ["a"]), ("CDBD2", A1, ["a"]), ("CDBD3", A1, ["a"])):
        arr = lambda k, op="update": {"op": op, "x": {"c": "np", "v": plus(M, k)}}
        df = lambda k: {"op": "update", "x": {"c": "df", "v": plus(M, k), "n": nm}}
        base = [arr(0, "set_reference"), arr(1), arr(2), arr(3)]
        # array reference, then a DataFrame with real column names, then arrays again
        out.append({"mode": "mix", "det": det, "d": len(nm), "seed": 11, "calls": base,
                    "alt": [arr(0, "set_reference"), df(1), arr(2), arr(3)], "plan": "witness-names"})
        out.append({"mode": "mix", "det": det, "d": len(nm), "seed": 11, "calls": base,
                    "alt": [arr(0, "set_reference"), df(1), df(2), arr(3)], "plan": "witness-names"})
        if DETS[det].get("hdm1"):
            # a two-row reference: refused, and invisible afterwards, first and in the middle
            two = {"op": "set_reference", "x": {"c": "np", "v": [r[:] for r in M[:2]]}}
            for pos in (0, 2, 4):
                out.append({"mode": "inject", "det": det, "d": len(nm), "seed": 11, "calls": base,
                            "inj": {"pos": pos, "kind": "ref2", "call": two}, "plan": "witness-rows"})
    return out


def open_witnesses():
    """one explicit case per OPEN recorded finding, reproduced on every run"""
    out = []
    # S12-batch: array 6x1, then a 2x3 DataFrame (the call test_batch_validation_X_dimensions makes)
    col = [[float(i)] for i in range(6)]
    nxt = [[float(i) + 0.5] for i in range(6)]
    out.append({"mode": "inject", "det": "KdqTreeBatch", "d": 1, "seed": 5, "plan": "witness-S12",
                "calls": [{"op": "set_reference", "x": {"c": "np", "v": col}}, {"op": "update", "x": {"c": "np", "v": nxt}}],
                "inj": {"pos": 1, "kind": "width",
                        "call": {"op": "update", "x": {"c": "df", "v": [[1.0, 2.0, 3.0], [4.0, 5.0, 6.0]], "n": ["a", "b", "c"]}}}})
    # HDM-proxy-rows: detect_batch=1, drift detected on a two-row batch, the next valid update is refused
    for det, w in (("HDDDM1", 2), ("CDBD1", 1)):
        ref = [[float((2 * i + j) % 5) for j in range(w)] for i in range(8)]
        bs = [[[0.0, 1.0][:w], [2.0, 3.0][:w]], [[1.0, 2.0][:w], [3.0, 4.0][:w]], [[40.0, 50.0][:w], [60.0, 45.0][:w]],
              [[41.0, 52.0][:w], [63.0, 44.0][:w]], [[1.0, 2.0][:w], [2.0, 1.0][:w]]]
        mk = lambda c: [{"op": "set_reference", "x": {"c": c, "v": ref}}] + [{"op": "update", "x": {"c": c, "v": b}} for b in bs]
        out.append({"mode": "mix", "det": det, "d": w, "seed": 5, "plan": "witness-proxy-rows",
                    "calls": mk("np"), "alt": mk("py")})
    return out


def witnesses(ctx):
    """hook of harness/core.py: (signature, message, case) for every open-finding witness that still fails"""
    for case in open_witnesses():
        obs = run_impl(case)
        msgs = direct_check(case, obs)
        if msgs:
            yield signature(case, obs, msgs), msgs[0], case


def gen_cases(ctx):
    rng = ctx.rng
    cases = []
    st = ctx.stats
    for key in ("by_detector", "by_kind", "by_position", "by_plan", "inj_container", "pattern"):
        st[key] = {}

    def bump(key, k):
        st[key][k] = st[key].get(k, 0) + 1
    for name, info in DETS.items():
        fam = info["fam"]
        heavy = name in ("PCACD", "PCACDraw", "KdqTreeBatch", "KdqTreeStreaming")
        n_hist = ctx.scale(1, 2 if heavy else 3)
        dims = [1] if is_uni(name) or fam == "sy" else \
            ctx.scale([1, 2] if name in ("HDDDM2", "NNDVI") else [2],
                      [2, 3] if name.startswith("PCACD") else [1, 2] if heavy else [1, 2, 3])
        for d in dims:
            for hno in range(n_hist):
                seed = rng.randrange(1, 10 ** 6)
                hist = base_history(name, d, rng)
                L = len(hist)
                if fam == "sy":
                    pls = [("y-" + str(i), [(rng.choice(YC), rng.choice(YC)) for _ in range(L)], None) for i in range(2)]
                    pls.append(("y-int", [("int", "int")] * L, None))
                else:
                    pls = plans(name, d, L, rng, ctx.thorough and not heavy)
                # ---- container pairs on the same values
                ref_calls = make_calls(name, hist, pls[0][1], pls[0][2])
                for tag, plan, names in pls[1:]:
                    alt = make_calls(name, hist, plan, names)
                    cases.append({"mode": "mix", "det": name, "d": d, "seed": seed, "calls": ref_calls,
                                  "alt": alt, "plan": tag})
                    bump("by_plan", tag)
                # ---- one malformed call at every position
                inj_plans = pls if (ctx.thorough or not heavy) else [p for p in pls if p[0] in ("mixed-nodf", "arr-then-df", "df-first")]
                if not ctx.thorough and len(inj_plans) > 4:
                    inj_plans = [p for p in inj_plans if not p[0].startswith("all-")][:4] + [p for p in inj_plans if p[0].startswith("all-")][:1]
                for tag, plan, names in inj_plans:
                    calls = make_calls(name, hist, plan, names)
                    positions = list(range(L + 1))
                    if name.startswith("PCACD") and not ctx.thorough:
                        positions = sorted(set([0, 1, 7, 8, 9, 16, 17, 20, 21, 22, 23, L]))
                    kinds = ["ymulti"] if fam == "sy" else ["rows", "width", "renamed"] + (["multicol"] if is_uni(name) else []) \
                        + (["ref2"] if info.get("hdm1") else [])
                    for pos in positions:
                        for kind in kinds:
                            reps = 2 if (ctx.thorough and not heavy) else 1
                            if fam == "sy":
                                reps = ctx.scale(3, 6)
                            for _ in range(reps):
                                if fam == "sy":
                                    good = yv(rng.randint(0, 1), rng.choice(YC))
                                    bad = malformed_y(rng)
                                    call = {"op": "update", "yt": bad, "yp": good} if rng.random() < 0.5 else \
                                           {"op": "update", "yt": good, "yp": bad}
                                    if rng.random() < 0.15:
                                        call = {"op": "update", "yt": malformed_y(rng), "yp": malformed_y(rng)}
                                else:
                                    nrows = len(hist[0]) if fam == "bx" else 1
                                    if kind == "ref2":
                                        # detect_batch=1: a reference of two rows cannot be split
                                        x = bx([[rnd(rng.gauss(3, 2)) for _ in range(d)] for _ in range(2)],
                                               rng.choice(containers(name, d)), names)
                                        op = "set_reference"
                                    else:
                                        x = malformed(name, d, names, kind, rng, nrows)
                                        op = "update"
                                        if fam == "bx":
                                            op = "set_reference" if (pos == 0 or rng.random() < 0.2) else "update"
                                    call = {"op": op, "x": x}
                                case = {"mode": "inject", "det": name, "d": d, "seed": seed, "calls": calls,
                                        "inj": {"pos": pos, "kind": kind, "call": call}, "plan": tag}
                                sp = spec_run(name, full_calls(case))
                                if sp[pos][0]:
                                    continue        # not malformed here (e.g. a first call establishes any width)
                                cases.append(case)
                                bump("by_kind", kind); bump("by_plan", tag)
                                bump("by_position", "first" if pos == 0 else "last" if pos == L else "middle")
                                bump("inj_container", (call.get("x") or call.get("yt"))["c"])
        # tiny batches: exactly two / three rows are valid for a batch detector
        if fam == "bx":
            d = 1 if is_uni(name) else 2
            for n0, n1 in ((2, 2), (3, 3), (6, 2)):
                if info.get("hdm1") and n0 < 3:
                    continue            # refused by the detect_batch=1 guard: covered by the "ref2" injections
                hist = [[[rnd(rng.gauss(0 if b < 2 else 7, 1)) for _ in range(d)] for _ in range(n0 if b == 0 else n1)]
                        for b in range(5)]
                a = make_calls(name, hist, ["arr2"] * 5, None)
                b = make_calls(name, hist, ["list2"] * 5, None)
                cases.append({"mode": "mix", "det": name, "d": d, "seed": 7, "calls": a, "alt": b,
                              "plan": f"tiny-{n0}-{n1}"})
    cases = repaired_witnesses() + cases
    # direct calls of _validate_y (batch variant: model only, used by no detector)
    ys = [{"c": "py", "v": 1}, {"c": "py", "v": [1]}, {"c": "py", "v": [1, 0]}, {"c": "np", "v": [[1], [0]], "dt": "i"},
          {"c": "np", "v": [[1, 0]], "dt": "i"}, {"c": "np", "v": [[1]], "dt": "i"}, {"c": "empty", "shape": [0, 1]},
          {"c": "empty", "shape": [0]}, {"c": "series", "v": [1, 0, 1], "dt": "i"}, {"c": "df", "v": [[1], [0]], "n": ["y"], "dt": "i"},
          {"c": "df", "v": [[1, 0]], "n": ["y", "z"], "dt": "i"}, {"c": "df", "v": [[1]], "n": ["y"], "dt": "i"},
          {"c": "np", "v": [[1, 1], [0, 0]], "dt": "i"}, {"c": "empty", "shape": [3, 0]}]
    for name in ("DDM", "ADWIN", "KdqTreeBatch", "HDDDM2", "NNDVI"):
        cases.append({"mode": "ypure", "det": name, "ys": ys})
    # cases able to show a recorded finding go last (core shrinks and reports the first few direct failures
    # only), interleaved by family so that the first reported ones are of different families
    pats = [pattern(c) for c in cases]
    # a case that could show two recorded findings at once would match neither entry: not generated
    cases = [c for c, p in zip(cases, pats) if "+" not in p]
    pats = [p for p in pats if "+" not in p]
    for p in pats:
        bump("pattern", p or "none")
    for c in cases:
        bump("by_detector", c["det"])
    head = [c for c, p in zip(cases, pats) if not p]
    fams = {}
    for c, p in zip(cases, pats):
        if p:
            fams.setdefault("s12" if "s12" in p else p, []).append(c)
    tail, k = [], 0
    keys = sorted(fams, key=lambda f: {"s12": 0, "fb": 1}.get(f, 2))
    while any(fams.values()):
        for f in keys:
            if fams[f]:
                tail.append(fams[f].pop(0))
    return head + tail


def shrink_candidates(case):
    if case["mode"] == "ypure":
        return
    pat = pattern(case)
    calls = case["calls"]
    lo = 1 if is_batch(case["det"]) else 0       # keep the set_reference of a batch history
    cands = []
    if case["mode"] == "inject":
        pos = case["inj"]["pos"]
        if len(calls) > pos:
            cands.append(dict(case, calls=calls[:pos]))
            cands.append(dict(case, calls=calls[:pos + 1]))
        for i in range(len(calls) - 1, lo - 1, -1):
            new = calls[:i] + calls[i + 1:]
            cands.append(dict(case, calls=new, inj=dict(case["inj"], pos=pos - 1 if i < pos else pos)))
    else:
        for i in range(len(calls) - 1, max(lo, 1) - 1, -1):
            cands.append(dict(case, calls=calls[:i], alt=case["alt"][:i]))
        for i in range(len(calls) - 1, lo - 1, -1):
            cands.append(dict(case, calls=calls[:i] + calls[i + 1:], alt=case["alt"][:i] + case["alt"][i + 1:]))
    for c in cands:
        try:
            if pattern(c) == pat:
                yield c
        except Exception:
            continue


# ------------------------------------------------------------------ the translated validators (second tie)
def obligations(ctx):
    """detector.py's _validate_X / _validate_y (both base classes) re-translated to Gallina and re-proved equal to Validate.v."""
    from .pytrans import obligations_validate
    yield from obligations_validate(ctx)
