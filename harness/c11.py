"""C11 — PCA-CD scores each component on aligned supports and alarms via Page-Hinkley."""
import contextlib, math
from fractions import Fraction
import numpy as np
import pandas as pd
import sklearn.decomposition, sklearn.preprocessing, sklearn.neighbors
import scipy.spatial.distance
import menelaus.data_drift.pca_cd as pca_cd_mod
from menelaus.data_drift.pca_cd import PCACD
from . import coqgen as G
from .common import rebound, feq, lifecycle_obs, MISSING

ID = "C11"
PROPS = ["Prop_C11"]
IMPORTS = ("From MV Require Import Base Num NumFloat Lifecycle Pairwise ChangeDet Pcacd Corr_C11.\n"
           "From Coq Require Import PrimFloat.")
CORR_NAME = ("Corr_C11: Pcacd.v (phase machine, windows as stream indices, schedule, per-component supports, winsorising, "
             "np.histogram/normalisation/intersection bit-for-bit, embedded Page-Hinkley of ChangeDet.v; step and ph_threshold by exact "
             "round-half-even of the double product) = pca_cd.py, after every update")
TRUSTED = ["Coq 8.16.1 kernel + vm_compute + primitive floats",
           "hand-written model coq/Pcacd.v (reusing coq/ChangeDet.v / coq/Lifecycle.v / coq/Pairwise.v) tied to pca_cd.py by differential execution "
           "after every update (bounded by the generators)",
           "sklearn StandardScaler / PCA (number of components, projected scores) are oracles logged by harness-level subclasses; for the 'kl' metric "
           "KernelDensity + scipy jensenshannon (per-component scores) are oracles too; their numerical content is NOT verified, only the "
           "sequence, kind and size of the calls and how their results are used",
           "window contents are identified with stream indices by value (raw rows, 1e-9 relative after undoing the scaler)",
           "harness/c11.py (generators, independent float re-implementation used as direct oracle), harness/coqgen.py"]
RULE = ("2-5 features, level / variance / correlation shifts sized to raise alarms, window_size in {20,50,100,80,160} (+30, 150, 250 thorough) and small windows "
        "{5,8,10,15,20} whose round(sample_period * window_size) is 0 (scoring period clamped to 1), sample_period in {0.05,0.1,0.025,0.2,0.0125,0.7,0.01}, "
        "both metrics, both scaling modes, ev_threshold in {0.99,0.9,0.7,0.5}, delta in {0.1,0.01,0.005,0.0}; "
        "streams periodic with period window_size (test window = reference window as a multiset: intersection score must be >= 0, 0 up to the stated rounding bound, "
        "and no alarm when delta >= 0.005), dyadic-grid data, out-of-support excursions (winsorising), streams shorter than 2*window_size; the two former "
        "witnesses (window_size=10: ZeroDivisionError; equal windows scoring -2^-52 and alarming) are the first two cases. "
        "Non-trivial: at least one drift followed by a completed second build; distinct by content."
        " Also: a 300-sample window; rows handed over as one-row DataFrames with named columns in a third of the cases, a permuted-column row must be refused (probed after the run).")
SHARD = 6

C_FIT_SCALE, C_SCALE, C_INV, C_PCA_FIT, C_PCA_TR, C_KDE, C_JS = 1, 2, 3, 4, 5, 6, 7


# ------------------------------------------------------------------ logging wrappers (harness level only)
class _Log:
    def __init__(self):
        self.calls = []      # (code, nrows, payload)
        self.depth = 0


def _mk_wrappers(log):
    class LogScaler(sklearn.preprocessing.StandardScaler):
        def fit_transform(self, X, y=None, **kw):
            log.depth += 1
            try:
                r = super().fit_transform(X, y, **kw)
            finally:
                log.depth -= 1
            if log.depth == 0:
                log.calls.append((C_FIT_SCALE, len(X), None))
            return r

        def transform(self, X, copy=None):
            log.depth += 1
            try:
                r = super().transform(X, copy=copy)
            finally:
                log.depth -= 1
            if log.depth == 0:
                log.calls.append((C_SCALE, len(X), None))
            return r

        def inverse_transform(self, X, copy=None):
            log.depth += 1
            try:
                r = super().inverse_transform(X, copy=copy)
            finally:
                log.depth -= 1
            if log.depth == 0:
                log.calls.append((C_INV, len(X), None))
            return r

    class LogPCA(sklearn.decomposition.PCA):
        def fit(self, X, y=None):
            log.depth += 1
            try:
                r = super().fit(X, y)
            finally:
                log.depth -= 1
            if log.depth == 0:
                log.calls.append((C_PCA_FIT, len(X), int(len(self.components_))))
            return r

        def transform(self, X):
            log.depth += 1
            try:
                r = super().transform(X)
            finally:
                log.depth -= 1
            if log.depth == 0:
                log.calls.append((C_PCA_TR, len(X), np.asarray(r, dtype=float).tolist()))
            return r

    class LogKDE(sklearn.neighbors.KernelDensity):
        def fit(self, X, y=None, sample_weight=None):
            log.depth += 1
            try:
                r = super().fit(X, y, sample_weight)
            finally:
                log.depth -= 1
            if log.depth == 0:
                log.calls.append((C_KDE, len(X), None))
            return r

    orig_js = scipy.spatial.distance.jensenshannon

    def log_js(p, q, *a, **kw):
        r = orig_js(p, q, *a, **kw)
        log.calls.append((C_JS, len(p), float(r)))
        return r

    return LogScaler, LogPCA, LogKDE, log_js


@contextlib.contextmanager
def logged(log):
    """replace the library classes / functions pca_cd.py uses by logging subclasses for the duration of one run: at
    their source modules and under whatever names the library bound them (common.rebound)"""
    sc, pca, kde, js = _mk_wrappers(log)
    with contextlib.ExitStack() as st:
        st.enter_context(rebound(sklearn.preprocessing, "StandardScaler", sc))
        st.enter_context(rebound(sklearn.decomposition, "PCA", pca))
        st.enter_context(rebound(sklearn.neighbors, "KernelDensity", kde))
        st.enter_context(rebound(scipy.spatial.distance, "jensenshannon", js))
        yield


# ------------------------------------------------------------------ implementation side
def make(case):
    p = case["params"]
    return PCACD(window_size=p["window_size"], ev_threshold=p["ev_threshold"], delta=p["delta"],
                 divergence_metric=p["divergence_metric"], sample_period=p["sample_period"], online_scaling=p["online_scaling"])


def f1(v):
    return float(np.asarray(v).reshape(-1)[0])


def _frame_rows(df):
    if df is None or df is MISSING:
        return None
    try:
        if len(df) == 0:
            return np.zeros((0, 0))
        return np.asarray(df, dtype=float).reshape(len(df), -1)
    except Exception:
        return None


def _starts(raw, content, tol=1e-9):
    """all a with raw[a:a+len] == content (up to tol, relative to the data scale)"""
    L = len(content)
    n = len(raw)
    if L == 0:
        return []
    if L > n:
        return []
    scale = tol * (1.0 + float(np.max(np.abs(raw))))
    cand = np.nonzero(np.all(np.abs(raw[: n - L + 1] - content[0]) <= scale, axis=1))[0]
    return [int(a) for a in cand if np.all(np.abs(raw[a:a + L] - content) <= scale)]


def mon_obs(m):
    """public observables of the embedded Page-Hinkley monitor"""
    if m is None or m is MISSING:
        return None
    out = {"ds": m.drift_state, "total": int(m.total_samples), "since": int(m.samples_since_reset)}
    try:
        df = m.to_dataframe()
        out["nrows"] = len(df)
        if len(df):
            last = df.iloc[-1]
            out["row"] = {"x": f1(last["change_scores"]), "sum": f1(last["page_hinkley_values"]),
                          "diff": f1(last["page_hinkley_differences"]), "theta": f1(last["theta_threshold"]),
                          "check": bool(np.asarray(last["drift_detected"]).reshape(-1)[0]),
                          "max": f1(last["maximum_sum_values"]), "min": f1(last["minimum_sum_values"]),
                          "mean": f1(last["mean_values"])}
    except Exception:
        pass
    return out


def dens_obs(d, npcs):
    """edges / densities of a {"PCi": {"bin_edges", "density"}} dict, or None"""
    if not isinstance(d, dict) or npcs is None:
        return None
    out = []
    for i in range(npcs):
        e = d.get(f"PC{i + 1}")
        if not isinstance(e, dict) or "bin_edges" not in e:
            return None
        out.append({"edges": [float(x) for x in e["bin_edges"]], "density": [float(x) for x in e["density"]]})
    return out


def run_impl(case):
    raw = np.array(case["data"], dtype=float)
    log = _Log()
    rows = []
    with logged(log):
        d = make(case)
        inter = case["params"]["divergence_metric"] == "intersection"
        mon0 = getattr(d, "_drift_detection_monitor", None)      # private, optional
        try:
            mon_params = None if mon0 is None else [float(mon0.delta), mon0.threshold, mon0.burn_in, mon0.direction]
        except AttributeError:
            mon_params = None
        obs = {"step": d.step, "ph_threshold": d.ph_threshold, "bins": d.bins, "mon_params": mon_params}
        scaled = False     # are the private windows currently in the scaler's coordinates?
        cols = [f"f{j}" for j in range(raw.shape[1])] if case.get("container") == "df" else None
        for i in range(len(raw)):
            k0 = len(log.calls)
            was_building = getattr(d, "_build_reference_and_test", None)
            try:
                d.update(pd.DataFrame(raw[i:i + 1].copy(), columns=cols) if cols else raw[i:i + 1].copy())
            except ZeroDivisionError as e:
                rows.append({"error": "ZeroDivisionError"})
                break
            st, tot, sin = lifecycle_obs(d)
            calls = log.calls[k0:]
            row = {"ds": st, "total": tot, "since": sin,
                   "num_pcs": None if d.num_pcs is None else int(d.num_pcs),
                   "building": getattr(d, "_build_reference_and_test", None),
                   "calls": [[c, n] for c, n, _ in calls]}
            cs = getattr(d, "_change_score", None)
            row["nscores"] = None if cs is None else len(cs)
            row["score"] = None if not cs else float(cs[-1])
            row["mon"] = mon_obs(getattr(d, "_drift_detection_monitor", None))
            # oracle outputs of this update
            tr = [p for c, n, p in calls if c == C_PCA_TR]
            fit = [p for c, n, p in calls if c == C_PCA_FIT]
            js = [p for c, n, p in calls if c == C_JS]
            built = bool(fit)
            if built:
                row["o_npcs"] = fit[0]
                row["o_rproj"], row["o_tproj"] = (tr + [None, None])[:2]
            elif tr:
                row["o_next"] = tr[0][0]
            if js:
                row["o_scores"] = js
            # windows (private, optional): contents identified with stream indices
            if case["params"]["online_scaling"]:
                if built:
                    scaled = True
                elif any(c == C_INV for c, _, _ in calls):
                    scaled = False      # reference inverse-transformed, test emptied
            for nm, attr in (("ref", "_reference_window"), ("test", "_test_window")):
                w = _frame_rows(getattr(d, attr, MISSING))
                if w is None:
                    row[nm + "_len"] = None
                    continue
                row[nm + "_len"] = len(w)
                if len(w) and scaled:
                    sc = getattr(d, "_reference_scaler", None)
                    if sc is None:          # contents cannot be mapped back to stream rows: length only
                        row[nm + "_starts"] = None
                        continue
                    w = w * sc.scale_ + sc.mean_
                row[nm + "_starts"] = _starts(raw, w) if len(w) and w.shape[1] == raw.shape[1] else []
            # supports and histograms (public lower/upper; densities private)
            if inter and d.num_pcs is not None:
                if built:
                    try:
                        row["lower"] = [float(d.lower[j]) for j in range(d.num_pcs)]
                        row["upper"] = [float(d.upper[j]) for j in range(d.num_pcs)]
                    except Exception:
                        pass
                    row["dref"] = dens_obs(getattr(d, "_density_reference", None), d.num_pcs)
                if row["nscores"] is not None and rows and rows[-1].get("nscores") is not None and row["nscores"] > rows[-1]["nscores"]:
                    row["dtest"] = dens_obs(getattr(d, "_density_test", None), d.num_pcs)
                tp = _frame_rows(getattr(d, "_test_pca_projection", MISSING))
                if tp is not None and len(tp) and not built:
                    row["tproj_last"] = [float(x) for x in tp[-1]]
            rows.append(row)
        # one more row whose columns are the stream's in another order: it must not be taken positionally (the detector
        # refuses it); probed after the run so that the history above is unaffected
        if cols and len(cols) >= 2 and rows and "error" not in rows[-1]:
            probe = pd.DataFrame(raw[-1:].copy(), columns=cols)[cols[1:] + cols[:1]]
            try:
                d.update(probe)
                obs["perm_probe"] = {"raised": False}
            except ValueError:
                obs["perm_probe"] = {"raised": True}
    obs["rows"] = rows
    return obs


# ------------------------------------------------------------------ independent specification (plain IEEE doubles)
def py_round_exact(x):
    """round-half-even of the exact rational value of the double x (what Python's round(x) returns)"""
    fr = Fraction(x)
    q, r = divmod(fr.numerator, fr.denominator)        # floor division, 0 <= r/den < 1
    twice = 2 * r
    if twice > fr.denominator or (twice == fr.denominator and q % 2 == 1):
        q += 1
    return q


def isqrt_floor(w):
    return math.isqrt(w)


def np_pairwise_sum(xs):
    """numpy's pairwise summation of a contiguous double vector (loops_utils.h.src)"""
    n = len(xs)
    if n < 8:
        r = 0.0
        for v in xs:
            r = r + v
        return r
    if n <= 128:
        r = list(xs[:8])
        i = 8
        while i + 8 <= n:
            for k in range(8):
                r[k] = r[k] + xs[i + k]
            i += 8
        res = ((r[0] + r[1]) + (r[2] + r[3])) + ((r[4] + r[5]) + (r[6] + r[7]))
        for v in xs[i:]:
            res = res + v
        return res
    h = n // 2
    h -= h % 8
    return np_pairwise_sum(xs[:h]) + np_pairwise_sum(xs[h:])


def spec_edges(lo, hi, k):
    if lo == hi:
        lo, hi = lo - 0.5, hi + 0.5
    delta = hi - lo
    step = delta / float(k)
    if step == 0:
        es = [(float(j) / float(k)) * delta + lo for j in range(k)]
    else:
        es = [float(j) * step + lo for j in range(k)]
    return es + [hi]


def spec_hist(xs, k, lo, hi):
    """np.histogram(xs, bins=k, range=(lo, hi), density=True) then division by the sum: (edges, density)"""
    es = spec_edges(lo, hi, k)
    counts = []
    for j in range(k):
        a, b = es[j], es[j + 1]
        if j == k - 1:
            counts.append(sum(1 for x in xs if a <= x <= b))
        else:
            counts.append(sum(1 for x in xs if a <= x < b))
    tot = float(sum(counts))
    with np.errstate(all="ignore"):
        dens = [float(np.float64(c) / np.float64(es[j + 1] - es[j]) / np.float64(tot)) for j, c in enumerate(counts)]
        s = np_pairwise_sum(dens)
        return es, [float(np.float64(v) / np.float64(s)) for v in dens]


def spec_inter(dr, dt):
    m = [a if a < b else b for a, b in zip(dr, dt)]
    x = 1.0 - np_pairwise_sum(m)
    return x if x > 0.0 else 0.0        # max(0.0, x)


def pymax_list(xs):
    m = xs[0]
    for v in xs[1:]:
        if v > m:
            m = v
    return m


class SpecPH:
    """page_hinkley.py with burn_in = 0, direction positive, in plain doubles"""
    def __init__(self, delta, thr):
        self.delta, self.thr = float(delta), float(thr)
        self.total = 0
        self.reset()

    def reset(self):
        self.since, self.ds = 0, None
        self.mx = self.mn = self.sm = self.mean = 0.0
        self.nrows, self.row = 0, None

    def update(self, x):
        if self.ds == "drift":
            self.reset()
        self.total += 1
        self.since += 1
        with np.errstate(all="ignore"):
            self.mean = float(np.float64(self.mean) + (np.float64(x) - np.float64(self.mean)) / np.float64(self.since))
        self.sm = self.sm + x - self.mean - self.delta
        theta = self.thr * self.mean
        if self.sm < self.mn:
            self.mn = self.sm
        if self.sm > self.mx:
            self.mx = self.sm
        diff = self.sm - self.mn
        check = diff > theta
        if check and self.since > 0:
            self.ds = "drift"
        self.nrows += 1
        self.row = {"x": x, "sum": self.sm, "diff": diff, "theta": theta, "check": bool(check), "max": self.mx, "min": self.mn, "mean": self.mean}


def spec_params(p):
    w = p["window_size"]
    return {"step": max(1, min(100, py_round_exact(p["sample_period"] * w))), "thr": py_round_exact(0.01 * w), "bins": isqrt_floor(w)}


def spec_run(case, obs):
    """the property as an executable specification; oracle values (number of components, projected scores, and for
    'kl' the per-component Jensen-Shannon distances) are taken from the logged library calls.  Yields one expected row per update."""
    p = case["params"]
    w, inter, scaling = p["window_size"], p["divergence_metric"] == "intersection", p["online_scaling"]
    sp = spec_params(p)
    step, bins = sp["step"], sp["bins"]
    mon = SpecPH(p["delta"], sp["thr"])
    total = since = 0
    ds, building = None, True
    ref, test = [], []
    npcs = None
    rproj, tproj, lower, upper, dref = [], [], [], [], []
    nscores, score = 1, 0.0
    out = []
    for i, r in enumerate(obs["rows"]):
        if "error" in r:
            out.append({"error": "ZeroDivisionError" if step == 0 and not building else None})
            break
        total += 1
        since += 1
        calls, e = [], {}
        if building:
            if ds is not None:
                ref, test = test, []
                if scaling:
                    calls.append([C_INV, len(ref)])
                since, ds = 0, None
                mon.reset()
            elif len(ref) < w:
                ref = ref + [i]
            elif len(test) < w:
                test = test + [i]
            if len(test) == w:
                building = False
                if scaling:
                    calls += [[C_FIT_SCALE, w], [C_SCALE, w]]
                calls += [[C_PCA_FIT, w], [C_PCA_TR, w], [C_PCA_TR, w]]
                npcs, rproj, tproj = r.get("o_npcs"), r.get("o_rproj"), r.get("o_tproj")
                if npcs is None or rproj is None or tproj is None:
                    out.append({"missing": "PCA was not fitted / windows were not projected when the test window filled up"})
                    break
                rproj, tproj = [list(x) for x in rproj], [list(x) for x in tproj]
                if inter:
                    lower = [min(min(x[j] for x in rproj), min(x[j] for x in tproj)) for j in range(npcs)]
                    upper = [max(max(x[j] for x in rproj), max(x[j] for x in tproj)) for j in range(npcs)]
                    dref = [spec_hist([x[j] for x in rproj], bins, lower[j], upper[j]) for j in range(npcs)]
                    e["lower"], e["upper"], e["dref"] = lower, upper, dref
                else:
                    calls += [[C_KDE, w]] * npcs
        else:
            nxt = r.get("o_next")
            if nxt is None:
                out.append({"missing": "the new observation was not projected in the monitoring phase"})
                break
            if scaling:
                calls.append([C_SCALE, 1])
            calls.append([C_PCA_TR, 1])
            nxt = list(nxt)
            if inter:
                nxt = [lower[j] if nxt[j] < lower[j] else upper[j] if nxt[j] > upper[j] else nxt[j] for j in range(npcs)]
            test = test[1:] + [i]
            tproj = tproj[1:] + [nxt]
            e["tproj_last"] = nxt
            if step == 0:
                out.append({"error": "ZeroDivisionError"})
                break
            if (total - 1) % step == 0 and total - 1 != 0:
                if inter:
                    dtest = [spec_hist([x[j] for x in tproj], bins, lower[j], upper[j]) for j in range(npcs)]
                    comp = [spec_inter(dref[j][1], dtest[j][1]) for j in range(npcs)]
                    e["dtest"] = dtest
                else:
                    comp = r.get("o_scores")
                    calls += [[C_KDE, w]] * npcs + [[C_JS, w]] * npcs
                    if comp is None or len(comp) != npcs:
                        out.append({"missing": "no per-component Jensen-Shannon scores at a scheduled sample"})
                        break
                score = pymax_list(comp)
                e["comp"] = comp
                nscores += 1
                mon.update(score)
                if mon.ds is not None:
                    building, ds = True, "drift"
        e.update({"ds": ds, "total": total, "since": since, "building": building, "ref": list(ref), "test": list(test), "npcs": npcs,
                  "nscores": nscores, "score": score, "calls": calls,
                  "mon": {"ds": mon.ds, "total": mon.total, "since": mon.since, "nrows": mon.nrows, "row": mon.row}})
        out.append(e)
    return out


# ------------------------------------------------------------------ direct property check (no Coq model)
def _feq_list(a, b):
    return a is not None and b is not None and len(a) == len(b) and all(feq(x, y) for x, y in zip(a, b))


def _is_range_in(starts, idx):
    """is the contiguous index list idx one of the ranges that match the window's content?"""
    if not idx:
        return True
    return idx == list(range(idx[0], idx[0] + len(idx))) and idx[0] in starts


GAP = {"n": 0, "nonzero": 0, "negative": 0, "max": 0.0, "alarms": 0}     # rounding gap of the intersection score on identical windows


def multiset_periodic(case):
    return bool(case.get("periodic"))


def direct_check(case, obs):
    if "__exception__" in obs:
        return [f"PCACD raised {obs['__exception__']}: {obs.get('__message__')}"]
    p = case["params"]
    w = p["window_size"]
    sp = spec_params(p)
    msgs = []
    # constructor attributes against exact round-half-even of the double products
    if obs["step"] != sp["step"]:
        msgs.append(f"step = {obs['step']!r}, but max(1, min(100, round(sample_period * window_size))) = {sp['step']} (exact round-half-even of the double product)")
    if obs["ph_threshold"] != sp["thr"]:
        msgs.append(f"ph_threshold = {obs['ph_threshold']!r}, but round(0.01 * window_size) = {sp['thr']}")
    if obs["bins"] != sp["bins"]:
        msgs.append(f"bins = {obs['bins']!r}, but floor(sqrt(window_size)) = {sp['bins']}")
    if obs.get("perm_probe") is not None and not obs["perm_probe"]["raised"]:
        msgs.append("a one-row DataFrame whose columns are the stream's in another order was accepted and processed by position")
    mp = obs["mon_params"]
    if mp is not None and not (feq(mp[0], p["delta"]) and mp[1] == sp["thr"] and mp[2] == 0 and mp[3] == "positive"):
        msgs.append(f"embedded Page-Hinkley built with (delta, threshold, burn_in, direction) = {mp}, expected ({p['delta']}, {sp['thr']}, 0, 'positive')")
    if msgs:
        return msgs
    exp = spec_run(case, obs)
    inter = p["divergence_metric"] == "intersection"
    for i, (r, e) in enumerate(zip(obs["rows"], exp)):
        if "missing" in e:
            return [f"update {i}: {e['missing']}"]
        if "error" in r or "error" in e:
            if r.get("error") != e.get("error"):
                return [f"update {i}: implementation raised {r.get('error')}, specification says {e.get('error')}"]
            return [f"update {i}: ZeroDivisionError: step = min(100, round({p['sample_period']} * {w})) = 0, the schedule (total_samples - 1) % step cannot be evaluated"]
        where = f"PCACD {p} update {i} (total_samples {r.get('total')})"
        for k, nm in (("ds", "drift_state"), ("total", "total_samples"), ("since", "samples_since_reset")):
            if r[k] != e[k]:
                return [f"{where}: {nm} = {r[k]!r}, specification says {e[k]!r}"]
        # silent until both windows are full
        if r["ds"] is not None:
            j = i
            while j > 0 and obs["rows"][j - 1]["ds"] is None:
                j -= 1
            first_epoch = j == 0
            if (first_epoch and r["total"] <= 2 * w) or (not first_epoch and r["since"] <= w):
                return [f"{where}: drift reported before reference and test windows were full"]
        if r["num_pcs"] != e["npcs"]:
            return [f"{where}: num_pcs = {r['num_pcs']!r}, but the PCA fitted on the reference window has {e['npcs']!r} components"]
        if r["calls"] != e["calls"]:
            return [f"{where}: library calls (kind, rows) {r['calls']}, specification says {e['calls']}"]
        if r["building"] is not None and r["building"] != e["building"]:
            return [f"{where}: phase flag _build_reference_and_test = {r['building']}, specification says {e['building']}"]
        if r["nscores"] is not None:
            if r["nscores"] != e["nscores"]:
                return [f"{where}: {r['nscores'] - 1} change scores computed so far, the schedule (total-1) % step == 0 says {e['nscores'] - 1}"]
            if inter and r["nscores"] > 1 and not (r["score"] >= 0.0):
                return [f"{where}: intersection change score {r['score']!r} is negative (or NaN)"]
            if not feq(r["score"], e["score"]):
                return [f"{where}: last change score {r['score']!r}, specification (max over components) says {e['score']!r}"]
            if inter and multiset_periodic(case) and r["nscores"] > 1 and (i == 0 or obs["rows"][i - 1]["nscores"] != r["nscores"]):
                # exact arithmetic: 0 (theorem C11_intersection_zero_equal_windows).  In doubles the score is
                # 1 - fl(sum of the normalised histogram); the stated bound on that rounding gap is 4 * bins * 2^-53.
                gap = abs(r["score"])
                GAP["n"] += 1
                GAP["nonzero"] += gap != 0.0
                GAP["max"] = max(GAP["max"], gap)
                GAP["negative"] += r["score"] < 0
                GAP["alarms"] += r["ds"] == "drift"
                if r["ds"] == "drift" and case["params"]["delta"] >= 0.005:
                    # with delta above the rounding noise the cumulative PH sum only decreases: PH difference 0, no alarm
                    return [f"{where}: the test window equals the reference window (as a multiset of rows), score {r['score']!r}, delta {case['params']['delta']}, "
                            f"but drift is reported"]
                if gap > 4 * sp["bins"] * 2.0 ** -53:
                    return [f"{where}: the test window equals the reference window (as a multiset of rows) but the intersection change score is {r['score']!r}, "
                            f"not 0 up to the rounding of the normalisation (bound {4 * sp['bins'] * 2.0 ** -53!r})"]
        for nm in ("ref", "test"):
            ln = r.get(nm + "_len")
            if ln is None:
                continue
            if ln != len(e[nm]):
                return [f"{where}: {nm} window holds {ln} rows, specification says {len(e[nm])}"]
            if ln and r.get(nm + "_starts", []) is not None and not _is_range_in(r.get(nm + "_starts", []), e[nm]):
                return [f"{where}: {nm} window content is the stream rows starting at {r.get(nm + '_starts')}, specification says rows {e[nm][0]}..{e[nm][-1]}"]
        m, em = r.get("mon"), e["mon"]
        if m is not None:
            for k in ("ds", "total", "since"):
                if m[k] != em[k]:
                    return [f"{where}: embedded Page-Hinkley {k} = {m[k]!r}, specification says {em[k]!r}"]
            if "nrows" in m:
                if m["nrows"] != em["nrows"]:
                    return [f"{where}: embedded Page-Hinkley history has {m['nrows']} rows, specification says {em['nrows']}"]
                if m["nrows"] and "row" in m:
                    for k, v in m["row"].items():
                        ev = em["row"][k]
                        if (v != ev) if isinstance(v, bool) else not feq(v, ev):
                            return [f"{where}: embedded Page-Hinkley {k} = {v!r}, specification says {ev!r} (score {em['row']['x']!r})"]
        if (r["ds"] == "drift") != (em["ds"] is not None):
            return [f"{where}: drift_state {r['ds']!r} but the Page-Hinkley monitor's state is {em['ds']!r}"]
        if inter:
            for k in ("lower", "upper"):
                if k in r and k in e and not _feq_list(r[k], e[k]):
                    return [f"{where}: {k} = {r[k]}, per-component supports of the projected windows are {e[k]}"]
            for k in ("dref", "dtest"):
                if r.get(k) is not None and k in e:
                    for j, (a, (ee, dd)) in enumerate(zip(r[k], e[k])):
                        if not _feq_list(a["edges"], ee):
                            return [f"{where}: component {j}: {k} histogram edges {a['edges']} are not the {sp['bins']} equal bins on the component's own support [{e.get('lower', ['?'] * 9)[j] if k == 'dref' else ee[0]}, ..]: {ee}"]
                        if not _feq_list(a["density"], dd):
                            return [f"{where}: component {j}: {k} histogram {a['density']}, specification {dd}"]
                    # same edges for reference and test histograms of a component
            if "tproj_last" in r and "tproj_last" in e and not _feq_list(r["tproj_last"], e["tproj_last"]):
                return [f"{where}: newest row of the test projection {r['tproj_last']}, winsorised projection is {e['tproj_last']}"]
    if len(obs["rows"]) != len(exp):
        return [f"{len(obs['rows'])} updates observed, specification produced {len(exp)} rows"]
    return []


# ------------------------------------------------------------------ Coq side
def _fl(xs):
    return G.lst([G.flt(v) for v in xs])


def _fll(rows):
    return G.lst([_fl(r) for r in rows])


def _opt(s):
    return "None" if s is None else f"(Some {s})"


def _hists(hs):
    return None if hs is None else G.lst([f"({_fl(h['edges'])}, {_fl(h['density'])})" for h in hs])


def _win(r, nm):
    ln = r.get(nm + "_len")
    if ln is None or r.get(nm + "_starts", []) is None:
        return "None"
    return f"(Some ({G.z(ln)}, {G.zlist(r.get(nm + '_starts', []))}))"


def input_term(r):
    if "o_npcs" in r:
        return f"IBuild {G.z(r['o_npcs'])} {_fll(r['o_rproj'])} {_fll(r['o_tproj'])}"
    if "o_next" in r:
        return f"IMon {_fl(r['o_next'])} {_fl(r.get('o_scores', []))}"
    return "IB"


def row_term11(r, prev):
    m = r.get("mon")
    if m is None:
        mon = "None"
    else:
        row = None
        changed = prev is None or prev.get("mon") is None or prev["mon"].get("nrows") != m.get("nrows")
        if m.get("row") is not None and changed:
            q = m["row"]
            row = G.lst([f"(Some {G.flt(v)})" for v in (q["sum"], q["diff"], q["theta"], q["max"], q["min"], q["mean"],
                                                         1.0 if q["check"] else 0.0, q["x"], float(m["nrows"]))])
        mon = f"(Some ({G.ds(m['ds'])}, {G.z(m['total'])}, {G.z(m['since'])}, {G.z(m.get('nrows', 0))}, {_opt(row)}))"
    b = r.get("building")
    return ("mkE " + " ".join([
        G.ds(r["ds"]), G.z(r["total"]), G.z(r["since"]),
        "None" if b is None else f"(Some {G.boolc(b)})",
        G.optz(r["num_pcs"]),
        _win(r, "ref"), _win(r, "test"),
        G.optz(r.get("nscores")), G.optf(r.get("score")),
        mon,
        G.lst([f"({G.z(c)}, {G.z(n)})" for c, n in r["calls"]]),
        _opt(_fl(r["lower"]) if "lower" in r else None), _opt(_fl(r["upper"]) if "upper" in r else None),
        _opt(_hists(r.get("dref"))), _opt(_hists(r.get("dtest"))),
        _opt(_fl(r["tproj_last"]) if "tproj_last" in r else None)]))


def coq_term(case, obs, head="chk_pcacd"):
    if "__exception__" in obs:
        return "false"
    if any("error" in r for r in obs["rows"]):
        return "false"   # the implementation raised
    p = case["params"]
    xs, rows, prev = [], [], None
    for r in obs["rows"]:
        xs.append(input_term(r))
        rows.append(row_term11(r, prev))
        prev = r
    return (f"{head} {G.z(p['window_size'])} {G.flt(p['sample_period'])} {G.flt(p['delta'])} "
            f"{G.boolc(p['divergence_metric'] == 'intersection')} {G.boolc(p['online_scaling'])} "
            f"{G.z(obs['step'])} {G.z(obs['ph_threshold'])} {G.z(obs['bins'])} {G.lst(xs)} {G.lst(rows)}")


def show_term(case, obs):
    return coq_term(case, obs, head="show_pcacd")


def nontrivial(case, obs):
    rows = obs.get("rows", [])
    seen_drift = False
    for r in rows:
        if r.get("ds") == "drift":
            seen_drift = True
        elif seen_drift and "o_npcs" in r:
            return True
    return False


# ------------------------------------------------------------------ generators
WINDOWS = [20, 50, 100, 80, 160]
PERIODS = [0.05, 0.1, 0.025, 0.2, 0.0125, 0.7]
# before the repair: step = round(0.5) = 0, ZeroDivisionError at update 21
WITNESS_STEP0 = {"params": {"window_size": 10, "ev_threshold": 0.99, "delta": 0.1, "divergence_metric": "kl", "sample_period": 0.05,
                            "online_scaling": True},
                 "data": [[float((3 * i) % 7), float((5 * i) % 11)] for i in range(45)], "kind": "small-window"}


def _arith_block(w, a):
    return [[float((a * i) % 17), float((i * i + a) % 23)] for i in range(w)]


# identical windows, intersection metric: before the repair the score was -2^-52 and Page-Hinkley (threshold 1 * negative mean) alarmed at update 201
WITNESS_EQUAL_WINDOWS_ALARM = {"params": {"window_size": 100, "ev_threshold": 0.99, "delta": 0.1, "divergence_metric": "intersection",
                                          "sample_period": 0.05, "online_scaling": True},
                               "data": [_arith_block(100, 6)[i % 100] for i in range(203)], "kind": "periodic", "periodic": True}


def step_of(w, sp):
    return max(1, min(100, py_round_exact(sp * w)))


def shift_stream(rng, n, dim, w, kind):
    """rows with level / variance / correlation shifts placed after the first build and about every 1.5-2.5 windows"""
    out = []
    mean = [rng.choice([0.0, 5.0, -3.0]) for _ in range(dim)]
    sd = [rng.choice([1.0, 0.5, 2.0]) for _ in range(dim)]
    rho = 0.0
    nxt = 2 * w + rng.randint(0, w)
    for i in range(n):
        if i == nxt:
            k = kind if kind != "mixed" else rng.choice(["level", "variance", "correlation"])
            if k == "level":
                mean = [m + rng.choice([-8, -5, 5, 8]) * s for m, s in zip(mean, sd)]
            elif k == "variance":
                f = rng.choice([0.15, 5.0, 8.0])
                sd = [s * f for s in sd]
            else:
                rho = rng.choice([0.95, -0.95]) if abs(rho) < 0.5 else 0.0
            nxt = i + rng.randint(int(1.5 * w), int(2.5 * w))
        z = [rng.gauss(0, 1) for _ in range(dim)]
        for j in range(1, dim):
            z[j] = rho * z[0] + math.sqrt(1 - rho * rho) * z[j]
        out.append([float(mean[j] + sd[j] * z[j]) for j in range(dim)])
    return out


def gen_params(ctx, w=None):
    ww = w or ctx.rng.choice(WINDOWS + ([30, 150, 250] if ctx.thorough else []))
    sp = ctx.rng.choice(PERIODS)
    return {"window_size": ww, "ev_threshold": ctx.rng.choice([0.99, 0.99, 0.9, 0.7, 0.5]), "delta": ctx.rng.choice([0.1, 0.01, 0.005, 0.0]),
            "divergence_metric": ctx.rng.choice(["kl", "intersection", "intersection"]), "sample_period": sp,
            "online_scaling": ctx.rng.random() < 0.5}


def gen_cases(ctx):
    cases = []
    st = ctx.stats
    def add(c):
        if len(cases) % 3 == 2:
            c["container"] = "df"        # rows handed over as one-row DataFrames with named columns
        cases.append(c)
        p = c["params"]
        for k, v in (("kind", c["kind"]), ("window", p["window_size"]), ("raw_step_zero", py_round_exact(p["sample_period"] * p["window_size"]) == 0), ("metric", p["divergence_metric"]), ("scaling", p["online_scaling"]),
                     ("step", step_of(p["window_size"], p["sample_period"])), ("threshold", py_round_exact(0.01 * p["window_size"])),
                     ("features", len(c["data"][0]))):
            st.setdefault(k, {})
            st[k][str(v)] = st[k].get(str(v), 0) + 1
    # the two former witnesses (step formerly 0; equal windows formerly scoring -2^-52 and alarming) come first
    add(dict(WITNESS_STEP0))
    add(dict(WITNESS_EQUAL_WINDOWS_ALARM))
    kinds = ["level", "variance", "correlation", "mixed"]
    # small windows whose round(sample_period * window_size) is 0: the scoring period is clamped to 1
    for _ in range(ctx.scale(8, 80)):
        w = ctx.rng.choice([5, 8, 10, 15, 20])
        sp = ctx.rng.choice([0.05, 0.025, 0.0125, 0.01] if w < 20 else [0.025, 0.0125])
        p = dict(gen_params(ctx, w), sample_period=sp)
        add({"params": p, "data": shift_stream(ctx.rng, ctx.rng.randint(4 * w, 12 * w), ctx.rng.randint(2, 4), w, ctx.rng.choice(kinds)), "kind": "small-window"})
    # every window size x both metrics x both scaling modes at least once, shift kinds rotating
    k = 0
    for w in WINDOWS + ([30, 150, 250] if ctx.thorough else []):
        for metric in ("intersection", "kl"):
            for scaling in (True, False):
                if not ctx.thorough and w == 160 and metric == "kl" and not scaling:
                    continue
                p = dict(gen_params(ctx, w), divergence_metric=metric, online_scaling=scaling)
                n = ctx.rng.randint(int(4.5 * w), 6 * w) if w >= 100 else ctx.rng.randint(6 * w, 10 * w)
                add({"params": p, "data": shift_stream(ctx.rng, n, ctx.rng.randint(2, 5), w, kinds[k % 4]), "kind": kinds[k % 4]})
                k += 1
    # a window longer than 256 samples (CPython caches only the ints up to 256: an identity test on sizes behaves differently there)
    for metric, scaling in ((("intersection", True),) if not ctx.thorough else (("intersection", True), ("kl", False))):
        p = dict(gen_params(ctx, 300), divergence_metric=metric, online_scaling=scaling, sample_period=0.05)
        add({"params": p, "data": shift_stream(ctx.rng, 4 * 300 + 150, 2, 300, "level"), "kind": "large-window"})
    for _ in range(ctx.scale(14, 300)):
        p = gen_params(ctx)
        w = p["window_size"]
        n = ctx.rng.randint(4 * w, 6 * w) if w >= 100 else ctx.rng.randint(5 * w, 10 * w)
        kind = ctx.rng.choice(kinds)
        add({"params": p, "data": shift_stream(ctx.rng, n, ctx.rng.randint(2, 5), w, kind), "kind": kind})
    # test window = reference window: stream periodic with period window_size
    for a, w, scaling in ((7, 100, True), (20, 160, False)) if not ctx.thorough else [(a, w, sc) for a in range(1, 12) for w in (100, 160) for sc in (True, False)]:
        blk = _arith_block(w, a)
        add({"params": dict(WITNESS_EQUAL_WINDOWS_ALARM["params"], window_size=w, online_scaling=scaling),
             "data": [blk[i % w] for i in range(2 * w + 2 * step_of(w, 0.05) + 2)], "kind": "periodic", "periodic": True})
    for _ in range(ctx.scale(8, 80)):
        p = dict(gen_params(ctx, ctx.rng.choice([20, 50, 80, 100])), divergence_metric=ctx.rng.choice(["intersection", "intersection", "kl"]))
        w = p["window_size"]
        dim = ctx.rng.randint(2, 5)
        grid = ctx.rng.random() < 0.4
        block = [[(round(ctx.rng.gauss(0, 2) * 4) / 4 if grid else ctx.rng.gauss(0, 2)) + 3 * j for j in range(dim)] for _ in range(w)]
        n = ctx.rng.randint(3 * w, 5 * w)
        add({"params": p, "data": [list(block[i % w]) for i in range(n)], "kind": "periodic", "periodic": True})
    # shorter than two windows / just at the boundary: must stay silent
    for _ in range(ctx.scale(6, 40)):
        p = gen_params(ctx, ctx.rng.choice([20, 50]))
        w = p["window_size"]
        n = ctx.rng.choice([1, w - 1, w, w + 1, 2 * w - 1, 2 * w, 2 * w + 1, 2 * w + 2])
        add({"params": p, "data": shift_stream(ctx.rng, n, ctx.rng.randint(2, 3), w, "level"), "kind": "short"})
    return cases


def shrink_candidates(case):
    d = case["data"]
    w = case["params"]["window_size"]
    if len(d) > 1:
        yield dict(case, data=d[:-1])
        yield dict(case, data=d[:len(d) // 2])
        yield dict(case, data=d[:2 * w + 1])
    if len(d[0]) > 2:
        yield dict(case, data=[r[:-1] for r in d])


def intensify(case):
    # the same stream under the other metric / scaling mode
    p = case["params"]
    yield dict(case, params=dict(p, online_scaling=not p["online_scaling"]))
    yield dict(case, params=dict(p, divergence_metric="kl" if p["divergence_metric"] == "intersection" else "intersection"))



def extra(ctx):
    return {"equal_windows_intersection_scores": GAP["n"], "of_which_not_exactly_zero": GAP["nonzero"], "of_which_negative": GAP["negative"],
            "max_abs_score_on_equal_windows": GAP["max"], "stated_bound": "0 <= score <= 4 * bins * 2^-53",
            "drifts_reported_on_equal_windows": GAP["alarms"]}
