"""C11 — PCA-CD scores each component on aligned supports and alarms via Page-Hinkley."""
import contextlib, math
from fractions import Fraction
import numpy as np
import pandas as pd
import sklearn.decomposition, sklearn.preprocessing, sklearn.neighbors
import scipy.spatial.distance
import menelaus.data_drift.pca_cd as pca_cd_mod
from menelaus.data_drift.pca_cd import PCACD
from . import coqgen as G
from .common import feq, lifecycle_obs, MISSING

ID = "C11"
PROPS = ["Prop_C11"]
IMPORTS = ("From MV Require Import Base Num NumFloat Lifecycle Pairwise ChangeDet Pcacd Corr_C11.\n"
           "From Coq Require Import PrimFloat.")
CORR_NAME = ("Corr_C11: Pcacd.v (phase machine, windows as stream indices, schedule, per-component supports, winsorising, "
             "np.histogram/normalisation/intersection bit-for-bit, embedded Page-Hinkley of ChangeDet.v; step and ph_threshold by exact "
             "round-half-even of the double product) = pca_cd.py, after every update")
TRUSTED = ["Coq 8.16.1 kernel + vm_compute + primitive floats",
           "hand-written model coq/Pcacd.v (reusing coq/ChangeDet.v / coq/Lifecycle.v / coq/Pairwise.v) tied to pca_cd.py by differential execution "
           "after every update (bounded by the generators)",
           "sklearn StandardScaler / PCA (number of components, projected scores) are oracles logged by harness-level subclasses; for the 'kl' metric "
           "KernelDensity + scipy jensenshannon (per-component scores) are oracles too; their numerical content is NOT verified, only the "
           "sequence, kind and size of the calls and how their results are used",
           "window contents are identified with stream indices by value (raw rows, 1e-9 relative after undoing the scaler)",
           "harness/c11.py (generators, independent float re-implementation used as direct oracle), harness/coqgen.py"]
RULE = ("2-5 features, level / variance / correlation shifts sized to raise alarms, window_size in {20,50,100,80,160} (+30, 150, 250 thorough), "
        "sample_period in {0.05,0.1,0.025,0.2,0.0125,0.7}, both metrics, both scaling modes, ev_threshold in {0.99,0.9,0.7,0.5}, delta in {0.1,0.01,0.005,0.0}; "
        "streams periodic with period window_size (test window = reference window as a multiset: intersection score must be exactly 0), dyadic-grid data "
        "(points on histogram edges), out-of-support excursions (winsorising), streams shorter than 2*window_size. "
        "Non-trivial: at least one drift followed by a completed second build; distinct by content.")
SHARD = 6

C_FIT_SCALE, C_SCALE, C_INV, C_PCA_FIT, C_PCA_TR, C_KDE, C_JS = 1, 2, 3, 4, 5, 6, 7


# ------------------------------------------------------------------ logging wrappers (harness level only)
class _Log:
    def __init__(self):
        self.calls = []      # (code, nrows, payload)
        self.depth = 0


def _mk_wrappers(log):
    class LogScaler(sklearn.preprocessing.StandardScaler):
        def fit_transform(self, X, y=None, **kw):
            log.depth += 1
            try:
                r = super().fit_transform(X, y, **kw)
            finally:
                log.depth -= 1
            if log.depth == 0:
                log.calls.append((C_FIT_SCALE, len(X), None))
            return r

        def transform(self, X, copy=None):
            log.depth += 1
            try:
                r = super().transform(X, copy=copy)
            finally:
                log.depth -= 1
            if log.depth == 0:
                log.calls.append((C_SCALE, len(X), None))
            return r

        def inverse_transform(self, X, copy=None):
            log.depth += 1
            try:
                r = super().inverse_transform(X, copy=copy)
            finally:
                log.depth -= 1
            if log.depth == 0:
                log.calls.append((C_INV, len(X), None))
            return r

    class LogPCA(sklearn.decomposition.PCA):
        def fit(self, X, y=None):
            log.depth += 1
            try:
                r = super().fit(X, y)
            finally:
                log.depth -= 1
            if log.depth == 0:
                log.calls.append((C_PCA_FIT, len(X), int(len(self.components_))))
            return r

        def transform(self, X):
            log.depth += 1
            try:
                r = super().transform(X)
            finally:
                log.depth -= 1
            if log.depth == 0:
                log.calls.append((C_PCA_TR, len(X), np.asarray(r, dtype=float).tolist()))
            return r

    class LogKDE(sklearn.neighbors.KernelDensity):
        def fit(self, X, y=None, sample_weight=None):
            log.depth += 1
            try:
                r = super().fit(X, y, sample_weight)
            finally:
                log.depth -= 1
            if log.depth == 0:
                log.calls.append((C_KDE, len(X), None))
            return r

    orig_js = scipy.spatial.distance.jensenshannon

    def log_js(p, q, *a, **kw):
        r = orig_js(p, q, *a, **kw)
        log.calls.append((C_JS, len(p), float(r)))
        return r

    return LogScaler, LogPCA, LogKDE, log_js


@contextlib.contextmanager
def logged(log):
    """replace the library names that pca_cd.py imported by logging subclasses, for the duration of one run"""
    names = ("StandardScaler", "PCA", "KernelDensity", "jensenshannon")
    saved = {k: getattr(pca_cd_mod, k) for k in names}
    sc, pca, kde, js = _mk_wrappers(log)
    pca_cd_mod.StandardScaler, pca_cd_mod.PCA, pca_cd_mod.KernelDensity, pca_cd_mod.jensenshannon = sc, pca, kde, js
    try:
        yield
    finally:
        for k, v in saved.items():
            setattr(pca_cd_mod, k, v)


# ------------------------------------------------------------------ implementation side
def make(case):
    p = case["params"]
    return PCACD(window_size=p["window_size"], ev_threshold=p["ev_threshold"], delta=p["delta"],
                 divergence_metric=p["divergence_metric"], sample_period=p["sample_period"], online_scaling=p["online_scaling"])


def f1(v):
    return float(np.asarray(v).reshape(-1)[0])


def _frame_rows(df):
    if df is None or df is MISSING:
        return None
    try:
        return np.asarray(df, dtype=float).reshape(len(df), -1)
    except Exception:
        return None


def _starts(raw, content, tol=1e-9):
    """all a with raw[a:a+len] == content (up to tol, relative to the data scale)"""
    L = len(content)
    n = len(raw)
    if L == 0:
        return []
    if L > n:
        return []
    scale = tol * (1.0 + float(np.max(np.abs(raw))))
    cand = np.nonzero(np.all(np.abs(raw[: n - L + 1] - content[0]) <= scale, axis=1))[0]
    return [int(a) for a in cand if np.all(np.abs(raw[a:a + L] - content) <= scale)]


def mon_obs(m):
    """public observables of the embedded Page-Hinkley monitor"""
    if m is None or m is MISSING:
        return None
    out = {"ds": m.drift_state, "total": int(m.total_samples), "since": int(m.samples_since_reset)}
    try:
        df = m.to_dataframe()
        out["nrows"] = len(df)
        if len(df):
            last = df.iloc[-1]
            out["row"] = {"x": f1(last["change_scores"]), "sum": f1(last["page_hinkley_values"]),
                          "diff": f1(last["page_hinkley_differences"]), "theta": f1(last["theta_threshold"]),
                          "check": bool(np.asarray(last["drift_detected"]).reshape(-1)[0]),
                          "max": f1(last["maximum_sum_values"]), "min": f1(last["minimum_sum_values"]),
                          "mean": f1(last["mean_values"])}
    except Exception:
        pass
    return out


def dens_obs(d, npcs):
    """edges / densities of a {"PCi": {"bin_edges", "density"}} dict, or None"""
    if not isinstance(d, dict) or npcs is None:
        return None
    out = []
    for i in range(npcs):
        e = d.get(f"PC{i + 1}")
        if not isinstance(e, dict) or "bin_edges" not in e:
            return None
        out.append({"edges": [float(x) for x in e["bin_edges"]], "density": [float(x) for x in e["density"]]})
    return out


def run_impl(case):
    raw = np.array(case["data"], dtype=float)
    log = _Log()
    rows = []
    with logged(log):
        d = make(case)
        inter = case["params"]["divergence_metric"] == "intersection"
        obs = {"step": d.step, "ph_threshold": d.ph_threshold, "bins": d.bins,
               "mon_params": [float(d._drift_detection_monitor.delta), d._drift_detection_monitor.threshold,
                              d._drift_detection_monitor.burn_in, d._drift_detection_monitor.direction]}
        scaled = False     # are the private windows currently in the scaler's coordinates?
        for i in range(len(raw)):
            k0 = len(log.calls)
            was_building = getattr(d, "_build_reference_and_test", None)
            try:
                d.update(raw[i:i + 1].copy())
            except ZeroDivisionError as e:
                rows.append({"error": "ZeroDivisionError"})
                break
            st, tot, sin = lifecycle_obs(d)
            calls = log.calls[k0:]
            row = {"ds": st, "total": tot, "since": sin,
                   "num_pcs": None if d.num_pcs is None else int(d.num_pcs),
                   "building": getattr(d, "_build_reference_and_test", None),
                   "calls": [[c, n] for c, n, _ in calls]}
            cs = getattr(d, "_change_score", None)
            row["nscores"] = None if cs is None else len(cs)
            row["score"] = None if not cs else float(cs[-1])
            row["mon"] = mon_obs(getattr(d, "_drift_detection_monitor", None))
            # oracle outputs of this update
            tr = [p for c, n, p in calls if c == C_PCA_TR]
            fit = [p for c, n, p in calls if c == C_PCA_FIT]
            js = [p for c, n, p in calls if c == C_JS]
            built = bool(fit)
            if built:
                row["o_npcs"] = fit[0]
                row["o_rproj"], row["o_tproj"] = (tr + [None, None])[:2]
            elif tr:
                row["o_next"] = tr[0][0]
            if js:
                row["o_scores"] = js
            # windows (private, optional): contents identified with stream indices
            if case["params"]["online_scaling"]:
                if built:
                    scaled = True
                elif any(c == C_INV for c, _, _ in calls):
                    scaled = False      # reference inverse-transformed, test emptied
            for nm, attr in (("ref", "_reference_window"), ("test", "_test_window")):
                w = _frame_rows(getattr(d, attr, MISSING))
                if w is None:
                    row[nm + "_len"] = None
                    continue
                row[nm + "_len"] = len(w)
                if len(w) and scaled:
                    sc = d._reference_scaler
                    w = w * sc.scale_ + sc.mean_
                row[nm + "_starts"] = _starts(raw, w) if len(w) and w.shape[1] == raw.shape[1] else []
            # supports and histograms (public lower/upper; densities private)
            if inter and d.num_pcs is not None:
                if built:
                    try:
                        row["lower"] = [float(d.lower[j]) for j in range(d.num_pcs)]
                        row["upper"] = [float(d.upper[j]) for j in range(d.num_pcs)]
                    except Exception:
                        pass
                    row["dref"] = dens_obs(getattr(d, "_density_reference", None), d.num_pcs)
                if row["nscores"] is not None and rows and rows[-1].get("nscores") is not None and row["nscores"] > rows[-1]["nscores"]:
                    row["dtest"] = dens_obs(getattr(d, "_density_test", None), d.num_pcs)
                tp = _frame_rows(getattr(d, "_test_pca_projection", MISSING))
                if tp is not None and len(tp) and not built:
                    row["tproj_last"] = [float(x) for x in tp[-1]]
            rows.append(row)
    obs["rows"] = rows
    return obs
