"""C19 — MD3 follows its warn / ask-the-oracle / confirm protocol.

A case is a configuration, a prefix of calls and, optionally, a complete tree of continuations
(every word over an alphabet of calls up to a depth); a single history is a case without tree.
After every call the implementation's exception (type and which of md3.py's four refusals) and all
observables are recorded.  D: an independent plain-Python protocol machine (with the implementation's
k-fold statistics as oracle, validated separately by recomputation) must agree on everything, refused
calls must leave a deep snapshot of the detector unchanged, and the margin density must agree with an
exact-rational evaluation of the recurrence.  C: the Coq model (NumFloat) must reproduce every edge.
"""
import copy, itertools, math, os
from fractions import Fraction
import numpy as np
import pandas as pd
from sklearn.base import BaseEstimator, ClassifierMixin
from sklearn.svm import SVC
from sklearn.metrics import accuracy_score
from menelaus.concept_drift.md3 import MD3
from . import coqgen as G
from .common import feq

ID = "C19"
PROPS = ["Prop_C19"]
IMPORTS = "From MV Require Import Base Num NumFloat Md3 Corr_C19.\nFrom Coq Require Import PrimFloat."
LEVEL = "proof"
CORR_NAME = ("Corr_C19: Md3.v (md3_start/md3_step on NumFloat, k-fold statistics / margin signal / label correctness as "
             "oracle inputs) = md3.py, every observable after every call, floats bit-for-bit")
TRUSTED = ["Coq 8.16.1 kernel + vm_compute + primitive floats (theorems themselves: closed under the global context)",
           "hand-written model coq/Md3.v tied to md3.py by differential execution (coq/Corr_C19.v checkers)",
           "oracles of the model, not verified: sklearn KFold + clone/fit/predict of the classifier and np.mean/np.std over the "
           "folds (reference statistics; re-computed independently by the harness to 1e-12), the margin function's value, "
           "classifier.predict on labelled rows; pandas column handling (pd.concat keeps the first frame's column order)",
           "harness/c19.py, harness/coqgen.py"]
RULE = ("complete call trees: every word over an alphabet of 3-8 calls (in- / out-of- / half-margin updates, correct / incorrect labels "
        "inside / outside the margin, labels with permuted / missing / renamed / extra columns, 0- and 2-row inputs, explicit "
        "set_reference with the same and with renamed columns) up to depth 3-7 (quick) / 4-9 (thorough) from 6 configurations (k, oracle "
        "length incl. default and below k, sensitivity, reference batch chosen so that warnings and resolutions happen inside the depth "
        "and both strict comparisons meet ties: md_std = 0, acc_std = 0); random histories of 20-250 calls steered by the "
        "implementation's phase (threshold classifier with a user margin function, hard and fractional signals; linear SVC with the "
        "default margin function), ~15 % calls illegal for the phase, 25 % malformed labels, explicit set_reference (also while waiting, "
        "also renaming columns before any label is stored), oracle lengths below k (KFold failure); two-pass cases with the sensitivity "
        "set to an attained level/std ratio. Non-trivial: the case contains a warning, a refusal and a resolution."
        " Also: reference frames with a non-default index (a permutation of 0..N-1)."
        " Column orders: labelled samples come in all six orders of (feature, feature, target) - the five non-reference ones are "
        "accepted by MD3's set comparison - mixed within one labelling phase in every way (three further trees, alphabets of 6-8 "
        "calls to depth 3-4 quick / 4-6 thorough: first sample permuted and later ones in reference order, and the other way round; "
        "in random histories a phase opens with a feature-swapped sample with probability 0 / 0.3 / 0.6 and any sample is permuted "
        "with probability 0 / 0.15 / 0.5), on samples whose two features disagree in sign so that a classifier reading features by "
        "position (threshold on the first feature handed over; linear SVC) predicts differently under the permutation and the "
        "accuracy by position falls on the other side of sensitivity * acc_std than the accuracy by name, in both directions (counted: "
        "resolutions_where_positional_accuracy_would_report_false_drift / _would_miss_drift), incl. a configuration with acc_std > 0 "
        "(drift iff accuracy < 1/2). The expected verdict is recomputed from the call's own values addressed by column name, never "
        "from what the implementation stored or handed to predict. Labelling phases that follow a phase whose first labelled sample had its features swapped are generated too (they exposed a "
        "defect of the unchanged tree, repaired by a fix: commit). Not generated (VERIF_C19_EXCLUDED=1 generates them): update() samples "
        "with permuted columns - update() reads its one-row sample by position by design and the property states no column rule for it.")
ASSUMPTIONS = ["quantifier restriction (DESIGN.md C19, proved necessary: C19_oracle_length_below_k_never_resolves): "
               "oracle_data_length_required >= k; histories start with a successful set_reference whose target column exists",
               "the k-fold reference statistics, the margin function's value and classifier.predict are oracle inputs of the model "
               "(validated by recomputation, not verified)",
               "left out of the generated inputs (VERIF_C19_EXCLUDED=1 generates it): update() with a one-row frame whose feature columns "
               "stand in another order - update() has no column rule in the property or the documentation and reads the sample by position "
               "(X.to_numpy()[0]). (The other family found while building these cases - labelling phases after a phase whose first labelled "
               "sample had its feature columns swapped, where the adopted reference order made the next confirmation hand permuted features to "
               "the classifier - was a genuine defect, is repaired in /repo and is generated.)"]
SHARD = 40

COLID = {"a": 1, "b": 2, "y": 3, "c": 4, "z": 5, "t": 6, "a2": 7, "b2": 8}
T0, W0 = 0.0, 0.5          # the user's classifier: threshold and half-width of its margin

# Column orders of a well-formed labelled sample, as positions in the canonical order [feature 0, feature 1, target].
# MD3's column test compares *sets*, so each of the six orders is a legal call; every accepted sample is stored in the
# reference's column order (features, then target), so oracle_data and the adopted reference keep that order.
ORDERS = {"ok": (0, 1, 2), "perm": (2, 0, 1), "mid": (0, 2, 1), "swap": (1, 0, 2), "tswap": (2, 1, 0), "midswap": (1, 2, 0)}
PERMS = ("perm", "mid", "swap", "tswap", "midswap")      # not the reference's order
SWAPS = ("swap", "tswap", "midswap")                     # ... and the two features stand in the other order
# Input families on which the UNCHANGED library was found to judge by column position instead of by column name; they are
# left out of the generated cases (see skip_call / call_frame) and can be switched on to reproduce the alarms:
#   VERIF_C19_EXCLUDED=1 ./vcheck C19
EXCLUDED_ON = os.environ.get("VERIF_C19_EXCLUDED") == "1"

MSG = [("must be called to provide detector", 1), ("can be called only when a drift warning", 2),
       ("exactly 1 record", 3), ("same number and names of columns", 4)]

STATS = {}


def bump(k, n=1):
    STATS[k] = STATS.get(k, 0) + n


# ------------------------------------------------------------------ classifiers
class Thr(ClassifierMixin, BaseEstimator):
    """deterministic threshold classifier on the first feature; fit() moves the threshold to the midpoint of the class means"""

    def __init__(self, t=T0, w=W0):
        self.t = t
        self.w = w

    def fit(self, X, y):
        X = np.asarray(X, dtype=float); y = np.asarray(y)
        a = [float(v) for v in X[y == 0, 0]]; b = [float(v) for v in X[y == 1, 0]]
        if a and b:
            self.t_ = (sum(a) / len(a) + sum(b) / len(b)) / 2
        else:
            allv = [float(v) for v in X[:, 0]]
            self.t_ = sum(allv) / len(allv)
        return self

    def thr(self):
        return getattr(self, "t_", self.t)

    def predict(self, X):
        X = np.asarray(X, dtype=float)
        return (X[:, 0] > self.thr()).astype(int)


SIGLOG = []


def soft_value(dist, w):
    return 1 if dist <= w else (0.5 if dist <= 2 * w else 0)


def margin_hard(det, sample, clf):
    """user margin function: note that MD3 calls it with three arguments (detector, sample, classifier)"""
    v = 1 if abs(float(sample[0]) - clf.thr()) <= clf.w else 0
    SIGLOG.append((clf is det.classifier, v))
    return v


def margin_soft(det, sample, clf):
    v = soft_value(abs(float(sample[0]) - clf.thr()), clf.w)
    SIGLOG.append((clf is det.classifier, v))
    return v


def margin_svc(det, sample, clf):
    v = MD3.calculate_margin_inclusion_signal(det, sample, clf)
    SIGLOG.append((clf is det.classifier, v))
    return v


def svc_for(cfg):
    ref = cfg["ref"]
    X = np.array([r[:2] for r in ref], dtype=float); y = np.array([r[2] for r in ref])
    return SVC(kernel="linear", C=1.0).fit(X, y)


def make(cfg):
    if cfg["clf"] == "svc":
        clf, mf = svc_for(cfg), margin_svc
    else:
        clf, mf = Thr(), (margin_soft if cfg.get("soft") else margin_hard)
    det = MD3(clf, margin_calculation_function=mf, sensitivity=cfg["sens"], k=cfg["k"],
              oracle_data_length_required=cfg["req"])
    cols = cfg.get("cols", ["a", "b", "y"])
    det.set_reference(frame(cfg["ref"], cols), target_name=cfg.get("target", "y"))
    return det


INDEX_MODE = [None]      # "rev": reference frames carry a non-default index (a permutation of 0..N-1), as a frame that was
                         # shuffled or filtered without reset_index does; rows keep their positions


def frame(rows, cols):
    df = pd.DataFrame({c: [r[i] for r in rows] for i, c in enumerate(cols)})
    if INDEX_MODE[0] == "rev" and len(df) > 1:
        df.index = list(range(len(df)))[::-1]
    return df


# ------------------------------------------------------------------ calls
# ["u", a, b]                 update with one row ([.., "swap"]: the same sample with its two columns in the other order)
# ["un", n]                   update with n != 1 rows
# ["l", a, b, y, mode]        give_oracle_label; mode: a column order of ORDERS (ok | perm | mid | swap | tswap | midswap)
#                             | missing | renamed | extra | rows0 | rows2
# ["s", rows, cols, target]   explicit set_reference
# In every call a is the value of the canonically first feature column, b of the second, y of the target: a call names its
# values, the mode only decides where the columns stand in the frame.
def label_values(op, fc, tcol):
    """the labelled sample the caller hands over, addressed by column name"""
    a, b, y, mode = op[1:5]
    named = {fc[0]: a, fc[1]: b, tcol: y}
    if mode == "renamed":
        named["z"] = named.pop(fc[1])
    elif mode == "missing":
        del named[fc[1]]
    elif mode == "extra":
        named["c"] = 1.0
    return named


def label_columns(mode, fc, tcol):
    canon = fc + [tcol]
    if mode in ORDERS:
        return [canon[i] for i in ORDERS[mode]]
    return {"missing": [fc[0], tcol], "renamed": [fc[0], "z", tcol], "extra": canon + ["c"], "rows2": canon, "rows0": canon}[mode]


def call_frame(op, fcols, tcol):
    kind = op[0]
    if kind == "u":
        named = {fcols[0]: [op[1]], fcols[1]: [op[2]]}
        order = fcols[::-1] if len(op) > 3 and op[3] == "swap" else fcols
        return pd.DataFrame({c: named[c] for c in order})
    if kind == "un":
        return pd.DataFrame({fcols[0]: [0.25] * op[1], fcols[1]: [0.0] * op[1]})
    if kind == "l":
        named = label_values(op, fcols, tcol)
        n = {"rows0": 0, "rows2": 2}.get(op[4], 1)
        return pd.DataFrame({c: [named[c]] * n for c in label_columns(op[4], fcols, tcol)})
    raise ValueError(f"unknown call {op!r}")


def deep(det):
    """everything a call could change, for the refused-calls-change-nothing check"""
    def fr(x):
        if x is None:
            return None
        return (list(map(str, x.columns)), [[repr(v) for v in row] for row in x.to_numpy().tolist()], list(map(str, x.dtypes)))
    rd = getattr(det, "reference_distribution", None)
    return (det.drift_state, det.waiting_for_oracle, fr(det.oracle_data), repr(float(det.curr_margin_density)),
            None if rd is None else [(k, repr(float(v))) for k, v in sorted(rd.items())],
            repr(float(det.forgetting_factor)), det.total_updates, det.updates_since_reset,
            det.oracle_data_length_required, fr(det.reference_batch_features), fr(det.reference_batch_target),
            det.sensitivity, det.k)


def observe(det):
    rd = det.reference_distribution
    od = det.oracle_data
    return {"ds": det.drift_state, "wait": bool(det.waiting_for_oracle), "nrows": 0 if od is None else int(len(od)),
            "req": det.oracle_data_length_required, "len": int(rd["len"]),
            "ref": [float(rd["md"]), float(rd["md_std"]), float(rd["acc"]), float(rd["acc_std"])],
            "ff": float(det.forgetting_factor), "md": float(det.curr_margin_density),
            "total": int(det.total_updates), "since": int(det.updates_since_reset),
            "fcols": [str(c) for c in det.reference_batch_features.columns],
            "tcols": [str(c) for c in det.reference_batch_target.columns],
            "odata": None if od is None else [[float(v) for v in row] for row in od[list(od.columns)].to_numpy().tolist()],
            "ocols": None if od is None else [str(c) for c in od.columns]}


def apply_call(det, op):
    """perform one call; returns the edge observation"""
    before = deep(det)
    del SIGLOG[:]
    code, exc = 0, None
    fcols = [str(c) for c in det.reference_batch_features.columns]
    tcols = [str(c) for c in det.reference_batch_target.columns]
    # calls are phrased relative to the reference's *set* of columns in canonical (sorted) order
    fc = sorted(fcols)
    tcol = tcols[0] if tcols else "y"
    try:
        if op[0] == "s":
            det.set_reference(frame(op[1], op[2]), target_name=op[3])
        elif op[0] in ("u", "un"):
            det.update(call_frame(op, fc, tcol))
        else:
            det.give_oracle_label(call_frame(op, fc, tcol))
    except ValueError as e:
        msg = str(e)
        code = next((c for m, c in MSG if m in msg), None)
        if code is None:
            code = 6 if "n_splits" in msg else 5
        exc = "ValueError"
    except Exception as e:  # anything else is outside the protocol
        code, exc = 9, type(e).__name__ + ": " + str(e)[:120]
    o = observe(det)
    o["code"], o["exc"] = code, exc
    o["same"] = deep(det) == before
    sig = [v for own, v in SIGLOG if own]
    o["sig"] = sig[-1] if (op[0] == "u" and sig) else None
    o["nsig"] = len(sig)
    o["canon"] = [fc, tcol]
    return o


def skip_call(det, op):
    """not generated: (1) an explicit set_reference that renames the columns while labelled rows with the old names are
    already collected (pd.concat would then build a frame with NaN holes; outside the protocol);
    (2) give_oracle_label while the reference's two feature columns stand in the other order than the one the classifier
    was trained on.  That state is reached by legal calls only - a labelling phase whose first sample had its features
    swapped resolves (correctly) and the implicit set_reference adopts oracle_data's column order - and in it the
    UNCHANGED library takes the next phase's accuracy from oracle_data[feature_columns] with feature_columns in the
    adopted order, i.e. it hands the (never refitted) classifier permuted features and reports false / misses true drift
    although every frame of that phase is in the original order.  A finding about the library, not repaired here; the
    family is left out so that the check does not alarm on the unchanged tree (VERIF_C19_EXCLUDED=1 generates it).
    Everything else in that state (updates, explicit set_reference, the adopted statistics) is still generated."""
    # (family (2) is generated since the repair "fix: MD3 keeps labelled samples in the reference's column order": a return of the
    # defect is reported)
    od = det.oracle_data
    return op[0] == "s" and od is not None and set(map(str, od.columns)) != set(op[2])


def run_tree(det, alpha, depth):
    out = []
    for i, op in enumerate(alpha):
        if skip_call(det, op):
            continue
        d2 = copy.deepcopy(det)
        o = apply_call(d2, op)
        out.append([i, o, run_tree(d2, alpha, depth - 1) if depth > 1 else []])
    return out


_OBS_CACHE = {}   # id(case) -> observation recorded while the generator executed this very history on the implementation


def run_impl(case):
    hit = _OBS_CACHE.pop(id(case), None)
    if hit is not None and hit[0] is case:
        return hit[1]
    INDEX_MODE[0] = case.get("index")
    det = make(case["cfg"])
    res = {"start": observe(det), "edges": []}
    for op in case["ops"]:
        if skip_call(det, op):
            res["edges"].append(None)
            continue
        res["edges"].append(apply_call(det, op))
    res["ops"] = [op for op, e in zip(case["ops"], res["edges"]) if e is not None]
    res["edges"] = [e for e in res["edges"] if e is not None]
    t = case.get("tree")
    res["tree"] = run_tree(det, t["alpha"], t["depth"]) if t and t["depth"] > 0 else []
    return res


def walk(case, obs):
    """yields (node id, parent id, op, before_obs, edge_obs) over the prefix and the whole tree, parents first;
    node 0 is the state after the first set_reference"""
    prev, pid, nid = obs["start"], 0, 0
    for op, e in zip(obs["ops"], obs["edges"]):
        nid += 1
        yield nid, pid, op, prev, e
        prev, pid = e, nid
    if obs.get("tree"):
        alpha = case["tree"]["alpha"]
        stack = [(pid, prev, obs["tree"], 0)]
        while stack:
            par, pobs, children, j = stack.pop()
            if j >= len(children):
                continue
            stack.append((par, pobs, children, j + 1))
            i, e, sub = children[j]
            nid += 1
            yield nid, par, alpha[i], pobs, e
            if sub:
                stack.append((nid, e, sub, 0))


def path_to(case, obs, target):
    parent = {}
    for nid, pid, op, prev, e in walk(case, obs):
        parent[nid] = (pid, op)
        if nid == target:
            break
    out = []
    while target in parent:
        target, op = parent[target]
        out.append(op)
    return out[::-1]


# ------------------------------------------------------------------ independent expectations
def expected_signal(cfg, op, clf0=None):
    if cfg["clf"] == "svc":
        w = np.array(clf0.coef_[0]); b = np.array(clf0.intercept_)[0] / w[1]
        return 1 if np.abs(np.dot(w, np.array([op[1], op[2]], dtype=float)) + b) <= 1 else 0
    d = abs(float(op[1]) - T0)
    return soft_value(d, W0) if cfg.get("soft") else (1 if d <= W0 else 0)


def expected_correct(cfg, a, b, y, clf0=None):
    if cfg["clf"] == "svc":
        return int(clf0.predict(np.array([[a, b]], dtype=float))[0]) == int(y)
    return int(a > T0) == int(y)


def named_correct(cfg, named, order, tcol, clf0=None):
    """does the user's classifier predict the label of this sample?  The sample is a dict column name -> value; `order`
    lists the feature names in the order in which they are handed to the classifier (the property means the order it was
    trained on = the canonical one; any other order gives the accuracy on permuted features)."""
    return expected_correct(cfg, named[order[0]], named[order[1]], named[tcol], clf0)


def spec_step(cfg, st, op, e, clf0):
    """the protocol as the property states it, on plain Python floats; oracle: e['ref'] at (re)reference.
    st is the previous expectation (a dict shaped like observe()), returns (code, new expectation, notes)"""
    s = dict(st)
    sens, k = cfg["sens"], cfg["k"]
    fc, tcol = sorted(st["fcols"]), (st["tcols"][0] if st["tcols"] else "y")
    if op[0] == "s":
        rows, cols, target = op[1], op[2], op[3]
        s["fcols"] = [c for c in cols if c != target]; s["tcols"] = [c for c in cols if c == target]
        s["len"] = len(rows); s["ref"] = list(e["ref"]); s["ff"] = (len(rows) - 1) / len(rows); s["md"] = s["ref"][0]
        s["mdq"] = Fraction(s["md"])
        return 0, s
    if op[0] in ("u", "un"):
        if st["wait"]:
            return 1, s
        if (op[1] if op[0] == "un" else 1) != 1:
            return 3, s
        if s["ds"] == "drift":
            s["ds"] = None; s["since"] = 0; s["md"] = s["ref"][0]; s["mdq"] = Fraction(s["md"])
        s["total"] += 1; s["since"] += 1
        sig = expected_signal(cfg, op, clf0)
        s["sig"] = sig
        s["md"] = s["ff"] * s["md"] + (1 - s["ff"]) * sig
        ffq = Fraction(s["len"] - 1, s["len"])
        s["mdq"] = ffq * s["mdq"] + (1 - ffq) * Fraction(sig)
        if abs(s["md"] - s["ref"][0]) > sens * s["ref"][1]:
            s["ds"] = "warning"; s["wait"] = True
        return 0, s
    # label
    a, b, y, mode = op[1:5]
    if not st["wait"]:
        return 2, s
    if mode in ("rows0", "rows2"):
        return 3, s
    lab = label_columns(mode, fc, tcol)
    refc = st["fcols"] + st["tcols"]
    if len(lab) != len(refc) or set(lab) != set(refc):
        return 4, s
    s["ds"] = None
    # the verdict is owed to the classifier's accuracy on the labelled samples AS THE CALLER NAMED THEM: recomputed here from
    # the call's own values addressed by column name (never from what the implementation stored or handed to predict)
    named = label_values(op, fc, tcol)
    s["rows"] = st["rows"] + [[named[fc[0]], named[fc[1]], named[tcol], named_correct(cfg, named, fc, tcol, clf0), mode, named]]
    if st["nrows"] == 0:
        s["ocols"] = refc          # oracle_data keeps the reference's column order (labeled_sample[reference_columns])
    s["nrows"] = st["nrows"] + 1
    if s["nrows"] == st["req"]:
        acc = sum(1 for r in s["rows"] if r[3]) / s["nrows"]
        s["acc_lab"] = acc
        # for the distribution counters / messages only: the accuracy one gets by reading the features by position in the
        # column order of the phase's first sample (= oracle_data's order)
        pos = [c for c in s["ocols"] if c != tcol]
        s["acc_pos"] = sum(1 for r in s["rows"] if named_correct(cfg, r[5], pos, tcol, clf0)) / s["nrows"]
        s["phase_modes"], s["phase_cols"] = [r[4] for r in s["rows"]], list(s["ocols"])
        if st["ref"][2] - acc > sens * st["ref"][3]:
            s["ds"] = "drift"
        s["fcols"] = [c for c in s["ocols"] if c != tcol]; s["tcols"] = [c for c in s["ocols"] if c == tcol]
        if s["nrows"] < k:
            return 6, s
        s["resolved_rows"] = s["rows"]; s["resolved_cols"] = s["ocols"]
        s["len"] = s["nrows"]; s["ref"] = list(e["ref"]); s["ff"] = (s["len"] - 1) / s["len"]; s["md"] = s["ref"][0]
        s["mdq"] = Fraction(s["md"])
        s["rows"] = []; s["nrows"] = 0; s["wait"] = False; s["ocols"] = None
    return 0, s


def kfold_tests(n, k):
    """KFold(n_splits=k, shuffle=True, random_state=42): test index sets, re-derived from the documented procedure"""
    idx = np.arange(n)
    np.random.RandomState(42).shuffle(idx)
    sizes = [n // k + (1 if i < n % k else 0) for i in range(k)]
    out, start = [], 0
    for sz in sizes:
        out.append(sorted(int(i) for i in idx[start:start + sz])); start += sz
    return out


def recompute_stats(cfg, rows, cols, target):
    """reference statistics from first principles (exact rationals over the folds); None when a decision of a fold's
    classifier on a test sample hinges on the rounding of its threshold (SVC: within 1e-9 of a boundary)"""
    n, k = len(rows), cfg["k"]
    fi = [i for i, c in enumerate(cols) if c != target]
    ti = cols.index(target)
    mds, accs = [], []
    for test in kfold_tests(n, k):
        train = [i for i in range(n) if i not in test]
        if cfg["clf"] == "svc":
            clf = SVC(kernel="linear", C=1.0).fit(np.array([[rows[i][j] for j in fi] for i in train], dtype=float),
                                                  np.array([rows[i][ti] for i in train]))
            w = np.array(clf.coef_[0]); b = clf.intercept_[0] / w[1]
            sig, ok = [], []
            for i in test:
                x = np.array([rows[i][j] for j in fi], dtype=float)
                m = abs(float(np.dot(w, x) + b))
                if abs(m - 1) < 1e-9 or abs(float(clf.decision_function([x])[0])) < 1e-9:
                    return None
                sig.append(1 if m <= 1 else 0)
                ok.append(int(clf.predict([x])[0]) == int(rows[i][ti]))
        else:
            # the threshold exactly (rationals) and as the classifier's float expression evaluates it
            def thr_of(conv):
                a0 = [conv(rows[i][fi[0]]) for i in train if rows[i][ti] == 0]
                a1 = [conv(rows[i][fi[0]]) for i in train if rows[i][ti] == 1]
                if a0 and a1:
                    return (sum(a0) / len(a0) + sum(a1) / len(a1)) / 2
                av = [conv(rows[i][fi[0]]) for i in train]
                return sum(av) / len(av)
            tq, tf = thr_of(Fraction), Fraction(thr_of(float))
            sig, ok = [], []
            for i in test:
                x = Fraction(rows[i][fi[0]])
                def decide(t):
                    d = abs(x - t)
                    sg = Fraction(soft_value(d, Fraction(W0))) if cfg.get("soft") else (1 if d <= Fraction(W0) else 0)
                    return sg, int(x > t) == int(rows[i][ti])
                if decide(tq) != decide(tf):
                    return None          # the decision hinges on the rounding of the fold's threshold
                sg, o = decide(tq)
                sig.append(sg); ok.append(o)
        mds.append(Fraction(sum(sig)) / len(sig)); accs.append(Fraction(sum(1 for o in ok if o), len(ok)))
    def ms(v):
        m = sum(v) / len(v)
        return float(m), math.sqrt(float(sum((x - m) ** 2 for x in v) / len(v)))
    md, mdsd = ms(mds); acc, accsd = ms(accs)
    return [md, mdsd, acc, accsd]


FIELDS = ["ds", "wait", "nrows", "req", "len", "total", "since", "fcols", "tcols"]


def direct_check(case, obs):
    if "__exception__" in obs:
        return [f"harness-level exception {obs['__exception__']}: {obs['__message__']}"]
    cfg = case["cfg"]
    clf0 = svc_for(cfg) if cfg["clf"] == "svc" else None
    msgs = []
    st0 = dict(obs["start"]); st0["rows"] = []; st0["mdq"] = Fraction(st0["md"]); st0["ocols"] = None
    n0 = len(cfg["ref"])
    if st0["len"] != n0 or not feq(st0["ff"], (n0 - 1) / n0) or not feq(st0["md"], st0["ref"][0]) \
            or st0["req"] != (cfg["req"] if cfg["req"] is not None else n0) or st0["wait"] or st0["nrows"] or st0["ds"] is not None:
        msgs.append(f"state after the first set_reference is not the documented one: {obs['start']}")
    msgs += validate_ref(cfg, cfg["ref"], cfg.get("cols", ["a", "b", "y"]), cfg.get("target", "y"), obs["start"]["ref"], "initial")
    specs = {0: st0}
    for nid, pid, op, prev, e in walk(case, obs):
        st = specs[pid]
        code, s = spec_step(cfg, st, op, e, clf0)
        specs[nid] = s
        m = []
        if e["code"] == 9:
            m.append(f"unexpected exception {e['exc']}")
        elif e["code"] == 5:
            if not (1 <= code <= 4):
                m.append("ValueError, but the protocol accepts this call")
        elif e["code"] != code:
            m.append(f"outcome {outcome(e['code'])}, the protocol says {outcome(code)}")
        if 1 <= e["code"] <= 5 and not e["same"]:
            m.append(f"refused call ({outcome(e['code'])}) changed the detector's state")
        for f in FIELDS:
            if e[f] != s[f]:
                m.append(f"{f} = {e[f]!r}, the protocol says {s[f]!r}")
        for f in ("ff", "md"):
            if not feq(e[f], s[f]):
                m.append(f"{f} = {e[f]!r}, the protocol says {s[f]!r}")
        if not all(feq(x, y) for x, y in zip(e["ref"], s["ref"])):
            m.append(f"reference_distribution = {e['ref']}, the protocol says {s['ref']}")
        if abs(Fraction(e["md"]) - s["mdq"]) > Fraction(1, 10**12):
            m.append(f"curr_margin_density {e['md']!r} is not the exponentially forgotten average {float(s['mdq'])!r}")
        if op[0] == "u" and code == 0 and e["code"] == 0:
            # expected signal: the margin function on the sample's features addressed by name (op[1] = canonically first)
            if e["sig"] is None or float(e["sig"]) != float(s["sig"]) or e["nsig"] != 1:
                m.append(f"margin function called {e['nsig']} times on the classifier, value {e['sig']!r}; expected once, {s['sig']!r}")
            lvl, thr = abs(s["md"] - st_ref(st, s)[0]), cfg["sens"] * st_ref(st, s)[1]
            if lvl == thr:
                bump("md_threshold_ties")
        if op[0] == "l" and code in (0, 6) and "acc_lab" in s:
            # which side of the threshold the accuracy by column name / by position in oracle_data's order falls on
            thr = cfg["sens"] * st["ref"][3]
            v_name, v_pos = st["ref"][2] - s["acc_lab"] > thr, st["ref"][2] - s["acc_pos"] > thr
            modes = s["phase_modes"]
            if e["ds"] != s["ds"]:
                m.insert(0, f"verdict after the {len(modes)} labelled samples (column orders {modes}): the classifier's accuracy on them, features "
                         f"addressed by name, is {s['acc_lab']!r} against the reference's {st['ref'][2]!r} +- {st['ref'][3]!r} at sensitivity "
                         f"{cfg['sens']!r}, so drift_state must be {s['ds']!r}; the accuracy with the features taken by position in the "
                         f"first sample's column order {s['phase_cols']} would be {s['acc_pos']!r}")
            if len(set(modes)) > 1:
                bump("resolutions_with_mixed_column_orders")
            if modes[0] in PERMS:
                bump("resolutions_first_label_permuted")
            if modes[0] in SWAPS:
                bump("resolutions_first_label_features_swapped")
                if len(set(modes)) > 1:
                    bump("resolutions_first_label_features_swapped_later_in_other_order")
                if v_pos and not v_name:
                    bump("resolutions_where_positional_accuracy_would_report_false_drift")
                if v_name and not v_pos:
                    bump("resolutions_where_positional_accuracy_would_miss_drift")
            elif any(x in SWAPS for x in modes):
                bump("resolutions_first_label_reference_order_later_features_swapped")
        if op[0] == "l" and code == 0 and e["code"] == 0:
            if "acc_lab" in s and st["ref"][2] - s["acc_lab"] == cfg["sens"] * st["ref"][3]:
                bump("acc_threshold_ties")
            if s["nrows"] > 0:
                want = [[float(r[0]), float(r[1]), float(r[2])] for r in s["rows"]]
                got = sorted_rows(e, s["ocols"])
                if got != want:
                    m.append(f"oracle_data rows {got}, expected the accepted labels {want}")
            elif "resolved_rows" in s:
                # the labelled rows became the reference; validate the oracle values by recomputation
                rows = [[float(r[0]), float(r[1]), int(r[2])] for r in s["resolved_rows"]]
                lab = s["resolved_cols"]
                canon = sorted(st["fcols"]) + [st["tcols"][0]]
                rows_in_lab_order = [[r[canon.index(c)] for c in lab] for r in rows]
                m += validate_ref(cfg, rows_in_lab_order, lab, st["tcols"][0], e["ref"], "resolution")
        for k2 in ("resolved_rows", "resolved_cols", "acc_lab", "acc_pos", "phase_modes", "phase_cols"):
            s.pop(k2, None)
        if op[0] == "s" and e["code"] == 0:
            m += validate_ref(cfg, op[1], op[2], op[3], e["ref"], "set_reference")
        if m:
            where = compact(path_to(case, obs, nid))
            msgs += [f"after {where}: {x}" for x in m]
        if len(msgs) > 4:
            break
    return msgs


def st_ref(st, s):
    """reference used by the warning test of an update: the one before the call (updates never replace it)"""
    return st["ref"]


def sorted_rows(e, ocols):
    """oracle_data rows in canonical column order (features sorted, then target)"""
    if e["odata"] is None:
        return None
    fc, tcol = e["canon"]
    order = [e["ocols"].index(c) for c in fc + [tcol]]
    return [[row[i] for i in order] for row in e["odata"]]


def validate_ref(cfg, rows, cols, target, ref, where):
    bump("reference_statistics_checked")
    # feature order seen by the classifier is the frame's; the threshold classifier reads the first feature column
    r = recompute_stats(cfg, rows, list(cols), target)
    if r is None:
        bump("reference_statistics_on_a_boundary_skipped")
        return []
    bad = [i for i in range(4) if abs(r[i] - ref[i]) > 1e-12]
    if bad:
        return [f"{where}: k-fold reference statistics {ref} differ from the recomputation {r}"]
    return []


def outcome(c):
    return {0: "accepted", 1: "refused (waiting for labels)", 2: "refused (no warning pending)", 3: "refused (not exactly one row)",
            4: "refused (columns differ)", 5: "ValueError", 6: "KFold ValueError (fewer labels than folds)", 9: "other exception"}.get(c, str(c))


def compact(path):
    out = []
    for op in path:
        if op[0] == "s":
            out.append(f"s[{len(op[1])}x{','.join(op[2])}]")
        else:
            out.append(op[0] + "(" + ",".join(str(x) for x in op[1:]) + ")")
    return " ".join(out[-12:]) + (f" (call {len(path)})" if len(path) > 12 else "")


# ------------------------------------------------------------------ Coq terms
def cid(c):
    if c not in COLID:
        COLID[c] = 100 + len(COLID)
    return COLID[c]


def st4(ref):
    return "(st4 " + " ".join(G.flt(x) for x in ref) + ")"


def exp_term(e):
    cols = f"(Some ({G.zlist([cid(c) for c in e['fcols']])}, {G.zlist([cid(c) for c in e['tcols']])}))"
    return (f"(mk_exp {e['code']} {G.ds(e['ds'])} {G.boolc(e['wait'])} {G.z(e['nrows'])} {G.z(e['req'])} {G.z(e['len'])} "
            f"{st4(e['ref'])} {G.flt(e['ff'])} {G.flt(e['md'])} {G.z(e['total'])} {G.z(e['since'])} {cols})")


def op_term(cfg, op, prev, e, clf0):
    fc, tcol = e["canon"]
    if op[0] == "s":
        return f"(o_set {G.zlist([cid(c) for c in op[2]])} {cid(op[3])} {len(op[1])} {st4(e['ref'])})"
    if op[0] == "un":
        return f"(o_upd {G.z(op[1])} 0)"
    if op[0] == "u":
        # the value the implementation's margin function returned (when it was not called: the expected one)
        sig = e["sig"] if e["sig"] is not None else expected_signal(cfg, op, clf0)
        return f"(o_upd 1 {G.flt(sig)})"
    a, b, y, mode = op[1:5]
    nrows = {"rows0": 0, "rows2": 2}.get(mode, 1)
    lab = label_columns(mode, fc, tcol)
    resolved = e["code"] == 0 and prev["wait"] and not e["wait"]
    return (f"(o_lab {nrows} {G.zlist([cid(c) for c in lab])} {G.boolc(expected_correct(cfg, a, b, y, clf0))} "
            f"{st4(e['ref']) if resolved else 'z4'})")


def tree_term(case, obs, clf0):
    cfg = case["cfg"]
    def sub(prev, children):
        items = []
        for i, e, ch in children:
            op = case["tree"]["alpha"][i]
            items.append(f"({op_term(cfg, op, prev, e, clf0)}, {exp_term(e)}, {sub(e, ch)})")
        return "Node " + G.lst(items)
    inner = sub(obs["edges"][-1] if obs["edges"] else obs["start"], obs["tree"]) if obs.get("tree") else "Node []"
    prevs = [obs["start"]] + obs["edges"]
    for i in range(len(obs["ops"]) - 1, -1, -1):
        e = obs["edges"][i]
        inner = f"Node [({op_term(cfg, obs['ops'][i], prevs[i], e, clf0)}, {exp_term(e)}, {inner})]"
    return "(" + inner + ")"


def coq_term(case, obs, head="chk_md3"):
    if "__exception__" in obs:
        return "false"
    cfg = case["cfg"]
    if any(e["code"] == 9 for _, _, _, _, e in walk(case, obs)):
        return "false"
    clf0 = svc_for(cfg) if cfg["clf"] == "svc" else None
    s0 = dict(obs["start"], code=0)
    cols = cfg.get("cols", ["a", "b", "y"])
    req = "None" if cfg["req"] is None else f"(Some {G.z(cfg['req'])})"
    return (f"{head} {G.z(cfg['k'])} {G.flt(cfg['sens'])} {req} {G.zlist([cid(c) for c in cols])} {cid(cfg.get('target', 'y'))} "
            f"{len(cfg['ref'])} {st4(obs['start']['ref'])} {exp_term(s0)} {tree_term(case, obs, clf0)}")


def show_term(case, obs):
    return coq_term(case, obs, head="show_md3")


# ------------------------------------------------------------------ classification of cases
def summarize(case, obs):
    c = {"edges": 0, "warnings": 0, "resolutions": 0, "drifts": 0, "refusals": 0, "kfold_failures": 0, "accepted_labels": 0,
         "accepted_updates": 0, "set_references": 0, "permuted_labels_accepted": 0}
    for nid, pid, op, prev, e in walk(case, obs):
        c["edges"] += 1
        if 1 <= e["code"] <= 5:
            c["refusals"] += 1; c[f"refusal_{e['code']}"] = c.get(f"refusal_{e['code']}", 0) + 1
        if e["code"] == 6:
            c["kfold_failures"] += 1
        if e["code"] == 0:
            if op[0] == "u":
                c["accepted_updates"] += 1
                if e["wait"]:
                    c["warnings"] += 1
            elif op[0] == "l":
                c["accepted_labels"] += 1
                if op[4] in PERMS:
                    c["permuted_labels_accepted"] += 1
                if op[4] in SWAPS:
                    c["feature_swapped_labels_accepted"] = c.get("feature_swapped_labels_accepted", 0) + 1
                if not e["wait"]:
                    c["resolutions"] += 1
                    if e["ds"] == "drift":
                        c["drifts"] += 1
            elif op[0] == "s":
                c["set_references"] += 1
    return c


def nontrivial(case, obs):
    if "__exception__" in obs:
        return False
    c = summarize(case, obs)
    for k, v in c.items():
        bump(k, v)
    bump("cases_" + case.get("family", "?"))
    return c["warnings"] > 0 and c["refusals"] > 0 and c["resolutions"] > 0


def extra(ctx):
    out = {"impl_distribution": dict(STATS)}
    # the quantifier restriction of the pre-study, witnessed on the implementation (not a violation of the property:
    # the detector was configured with fewer labels than folds)
    cfg = dict(CFG["A"], k=3, req=2)
    INDEX_MODE[0] = None
    det = make(cfg)
    trace = []
    for op in [["u", 0.25, 0.0], ["l", 2.0, 0.0, 1, "ok"], ["l", 2.0, 0.0, 1, "ok"], ["l", 2.0, 0.0, 1, "ok"], ["u", 2.0, 0.0]]:
        e = apply_call(det, op)
        trace.append([compact([op]), outcome(e["code"]), e["wait"], e["nrows"]])
    out["restriction_witness_oracle_length_below_k"] = {"k": 3, "oracle_data_length_required": 2, "trace": trace}
    return out


# ------------------------------------------------------------------ generators
REF4 = [[-2.0, 0.0, 0], [2.0, 0.0, 1], [-3.0, 0.0, 0], [3.0, 0.0, 1]]                    # md 0, md_std 0, acc 1, acc_std 0
REF6 = [[-2.0, 0.0, 0], [2.0, 0.0, 1], [-0.25, 0.0, 0], [3.0, 0.0, 1], [-3.0, 0.0, 0], [0.25, 1.0, 1]]
REF5 = [[-2.0, 0.0, 0], [0.5, 0.0, 1], [-0.25, 0.0, 1], [3.0, 0.0, 1], [-3.0, 0.0, 0]]

CFG = {
    "A": {"clf": "thr", "k": 2, "sens": 2, "req": 2, "ref": REF4},
    "B": {"clf": "thr", "k": 3, "sens": 0.2, "req": 3, "ref": REF6},
    "C": {"clf": "thr", "k": 2, "sens": 0.5, "req": 3, "ref": REF5, "soft": True},
    "D": {"clf": "thr", "k": 2, "sens": 2, "req": None, "ref": REF4[:2]},
    "E": {"clf": "thr", "k": 3, "sens": 2, "req": 2, "ref": REF4},                       # oracle length below k
    "F": {"clf": "thr", "k": 2, "sens": 0, "req": 1, "ref": REF6},                       # one label can never be split
    "G": {"clf": "thr", "k": 2, "sens": 1, "req": 3, "ref": REF4},                       # three labels: orders mix within a phase
    "H": {"clf": "thr", "k": 2, "sens": 0.5, "req": 3, "ref": REF5},                     # acc_std > 0: drift iff accuracy < 1/2
}

U1, U0, UH = ["u", 0.25, 0.0], ["u", 2.0, 0.0], ["u", 0.75, 0.0]
LC, LW, LI, LIW = ["l", 2.0, 0.0, 1, "ok"], ["l", 2.0, 0.0, 0, "ok"], ["l", 0.25, 1.0, 1, "ok"], ["l", -0.25, 1.0, 1, "ok"]
LN = ["l", -2.0, 0.0, 0, "ok"]
def lmode(m, base=LC):
    return base[:4] + [m]
# labelled samples whose two features disagree in sign: the threshold classifier reads the first feature it is handed, so
# handing it the columns in another order than the one it was trained on turns every correct prediction into a wrong one and
# vice versa (all-correct phase: accuracy 1 by name, 0 by position -> false drift; all-wrong phase: missed drift)
XC, XN, XW, XV = ["l", 2.0, -1.0, 1, "ok"], ["l", -2.0, 1.0, 0, "ok"], ["l", 2.0, -1.0, 0, "ok"], ["l", -2.0, 1.0, 1, "ok"]
PC, PW = ["l", 2.0, 1.0, 1, "ok"], ["l", 2.0, 1.0, 0, "ok"]      # features agree: correct / wrong whichever column is read
SREF = ["s", [[-1.0, 0.0, 0], [1.0, 0.0, 1], [0.25, 0.0, 1]], ["a", "b", "y"], "y"]
SREN = ["s", [[-1.0, 0.0, 0], [1.0, 0.0, 1], [4.0, 0.0, 1], [-0.25, 0.0, 0]], ["a2", "b2", "t"], "t"]


def trees(ctx):
    q = not ctx.thorough
    plan = [
        ("A", [U1, U0, LC, LW, lmode("renamed")], 5 if q else 7),
        ("A", [U1, U0, LC, LN, LI, LIW], 4 if q else 5),
        ("B", [U1, U0, LC, LW, LI], 5 if q else 6),
        ("C", [U1, U0, UH, LN, LW, LI], 4 if q else 5),
        ("D", [U1, U0, LC, LW], 5 if q else 7),
        ("D", [U1, LC, LW], 7 if q else 9),
        ("A", [U1, LC, LW, lmode("perm", LW), lmode("missing"), lmode("extra"), lmode("rows2"), ["un", 2]], 3 if q else 4),
        ("B", [U1, U0, LW, lmode("perm", LN), lmode("rows0"), ["un", 0], SREF], 3 if q else 4),
        ("A", [U1, U0, LC, LW, SREN, SREF], 3 if q else 5),
        ("E", [U1, U0, LC, LW], 4 if q else 6),
        ("F", [U1, U0, LC, LW], 3 if q else 5),
        # every column order of a labelled sample, mixed within one phase in every way (first sample permuted and the later
        # ones in reference order, and the other way round), on samples whose verdict depends on which column the
        # classifier reads; the depth covers warning + the whole phase + the first calls on the adopted reference
        ("A", [U1, XC, XW, lmode("swap", XC), lmode("swap", XW), lmode("tswap", XN), lmode("mid", XV), lmode("midswap", XC)], 3 if q else 4),
        ("G", [U1, XC, lmode("tswap", XW), lmode("midswap", XN), lmode("swap", XC), lmode("mid", XW)], 4 if q else 6),
        ("H", [U1, PC, lmode("swap", XC), lmode("tswap", XV), lmode("perm", XW), lmode("swap", PW)], 4 if q else 5),
    ]
    if EXCLUDED_ON:
        plan.append(("A", [U1, U0, ["u", 0.25, 5.0, "swap"], ["u", 5.0, 0.25, "swap"], XC, lmode("swap", XC)], 6))
    cases = []
    for name, alpha, depth in plan:
        # one case per word of length `split`, so that cases stay small and run in parallel shards
        split = max(0, depth - 4)
        for pre in itertools.product(alpha, repeat=split):
            cases.append({"family": "tree", "cfg": CFG[name], "ops": [list(o) for o in pre],
                          "tree": {"alpha": alpha, "depth": depth - split}})
        ctx.stats[f"tree{len(ctx.stats)}_config{name}_alphabet{len(alpha)}_depth{depth}_words"] = len(alpha) ** depth
    return cases


def balanced_labels(n, k, rng):
    """labels for n rows such that every training fold of the k-fold split contains both classes (needed by SVC.fit)"""
    tests = kfold_tests(n, k)
    for _ in range(200):
        y = [rng.randint(0, 1) for _ in range(n)]
        if all(len({y[i] for i in range(n) if i not in t}) == 2 for t in tests):
            return y
    return None


def random_history(ctx, svc=False):
    rng = ctx.rng
    k = rng.choice([2, 2, 3, 5])
    n0 = rng.randint(k if not svc else max(k, 4), 12)
    req = rng.choice([None, k, k + 1, 2 * k, 7, 4]) if not svc else rng.choice([None, max(k, 4), 6])
    if req is not None and req < k:
        req = k
    if not svc and rng.random() < 0.06:
        req = rng.randint(1, k - 1) if k > 1 else 1
    sens = rng.choice([0, 0.25, 0.5, 1, 1.5, 2, 3])
    soft = (not svc) and rng.random() < 0.3
    def feat(inside, side):
        if svc:
            a = side * (rng.choice([0.05, 0.1, 0.2]) if inside else rng.choice([2.0, 3.0, 4.0])) + rng.choice([-0.01, 0.0, 0.01])
            return [a, rng.choice([-0.5, 0.25, 0.5, 1.0])]
        mag = rng.choice([0.0, 0.125, 0.25, 0.5]) if inside else rng.choice([0.75, 1.0, 2.0, 3.5])
        return [side * mag if mag else 0.0, rng.choice([0.0, 1.0, -1.0])]
    if svc:
        y0 = balanced_labels(n0, k, rng)
        if y0 is None:
            return None
        ref = [feat(rng.random() < 0.3, 1 if y else -1) + [y] for y in y0]
    else:
        ref = []
        for _ in range(n0):
            y = rng.randint(0, 1)
            side = (1 if y else -1) * (1 if rng.random() < 0.85 else -1)
            ref.append(feat(rng.random() < 0.3, side) + [y])
    cfg = {"clf": "svc" if svc else "thr", "k": k, "sens": sens, "req": req, "ref": ref, "soft": soft}
    nreq = req if req is not None else n0
    ops, waiting, collected = [], False, 0   # the generator's own guess of the phase; only steers the mix of calls
    pin = rng.choice([0.1, 0.3, 0.6])
    pcorrect = rng.choice([0.2, 0.5, 0.9])
    pattern = None
    # column orders of the labelled samples: how often a phase opens with a sample whose features are swapped, how often any
    # sample comes in one of the five non-reference orders, and how often the second feature contradicts the first (so that
    # the accuracy by position in oracle_data's column order differs from the accuracy by name)
    pfirst, porder, panti = rng.choice([0.0, 0.3, 0.6]), rng.choice([0.0, 0.15, 0.5]), rng.choice([0.2, 0.5, 0.9])
    noncanon = False
    names = ("a", "b", "y")
    det = make(cfg)                          # the implementation tells the generator the phase (two-pass generation)
    rec = {"start": observe(det), "edges": [], "tree": []}
    length = rng.randint(20, ctx.scale(120, 250))
    for _ in range(length):
        r = rng.random()
        if noncanon and rng.random() < 0.3:
            # the adopted reference has its features in the other order (a phase opened with a feature-swapped sample);
            # labels are not generated in that state (skip_call), so after a few calls the user sets a reference again
            if svc:
                op = ["s", [list(x) for x in ref], ["a", "b", "y"], "y"]
            else:
                m = rng.randint(k, 8)
                ys = [rng.randint(0, 1) for _ in range(m)]
                op = ["s", [feat(rng.random() < 0.4, (1 if y else -1)) + [y] for y in ys], list(names), names[2]]
        elif r < 0.02 and not svc:
            rows = []
            m = rng.randint(k, 8)
            for _ in range(m):
                y = rng.randint(0, 1)
                rows.append(feat(rng.random() < 0.4, (1 if y else -1)) + [y])
            if rng.random() < 0.5:
                names = ("a2", "b2", "t") if names[0] == "a" else ("a", "b", "y")
            op = ["s", rows, list(names), names[2]]
        elif (not waiting) != (rng.random() < 0.15):
            # an update: the legal call when not waiting; 15 % of the calls are the illegal kind for the phase
            if rng.random() < 0.05:
                op = ["un", rng.choice([0, 2, 3])]
            else:
                if rng.random() < 0.03:
                    pin = rng.choice([0.1, 0.3, 0.6, 0.9])
                op = ["u"] + feat(rng.random() < pin, rng.choice([-1, 1]))
                # update() has no column test at all and reads the sample by position (X.to_numpy()[0]): a one-row frame
                # whose two feature columns stand in the other order is accepted and the margin signal is computed on the
                # permuted sample (unchanged library; see the note at ORDERS).  Left out of the generated cases.
                if EXCLUDED_ON and rng.random() < 0.2:
                    op.append("swap")
        else:
            mode = "ok"
            u = rng.random()
            if u < 0.25:
                mode = rng.choice(["perm", "missing", "renamed", "extra", "rows2", "rows0"])
            elif collected == 0 and rng.random() < pfirst:
                mode = rng.choice(SWAPS)
            elif rng.random() < porder:
                mode = rng.choice(PERMS)
            if svc:
                if collected == 0 or pattern is None:
                    pattern = balanced_labels(nreq, k, rng) or [i % 2 for i in range(nreq)]
                y = pattern[min(collected, nreq - 1)]
            else:
                y = rng.randint(0, 1)
            ok = rng.random() < pcorrect
            side = (1 if y else -1) * (1 if ok else -1)
            f = feat(rng.random() < 0.35, side)
            if rng.random() < panti:
                f[1] = (-1.0 if f[0] > 0 else 1.0) * rng.choice([0.5, 1.0] if svc else [1.0, 2.0])
            op = ["l"] + f + [y, mode]
        if skip_call(det, op):
            continue
        e = apply_call(det, op)
        ops.append(op); rec["edges"].append(e)
        if e["code"] in (5, 6, 9) and svc:
            return None
        waiting, collected = e["wait"], e["nrows"]
        noncanon = e["fcols"] != sorted(e["fcols"])
        if e["code"] == 0 and op[0] == "l" and not e["wait"]:
            pcorrect = rng.choice([0.2, 0.5, 0.9])
    case = {"family": "svc" if svc else "random", "cfg": cfg, "ops": ops, "tree": None}
    rec["ops"] = list(ops)
    _OBS_CACHE[id(case)] = (case, rec)     # run_impl would repeat exactly these calls; replay / shrinking re-execute
    return case


def two_pass(ctx, case):
    """set the sensitivity to exactly level / std for a level the history attained (strict-comparison ties), for the
    warning test (|md - md_ref| vs md_std) or the confirmation test (acc_ref - acc vs acc_std)"""
    hit = _OBS_CACHE.get(id(case))
    obs = hit[1] if hit is not None and hit[0] is case else run_impl(case)
    cfg = case["cfg"]
    cands = []
    prev, rows = obs["start"], []
    for op, e in zip(obs["ops"], obs["edges"]):
        if e["code"] == 0 and op[0] == "u":
            lvl, sd = abs(e["md"] - prev["ref"][0]), prev["ref"][1]
            if sd > 0 and lvl > 0 and (lvl / sd) * sd == lvl and lvl / sd < 50:
                cands.append(lvl / sd)
        if e["code"] == 0 and op[0] == "l":
            rows = rows + [expected_correct(cfg, op[1], op[2], op[3])]
            if not e["wait"]:
                lvl, sd = prev["ref"][2] - sum(rows) / len(rows), prev["ref"][3]
                if sd > 0 and lvl > 0 and (lvl / sd) * sd == lvl and lvl / sd < 50:
                    cands.append(lvl / sd)
                rows = []
        prev = e
    if not cands:
        return None
    return {"family": "two_pass", "cfg": dict(cfg, sens=ctx.rng.choice(cands[:6])), "ops": case["ops"], "tree": None}


def gen_cases(ctx):
    STATS.clear(); _OBS_CACHE.clear()
    cases = trees(ctx)
    rnd = []
    for _ in range(ctx.scale(30, 400)):
        c = random_history(ctx)
        if c:
            rnd.append(c)
    nsvc = 0
    for _ in range(ctx.scale(8, 60)):
        c = random_history(ctx, svc=True)
        if c:
            rnd.append(c); nsvc += 1
    tp = 0
    for c in list(rnd[: ctx.scale(15, 200)]):
        if c["cfg"]["clf"] == "thr":
            c2 = two_pass(ctx, c)
            if c2:
                rnd.append(c2); tp += 1
    ctx.stats.update({"random_histories": len(rnd) - nsvc - tp, "svc_histories": nsvc, "two_pass_tie_histories": tp,
                      "tree_cases": len(cases)})
    import random
    r2 = random.Random(ctx.seed + 11)
    for c in cases + rnd:
        if r2.random() < 0.35:
            c["index"] = "rev"
            _OBS_CACHE.pop(id(c), None)       # (an observation made while generating the history used the default index)
    ctx.stats["reference_with_non_default_index"] = sum(1 for c in cases + rnd if c.get("index"))
    return cases + rnd


def shrink_candidates(case):
    t = case.get("tree")
    ops = case["ops"]
    if t and t["depth"] > 0:
        # descend into one child, or cut the depth
        for op in t["alpha"]:
            yield dict(case, ops=ops + [op], tree=dict(t, depth=t["depth"] - 1))
        return
    if t:
        yield dict(case, tree=None)
    for kk in range(len(ops) - 1, 0, -1):
        yield dict(case, ops=ops[:kk])
        break
    if len(ops) > 3:
        yield dict(case, ops=ops[: len(ops) // 2])
    for i in range(min(len(ops), 80)):
        yield dict(case, ops=ops[:i] + ops[i + 1:])


def signature(case, obs, msgs):
    cfg = case["cfg"]
    return {"clf": cfg["clf"], "req_below_k": bool(cfg["req"] is not None and cfg["req"] < cfg["k"])}


def witnesses(ctx):
    """recorded finding: with oracle_data_length_required < k the completing label crashes inside KFold after the
    label was stored and the state changed; the detector then waits forever (known_findings.json: C19-oracle-below-k)"""
    cfg = dict(CFG["A"], k=3, req=2)
    det = make(cfg)
    trace = []
    for op in [["u", 0.25, 0.0], ["l", 2.0, 0.0, 1, "ok"], ["l", 2.0, 0.0, 1, "ok"], ["l", 2.0, 0.0, 1, "ok"], ["u", 2.0, 0.0]]:
        e = apply_call(det, op)
        trace.append([compact([op]), outcome(e["code"]), e["wait"], e["nrows"]])
    still_waiting = bool(trace[-1][2])
    crashed = any(t[1] not in ("ok", "accepted") and "fold" in str(t[1]).lower() or str(t[1]).lower().startswith("crash") for t in trace)
    if still_waiting and crashed:
        yield ({"finding": "oracle-length-below-k"},
               "MD3(k=3, oracle_data_length_required=2): the 2nd label raises inside the k-fold split after it was stored; "
               "the warning is never resolved and every later update is refused", {"cfg": cfg, "trace": trace})
