"""C09 — kdq-tree detectors alarm exactly when the leaf divergence exceeds a bootstrap bound."""
import math, contextlib
from fractions import Fraction
import numpy as np
import pandas as pd
import scipy.stats
from menelaus.data_drift import KdqTreeStreaming, KdqTreeBatch
from menelaus.partitioners.KDQTreePartitioner import KDQTreePartitioner
from . import coqgen as G
from .common import rebound, feq, lifecycle_obs, priv, obs_term
from .detectors import seed_of
from .c08 import kl_exact, close

ID = "C09"
PROPS = ["Prop_C09"]
IMPORTS = ("From MV Require Import Base Num NumFloat Lifecycle KdqTree KdqDet Corr_C08 Corr_C09.\n"
           "From Coq Require Import PrimFloat.")
CORR_NAME = ("Corr_C09: KdqDet.v (streaming / batch state machines over KdqTree.v, np.quantile(method='nearest') modelled exactly; "
             "scipy.stats.entropy and the bootstrap divergences as logged oracles) = kdq_tree.py")
TRUSTED = ["Coq 8.16.1 kernel + vm_compute + primitive floats",
           "hand-written model coq/KdqDet.v (on coq/KdqTree.v) tied to kdq_tree.py by differential execution after every update / "
           "set_reference: drift_state, both counters, _test_data_size, _drift_counter, _test_dist and _critical_dist bit-for-bit, "
           "arguments of _get_critical_kld, public leaf counts (to_plotly_dataframe) of reference and test window, ref_data",
           "scipy.stats.entropy is an oracle: a table of the calls logged from the implementation, looked up by the arguments the "
           "model computes (bit-for-bit); its values are validated against a 60-digit recomputation in the direct check",
           "the bootstrap divergences (np.random.choice, np.unique, pandas merge, scipy.stats.entropy inside _get_critical_kld) are an "
           "oracle logged from the implementation; validated by an independent re-implementation under the same seed on every run and "
           "distributionally in the thorough tier; np.quantile(method='nearest') itself is modelled (Corr_C09.frint = np.around)",
           "harness/c09.py, harness/c08.py (tree helpers), harness/coqgen.py"]
RULE = ("streaming: 1-3 column streams of 5w-14w samples, base distribution interleaved with bursts of a shifted / rescaled component whose "
        "lengths straddle persistence*window_size (short bursts that fall back under the bound, long ones that alarm), several epochs; "
        "window_size in {10,20,30} (+ tiny 3-6, + 25/50 for persistence*w rounding corners), persistence in {0,.05,.1,.2,.28,.5,.58,1.5}, "
        "alpha in {.01,.05,.2,.5,.8,.95}, bootstrap_samples in {5,20}, count_ubound in {1,2,3,5,8}, integer grids (ties) and continuous data; "
        "'steered' streams are generated in closed loop with one step of look-ahead on a copy of the running detector so that the divergence "
        "hugs the bound: above it for exactly (alarm length - 1) evaluated samples, back under it for 1-2 samples, ..., then above until the alarm; "
        "three hand-made streams put persistence*window_size next to an integer (0.58*50, 0.28*25, 0.2*10); "
        "batch: 6-14 batches of 12-45 rows alternating between the reference distribution and shifted ones, with and without an initial "
        "set_reference, explicit set_reference calls mid-history (also right after a drift); np.random.seed(seed_of(case, step)) before "
        "every call. quantile: np.quantile(list, 1-alpha, 'nearest') on lists of 1-40 values incl. ranks exactly on .5 and duplicates, "
        "and ordered alpha pairs. Non-trivial: the divergence crossed the bound downwards after having been above it (streaming), "
        "or a drift occurred; distinct by content."
        " Also: ndarray or single-dtype DataFrame inputs, overwritten in place after the call in a third of the cases; streams whose first sample is a list of Python ints.")
SHARD = 4


# ------------------------------------------------------------------ logging the oracles
LOG = []          # every scipy.stats.entropy call of the current update: (pk, qk, value)


@contextlib.contextmanager
def entropy_logged():
    orig = scipy.stats.entropy
    def wrapped(pk, qk=None, *a, **kw):
        r = orig(pk, qk, *a, **kw)
        try:
            LOG.append(([float(x) for x in np.asarray(pk, dtype=float).ravel()],
                        [float(x) for x in np.asarray(qk, dtype=float).ravel()], float(r)))
        except Exception:
            LOG.append(None)
        return r
    with rebound(scipy.stats, "entropy", wrapped):
        yield


from menelaus.data_drift.kdq_tree import KdqTreeDetector as _KD
# the logging subclass overrides this private method by name; when it no longer exists the bootstrap divergences (an
# oracle input of the model) cannot be separated from the other entropy calls and the case is not model-checked
HOOK = callable(getattr(_KD, "_get_critical_kld", None))


class _BootLog:
    """logs every _get_critical_kld call: arguments, the divergences handed to np.quantile, result"""
    def _get_critical_kld(self, ref_counts, sample_size):
        k0 = len(LOG)
        v = super()._get_critical_kld(ref_counts, sample_size)
        calls = LOG[k0:]
        del LOG[k0:]
        try:
            self._vboot.append({"ref_counts": [int(c) for c in ref_counts], "n": int(sample_size),
                                "boot": None if any(c is None for c in calls) else [c[2] for c in calls], "crit": float(v)})
        except Exception:
            self._vboot.append(None)
        return v


class LogStream(_BootLog, KdqTreeStreaming):
    def __init__(self, *a, **k):
        self._vboot = []
        super().__init__(*a, **k)


class LogBatch(_BootLog, KdqTreeBatch):
    def __init__(self, *a, **k):
        self._vboot = []
        super().__init__(*a, **k)


def leaf_rows(df):
    """rows of to_plotly_dataframe -> (signature of all rows, counts of the leaves left to right)"""
    if df is None or len(df) == 0:
        return [], []
    idx = [int(v) for v in df["idx"]]
    par = set()
    for v in df["parent_idx"]:
        if v is not None and not (isinstance(v, float) and math.isnan(v)):
            par.add(int(v))
    cnt = [int(v) for v in df["cell_count"]]
    sig = [[str(n), int(d), c] for n, d, c in zip(df["name"], df["depth"], cnt)]
    return sig, [c for i, c in zip(idx, cnt) if i not in par]


def public_counts(det):
    """public view of the tree: None when there is no tree"""
    try:
        ref = det.to_plotly_dataframe(tree_id1="build", tree_id2=None)
    except AttributeError:
        return None
    test = det.to_plotly_dataframe(tree_id1="test", tree_id2=None)
    sig, rc = leaf_rows(ref)
    _, tc = leaf_rows(test)
    return {"sig": sig, "ref": rc, "test": tc}


def arr(rows, m):
    return np.array(rows, dtype=float).reshape(len(rows), m)


def make(case):
    p = case["params"]
    if case["kind"] == "stream":
        return LogStream(window_size=p["window_size"], persistence=p["persistence"], alpha=p["alpha"],
                         bootstrap_samples=p["bootstrap_samples"], count_ubound=p["count_ubound"])
    return LogBatch(alpha=p["alpha"], bootstrap_samples=p["bootstrap_samples"], count_ubound=p["count_ubound"])


def one_call(det, fn, x):
    """run one update / set_reference with the oracles logged"""
    del LOG[:]
    nb = len(det._vboot)
    with entropy_logged():
        fn(x)
    kls = [c for c in LOG if c is not None]
    boot = det._vboot[nb:]
    return kls, boot


POISON = 12345.678


def feed(case, rows, m):
    """the object handed to the detector for these rows (case["input"]: ndarray or single-dtype DataFrame) and a
    function that overwrites it in place afterwards - what a caller re-using one buffer does before the next call"""
    mode = case.get("input", "array")
    a = arr(rows, m)
    if mode.startswith("df"):
        obj = pd.DataFrame(a, columns=[f"ax {j}" for j in range(m)])   # the names the tree view uses for unnamed columns
        def poison():
            obj.iloc[:, :] = POISON
            try:
                obj.values[:] = POISON
            except Exception:
                pass
    else:
        obj = a
        def poison():
            obj[:] = POISON
    return obj, (poison if mode.endswith("poison") else (lambda: None))


def run_impl(case):
    if case["kind"] == "quantile":
        out = []
        for l, a in case["qs"]:
            out.append(float(np.quantile(l, 1 - a, method="nearest")))
        return {"vals": out}
    m = case["m"]
    det = make(case)
    rows = []
    if case["kind"] == "stream":
        prev_sig = None
        for i, r in enumerate(case["data"]):
            np.random.seed(seed_of(case, i))
            x, poison = feed(case, [r], m)
            if i == 0 and case.get("int_first"):
                x, poison = [[int(v) for v in r]], (lambda: None)     # an integer-typed first sample (Python ints), floats afterwards
            kls, boot = one_call(det, det.update, x)
            ds, tot, sin = lifecycle_obs(det)
            pc = public_counts(det)
            poison()
            row = {"ds": ds, "total": tot, "since": sin, "tsize": getattr(det, "_test_data_size", None),
                   "counter": getattr(det, "_drift_counter", None), "tdist": priv(det, "_test_dist"), "crit": priv(det, "_critical_dist"),
                   "has_tdist": hasattr(det, "_test_dist"), "has_crit": hasattr(det, "_critical_dist"),
                   "kls": kls, "boot": boot, "pc": None if pc is None else {"ref": pc["ref"], "test": pc["test"]}}
            if pc is not None and pc["sig"] != prev_sig:
                row["sig"] = pc["sig"]
            prev_sig = None if pc is None else pc["sig"]
            rows.append(row)
        return {"rows": rows}
    for i, (op, b) in enumerate(case["ops"]):
        np.random.seed(seed_of(case, i))
        fn = det.set_reference if op == "ref" else det.update
        x, poison = feed(case, b, m)
        kls, boot = one_call(det, fn, x)
        ds, tot, sin = lifecycle_obs(det)
        pc = public_counts(det)
        rd = getattr(det, "ref_data", None)
        rd = None if rd is None else np.asarray(rd, dtype=float).reshape(-1, m).tolist()
        poison()
        rows.append({"ds": ds, "total": tot, "since": sin, "tdist": priv(det, "_test_dist"), "crit": priv(det, "_critical_dist"),
                     "has_tdist": hasattr(det, "_test_dist"), "has_crit": hasattr(det, "_critical_dist"),
                     "kls": kls, "boot": boot, "pc": pc,
                     "ref_data": rd})
    return {"rows": rows}


# ------------------------------------------------------------------ direct check (no Coq model)
def rhe(fr):
    """round half to even of an exact rational"""
    f = math.floor(fr)
    r = fr - f
    if r < Fraction(1, 2):
        return f
    if r > Fraction(1, 2):
        return f + 1
    return f if f % 2 == 0 else f + 1


def nearest_quantile(values, alpha):
    """the (1 - alpha) quantile, method 'nearest': element of rank around((n-1)*(1-alpha)) of the sorted list"""
    q = 1 - alpha
    k = rhe(Fraction(float(len(values) - 1) * q))
    return sorted(values)[k], k


def distn(counts):
    c = np.array(counts, dtype=float)
    return (c + 0.5) / (c.sum() + len(c) / 2)


def own_bootstrap(ref_counts, n, nboot, seed):
    """independent re-implementation of the bootstrap: pairs of samples of size n from the corrected
    reference leaf distribution, divergence of their corrected leaf distributions"""
    np.random.seed(seed)
    k = len(ref_counts)
    p = distn(ref_counts)
    out = []
    for _ in range(nboot):
        s = np.random.choice(list(range(k)), size=2 * n, p=p)
        a = np.bincount(s[:n], minlength=k)
        b = np.bincount(s[n:], minlength=k)
        out.append(float(scipy.stats.entropy(distn(a), distn(b))))
    return out


def expected_crit(case, ref_counts, n, step, where):
    """critical value re-derived three ways; returns (value, messages)"""
    p = case["params"]
    seed = seed_of(case, step)
    boot = own_bootstrap(ref_counts, n, p["bootstrap_samples"], seed)
    v, k = nearest_quantile(boot, p["alpha"])
    msgs = []
    # re-run the implementation's own bootstrap under the same seed on the expected arguments
    probe = KdqTreeBatch(alpha=p["alpha"], bootstrap_samples=p["bootstrap_samples"], count_ubound=p["count_ubound"])
    f = getattr(probe, "_get_critical_kld", None)
    if f is not None:
        np.random.seed(seed)
        v2 = float(f(list(ref_counts), n))
        if not feq(v2, v):
            msgs.append(f"{where}: _get_critical_kld({ref_counts}, {n}) = {v2!r} under seed {seed}, but the (1-alpha) nearest-rank quantile "
                        f"(rank {k} of {len(boot)}) of the divergences of {p['bootstrap_samples']} bootstrap pairs of size {n} is {v!r}")
    return v, boot, msgs


def fresh_tree(case, rows):
    t = KDQTreePartitioner(count_ubound=case["params"]["count_ubound"], cutpoint_proportion_lbound=2e-10)
    t.build(arr(rows, case["m"]))
    return t


def tree_sig(t):
    sig, rc = leaf_rows(t.to_plotly_dataframe(tree_id1="build", tree_id2=None))
    return sig, rc


def divergence_of(rc, tc, where):
    """KL divergence of the corrected leaf distributions, with the 60-digit cross-check"""
    d = float(scipy.stats.entropy(distn(rc), distn(tc)))
    if not close(d, kl_exact(rc, tc)):
        return d, [f"{where}: scipy divergence {d!r} of counts {rc} / {tc} differs from the exact corrected KL divergence"]
    return d, []


def direct_stream(case, obs):
    p, m, data = case["params"], case["m"], case["data"]
    w, pers = p["window_size"], p["persistence"]
    bound = Fraction(float(pers * w))          # persistence * window_size as the float product the code forms
    ep = 0                                      # index of the first sample of the current epoch
    prev_ds = None
    tree = None; rc = None; crit = None; sig = None; run = 0
    cur_sig = None                              # public rows of the reference tree as last reported
    for i, row in enumerate(obs["rows"]):
        where = f"stream step {i}"
        if prev_ds == "drift":                  # after a drift the detector starts over with a new reference window
            ep = i; tree = None; rc = None; crit = None; sig = None; run = 0
        k = i - ep + 1                           # samples of the epoch seen so far
        exp_ds = None
        if row["total"] != i + 1:
            return [f"{where}: total_samples = {row['total']}, {i + 1} updates were made"]
        if row["pc"] is None:
            cur_sig = None
        elif "sig" in row:
            cur_sig = row["sig"]
        if k < w:
            if row["pc"] is not None:
                return [f"{where}: a tree exists after {k} < window_size={w} samples of the epoch"]
            exp_since = k
        else:
            if k == w:
                tree = fresh_tree(case, data[ep:ep + w])
                sig, rc = tree_sig(tree)
                crit, boot, msgs = expected_crit(case, rc, w, i, where)
                if msgs:
                    return msgs
            else:
                tree.fill(arr([data[i]], m), tree_id="test", reset=False)
            if row["pc"] is None:
                return [f"{where}: no tree although the epoch has {k} >= window_size={w} samples"]
            if cur_sig != sig or row["pc"]["ref"] != rc:
                return [f"{where}: the reference tree is not the kdq-tree of the first {w} samples of the epoch (samples {ep}..{ep + w - 1}): "
                        f"reference leaf counts {row['pc']['ref']}, expected {rc}; rows {str(cur_sig)[:200]} vs {str(sig)[:200]}"]
            if row["has_crit"] and not feq(row["crit"], crit):
                return [f"{where}: _critical_dist = {row['crit']!r}; the bootstrap bound for reference counts {rc}, sample size {w}, "
                        f"alpha={p['alpha']} under the seed of the update that completed the reference window is {crit!r}"]
            tc = [] if k == w else [int(c) for c in tree.leaf_counts("test")]
            if row["pc"]["test"] != tc:
                return [f"{where}: test leaf counts {row['pc']['test']}, the {k - w} samples after the reference window fall into {tc}"]
            exp_since = k - w
            if k - w >= w:
                d, msgs = divergence_of(rc, tc, where)
                if msgs:
                    return msgs
                if row["has_tdist"] and not feq(row["tdist"], d):
                    return [f"{where}: _test_dist = {row['tdist']!r}, divergence of reference counts {rc} and test counts {tc} is {d!r}"]
                run = run + 1 if d > crit else 0
                if Fraction(run) > bound:
                    exp_ds = "drift"
            elif row["has_tdist"] and row["tdist"] is not None:
                return [f"{where}: a divergence was computed with only {k - w} < window_size test samples"]
        if row["ds"] != exp_ds:
            return [f"{where}: drift_state = {row['ds']!r}, expected {exp_ds!r}: epoch started at sample {ep}, {k} samples seen, "
                    f"{run} consecutive evaluated samples above the bound {crit!r}, persistence*window_size = {float(bound)!r}"]
        if row["since"] != exp_since:
            return [f"{where}: samples_since_reset = {row['since']}, expected {exp_since} (epoch started at {ep}, window_size={w})"]
        if row["counter"] is not None and row["counter"] != run:
            return [f"{where}: _drift_counter = {row['counter']}, but {run} evaluated samples in a row were above the bound"]
        if row["tsize"] is not None and row["tsize"] != max(0, k - w):
            return [f"{where}: _test_data_size = {row['tsize']}, {max(0, k - w)} test samples were received"]
        prev_ds = row["ds"]
    return []


def direct_batch(case, obs):
    p, m = case["params"], case["m"]
    ref = None; tree = None; rc = None; crit = None; sig = None
    total = 0; since = 0; prev_ds = None; prev_batch = None
    for i, ((op, b), row) in enumerate(zip(case["ops"], obs["rows"])):
        where = f"batch op {i} ({'set_reference' if op == 'ref' else 'update'})"
        exp_ds = None
        rebuilt = None                 # the batch the reference is (re)built from in this call
        evaluate = False
        why = "earlier reference"
        if op == "ref":
            rebuilt, since, why = b, 0, "set_reference argument"
        else:
            if prev_ds == "drift":     # the drifted batch becomes the reference, counters restart
                rebuilt, since, why = prev_batch, 0, "batch that drifted"
            total += 1; since += 1
            if ref is None and rebuilt is None:
                rebuilt, since, why = b, 0, "first batch"    # no set_reference before: the first batch is the reference
            else:
                evaluate = True
        if rebuilt is not None:
            ref = rebuilt
            tree = fresh_tree(case, ref)
            sig, rc = tree_sig(tree)
            crit, boot, msgs = expected_crit(case, rc, sum(rc), i, where)
            if msgs:
                return msgs
        pc = row["pc"]
        if pc is None:
            return [f"{where}: no tree after the call"]
        if pc["sig"] != sig or pc["ref"] != rc:
            diff = next((f"row {j}: {a} vs expected {b}" for j, (a, b) in enumerate(zip(pc["sig"], sig)) if a != b),
                        f"{len(pc['sig'])} rows vs expected {len(sig)}")
            return [f"{where}: the reference tree is not the kdq-tree of the current reference ({why}): "
                    f"reference leaf counts {pc['ref']}, expected {rc}; first differing public row (name, depth, count): {diff}"]
        if row["has_crit"] and not feq(row["crit"], crit):
            return [f"{where}: _critical_dist = {row['crit']!r}; the bootstrap bound for reference counts {rc}, sample size {sum(rc)}, "
                    f"alpha={p['alpha']} is {crit!r}"]
        if evaluate:
            tree.fill(arr(b, m), tree_id="test", reset=True)
            tc = [int(c) for c in tree.leaf_counts("test")]
            if pc["test"] != tc:
                return [f"{where}: test leaf counts {pc['test']}, the batch falls into {tc}"]
            d, msgs = divergence_of(rc, tc, where)
            if msgs:
                return msgs
            if row["has_tdist"] and not feq(row["tdist"], d):
                return [f"{where}: _test_dist = {row['tdist']!r}, divergence of reference counts {rc} and batch counts {tc} is {d!r}"]
            if d > crit:
                exp_ds = "drift"
        elif pc["test"] != []:
            return [f"{where}: test counts {pc['test']} right after the reference was (re)built"]
        if row["ds"] != exp_ds:
            return [f"{where}: drift_state = {row['ds']!r}, expected {exp_ds!r} (bound {crit!r})"]
        if exp_ds == "drift" and row.get("ref_data") != [[float(v) for v in r] for r in b]:
            return [f"{where}: after a drift ref_data is not the drifted batch"]
        if row["total"] != total or row["since"] != since:
            return [f"{where}: counters (total_batches, batches_since_reset) = ({row['total']}, {row['since']}), expected ({total}, {since})"]
        prev_ds = row["ds"]; prev_batch = b
    return []


def direct_check(case, obs):
    if "__exception__" in obs:
        return [f"kdq-tree detector raised {obs['__exception__']}: {obs['__message__']}"]
    if case["kind"] == "quantile":
        for (l, a), v in zip(case["qs"], obs["vals"]):
            e, k = nearest_quantile(l, a)
            if not feq(e, v):
                return [f"np.quantile({l}, 1-{a}, 'nearest') = {v!r}, element of rank {k} is {e!r}"]
        return []
    return direct_stream(case, obs) if case["kind"] == "stream" else direct_batch(case, obs)


# ------------------------------------------------------------------ model side
def t_data(rows):
    return G.lst([G.fltlist(r) for r in rows])


def t_optoptf(has, v):
    if not has:
        return "None"
    return f"(Some {G.optf(v)})"


def t_optzl(l):
    return "None" if l is None else f"(Some {G.zlist(l)})"


def t_bootq(boot):
    if not boot or boot[-1] is None:
        return "None"
    b = boot[-1]
    return f"(Some ({G.zlist(b['ref_counts'])}, {G.z(b['n'])}))"


def boot_list(case, row, step, rc_prev):
    """the bootstrap divergences of this call: logged from the implementation; when the logging hook did not
    fire although a reference was built, fall back to the independent re-implementation"""
    b = row["boot"]
    if b and b[-1] is not None and b[-1]["boot"] is not None:
        return b[-1]["boot"], b[-1]["crit"]
    return None, None


def kl_table(rows):
    groups, order = {}, []
    for r in rows:
        for a, b, v in r["kls"]:
            key = tuple(x.hex() for x in a)
            if key not in groups:
                groups[key] = (a, {}); order.append(key)
            groups[key][1][tuple(x.hex() for x in b)] = (b, v)
    items = []
    for key in order:
        a, g = groups[key]
        items.append(f"({G.fltlist(a)}, {G.lst([f'({G.fltlist(b)}, {G.flt(v)})' for b, v in g.values()])})")
    return G.lst(items)


def params_term(case):
    p = case["params"]
    return (f"(mkp {G.z(p.get('window_size', 0))} {G.flt(p.get('persistence', 0.0))} {G.flt(p['alpha'])} {G.z(p['count_ubound'])} "
            f"{G.flt(2e-10)} {G.z(case['m'])})")


def coq_term(case, obs):
    if "__exception__" in obs:
        return "false"
    if case["kind"] == "quantile":
        ts = [f"chk_quantile {G.fltlist(l)} {G.flt(a)} {G.flt(v)}" for (l, a), v in zip(case["qs"], obs["vals"])]
        for l, a1, a2 in case.get("pairs", []):
            ts.append(f"chk_antitone {G.fltlist(l)} {G.flt(a1)} {G.flt(a2)}")
        return "(" + " && ".join(ts) + ")"
    if not HOOK:
        return None
    rows, qs, xs = [], [], []
    stream = case["kind"] == "stream"
    for i, row in enumerate(obs["rows"]):
        bl, bc = boot_list(case, row, i, None)
        if bl is None and row["boot"]:
            return "false"       # the hook fired but the list could not be recorded
        if bl is not None:
            qs.append(f"({G.fltlist(bl)}, {G.flt(bc)})")
        o = obs_term(row["ds"], row["total"], row["since"], [None, None])
        pc = row["pc"]
        rc = [] if pc is None else pc["ref"]
        tc = [] if pc is None else pc["test"]
        if stream:
            rows.append(f"({o}, {G.optz(row['tsize'])}, {G.optz(row['counter'])}, {t_optoptf(row['has_tdist'], row['tdist'])}, "
                        f"{t_optoptf(row['has_crit'], row['crit'])}, {t_bootq(row['boot'])}, {t_optzl(rc)}, {t_optzl(tc)})")
            xs.append(f"({G.fltlist(case['data'][i])}, {G.fltlist(bl or [])})")
        else:
            rd = "None" if row["ds"] != "drift" or row.get("ref_data") is None else f"(Some {t_data(row['ref_data'])})"
            rows.append(f"({o}, {t_optoptf(row['has_tdist'], row['tdist'])}, {t_optoptf(row['has_crit'], row['crit'])}, "
                        f"{t_bootq(row['boot'])}, {t_optzl(rc)}, {t_optzl(tc)}, {rd})")
            op, b = case["ops"][i]
            xs.append(f"({G.boolc(op == 'ref')}, ({t_data(b)}, {G.fltlist(bl or [])}))")
    fn = "chk_stream" if stream else "chk_batch"
    return f"{fn} {params_term(case)} {kl_table(obs['rows'])} {G.lst(xs)} {G.lst(rows)} {G.lst(qs)}"


def show_term(case, obs):
    if case["kind"] == "quantile" or "__exception__" in obs:
        return "tt"
    t = coq_term(case, obs)
    # drop the expected rows and the quantile list: show_* takes (params, table, inputs)
    stream = case["kind"] == "stream"
    xs = []
    for i, row in enumerate(obs["rows"]):
        bl, _ = boot_list(case, row, i, None)
        if stream:
            xs.append(f"({G.fltlist(case['data'][i])}, {G.fltlist(bl or [])})")
        else:
            op, b = case["ops"][i]
            xs.append(f"({G.boolc(op == 'ref')}, ({t_data(b)}, {G.fltlist(bl or [])}))")
    return f"{'show_stream' if stream else 'show_batch'} {params_term(case)} {kl_table(obs['rows'])} {G.lst(xs)}"


def crossings(case, obs):
    """(drifts, falls): falls = evaluated samples at which the divergence is back under the bound after a run above it"""
    drifts = falls = ties = 0
    if case["kind"] == "stream":
        prev = 0
        for r in obs.get("rows", []):
            c = r.get("counter")
            if r.get("ds") == "drift":
                drifts += 1
            if c is not None:
                if prev > 0 and c == 0 and r.get("ds") != "drift" and r.get("tsize", 0) >= case["params"]["window_size"]:
                    falls += 1
                prev = 0 if r.get("ds") == "drift" else c
            if r.get("tdist") is not None and r.get("tdist") == r.get("crit"):
                ties += 1
    else:
        prev = None
        for r in obs.get("rows", []):
            if r.get("ds") == "drift":
                drifts += 1
            if prev == "drift" and r.get("ds") is None and r.get("tdist") is not None:
                falls += 1
            prev = r.get("ds")
    return drifts, falls, ties


STATS = {}


def nontrivial(case, obs):
    if case["kind"] == "quantile":
        return True
    d, f, t = crossings(case, obs)
    k = case["kind"]
    for name, v in (("drifts", d), ("falls_back_under_the_bound", f), ("ties_divergence_equals_bound", t),
                    ("references_built", sum(1 for r in obs.get("rows", []) if r.get("boot")))):
        STATS[k + "_" + name] = STATS.get(k + "_" + name, 0) + v
    return d > 0 or f > 0


# ------------------------------------------------------------------ generators
def clean(x):
    x = float(x)
    return 0.0 if x == 0.0 else x


def gen_stream(ctx, rng, k, fam):
    r = ctx.rng
    if fam == "tiny":
        w = r.choice([2, 3, 3, 4, 6])
        pers = r.choice([0.0, 0.2, 0.5, 1.0 / 3, 1.0])
        cub = r.choice([1, 2])
    elif fam == "corner":
        # persistence * window_size an integer (counter == bound is not an alarm) or a float product next to one
        w, pers = r.choice([(25, 0.28), (50, 0.58), (10, 0.2), (20, 0.05), (30, 0.1), (10, 0.5), (20, 0.2)])
        cub = r.choice([3, 5, 8])
    else:
        w = r.choice([10, 20, 30])
        pers = r.choice([0.0, 0.05, 0.1, 0.2, 0.2, 0.5, 0.5, 1.5])
        cub = r.choice([2, 3, 5, 8])
    m = r.choice([1, 1, 2, 3])
    # small alpha: a high bound that only a sustained change exceeds; large alpha: a bound inside the null range of the
    # divergence, crossed in both directions by stationary data
    alpha = r.choice([0.01, 0.05, 0.2, 0.2, 0.5, 0.5, 0.8, 0.95])
    nb = r.choice([5, 20])
    grid = fam == "tiny" or r.random() < 0.25
    n = r.randint(6 * w, (8 if w >= 25 else 14) * w) if fam != "tiny" else r.randint(6 * w, 24 * w)
    need = int(math.floor(pers * w)) + 1            # samples in a row needed for an alarm
    data = []
    def emit(length, shift, scale):
        for _ in range(length):
            row = rng.normal(size=m) * scale
            row[0] += shift
            if grid:
                row = np.round(row * 2) / 2
            data.append([clean(v) for v in row])
    emit(2 * w + r.randint(0, w // 2), 0.0, 1.0)      # reference window, first test window
    first = True
    while len(data) < n:
        # a burst of a drifted component: too short to lift the divergence, long enough to lift it for fewer samples
        # than an alarm needs (it then falls back under the bound while base data dilutes the test window), or sustained
        if r.random() < 0.7:
            shift, scale = r.choice([-6.0, -3.0, 2.0, 3.0, 8.0]), 1.0
        else:
            shift, scale = 0.0, r.choice([0.1, 4.0])
        if fam == "corner" and first:
            blen = 2 * w + 2 * need
        else:
            blen = max(1, r.choice([3, w // 3, w // 2, need - 1, need, need + 1, w, w + need, 2 * w, 3 * w]))
        first = False
        emit(blen, shift, scale)
        emit(r.choice([1, 2, w // 2, w, w, 2 * w, 3 * w]), 0.0, 1.0)
    params = {"window_size": w, "persistence": pers, "alpha": alpha, "bootstrap_samples": nb, "count_ubound": cub}
    return {"kind": "stream", "fam": fam, "params": params, "m": m, "data": data[:n], "seed": (ctx.seed + 31 * k) % 100000}


def gen_stream_steered(ctx, rng, k):
    """closed-loop generation with one step of look-ahead on a copy of the running detector: among a few candidate samples
    (shifted, re-drawn reference samples, fresh base samples) the next one is chosen so that the divergence hugs the bound and
    follows a target pattern: above it for exactly (alarm length - 1) evaluated samples, back under it for 1-2 samples (the
    counter must restart), ... , finally above it until the alarm"""
    import copy
    r = ctx.rng
    w = r.choice([10, 10, 20])
    pers = r.choice([0.2, 0.3, 0.5, 1.0])
    m = r.choice([1, 2])
    params = {"window_size": w, "persistence": pers, "alpha": r.choice([0.05, 0.2, 0.5]), "bootstrap_samples": r.choice([5, 20]),
              "count_ubound": r.choice([2, 3, 5])}
    case = {"kind": "stream", "fam": "steered", "params": params, "m": m, "data": [], "seed": (ctx.seed + 53 * k) % 100000}
    need = int(math.floor(pers * w)) + 1
    det = KdqTreeStreaming(window_size=w, persistence=pers, alpha=params["alpha"], bootstrap_samples=params["bootstrap_samples"],
                           count_ubound=params["count_ubound"])
    n = r.randint(8 * w, 14 * w)
    def pattern():
        out = []
        for _ in range(r.randint(1, 3)):
            out += ["A"] * r.choice([need - 1, need - 1, max(1, need // 2)]) + ["b"] * r.choice([1, 1, 2])
        return out + ["A"] * need
    ep, want = 0, pattern()
    for i in range(n):
        kk = i - ep
        seed = seed_of(case, i)
        if kk < 2 * w - 1 or not want:
            row = rng.normal(size=m)
        else:
            cands = []
            for sh in (-5.0, 4.0):
                c = rng.normal(size=m) * 0.3
                c[0] += sh
                cands.append(c)
            for _ in range(3):
                cands.append(np.array(case["data"][ep + int(rng.integers(0, w))], dtype=float))
            cands.append(rng.normal(size=m))
            best = None
            for c in cands:
                d2 = copy.deepcopy(det)
                np.random.seed(seed)
                d2.update(np.array([[clean(v) for v in c]], dtype=float))
                td, cr = getattr(d2, "_test_dist", None), getattr(d2, "_critical_dist", None)
                if td is None or cr is None:
                    continue
                sym = "A" if td > cr else "b"
                key = (sym == want[0], -abs(td - cr))       # the wanted side of the bound, as close to it as possible
                if best is None or key > best[0]:
                    best = (key, c, sym)
            row = cands[-1] if best is None else best[1]
            if best is not None and best[2] == want[0]:
                want = want[1:]
        row = [clean(v) for v in row]
        np.random.seed(seed)
        det.update(np.array([row], dtype=float))
        case["data"].append(row)
        if det.drift_state == "drift":
            ep, want = i + 1, pattern()
    return case


def gen_batch(ctx, rng, k, fam="main"):
    r = ctx.rng
    m = r.choice([1, 1, 2, 3])
    cub = r.choice([2, 3, 8]) if fam == "main" else r.choice([1, 2])
    alpha = r.choice([0.01, 0.05, 0.2, 0.2, 0.5])
    nb = r.choice([5, 20])
    grid = fam == "tiny" or r.random() < 0.3
    nops = r.randint(6, 14)
    ops = []
    shift = 0.0
    start_ref = r.random() < 0.7
    tiny_size = r.choice([3, 4, 6])
    for j in range(nops):
        size = r.randint(12, 45) if fam == "main" else tiny_size
        if j > 0 and r.random() < 0.45:
            shift = 0.0 if shift != 0.0 and r.random() < 0.6 else r.choice([-3.0, -1.0, 0.7, 1.5, 4.0])
        b = rng.normal(size=(size, m))
        b[:, 0] += shift
        if grid:
            b = np.round(b * 2) / 2
        b = [[clean(v) for v in row] for row in b]
        op = "ref" if (j == 0 and start_ref) or (j > 1 and r.random() < 0.12) else "upd"
        ops.append([op, b])
    params = {"alpha": alpha, "bootstrap_samples": nb, "count_ubound": cub}
    return {"kind": "batch", "fam": fam, "params": params, "m": m, "ops": ops, "seed": (ctx.seed + 17 * k) % 100000}


def gen_quantile(ctx, rng, k):
    r = ctx.rng
    qs, pairs = [], []
    alphas = [0.0, 0.01, 0.025, 0.05, 0.1, 0.125, 0.2, 0.25, 0.3, 0.5, 0.7, 0.75, 0.875, 0.9, 0.975, 1.0]
    for _ in range(30):
        n = r.choice([1, 2, 3, 5, 6, 7, 20, 21]) if r.random() < 0.6 else r.randint(1, 40)
        if r.random() < 0.3:
            l = [float(r.randint(0, 4)) / 4 for _ in range(n)]
        else:
            l = [float(v) for v in rng.random(n)]
        a = r.choice(alphas) if r.random() < 0.8 else round(r.random(), 3)
        qs.append([l, a])
        a1, a2 = sorted([r.choice(alphas), r.choice(alphas)])
        pairs.append([l, a1, a2])
    return {"kind": "quantile", "qs": qs, "pairs": pairs}


def gen_cases(ctx):
    rng = ctx.np_rng(9)
    cases = []
    st = ctx.stats
    for key in ("kind", "window_size", "persistence", "alpha", "bootstrap_samples", "count_ubound", "m", "input"):
        st[key] = {}
    def bump(key, v):
        st[key][str(v)] = st[key].get(str(v), 0) + 1
    # hand-made: persistence * window_size is a float product next to an integer (0.58 * 50 = 28.999999999999996: the 29th
    # sample in a row alarms; 0.28 * 25 = 7.000000000000001 and 0.2 * 10 = 2.0: the 8th / 3rd does), under a sustained change
    for k, (w, pers) in enumerate([(50, 0.58), (25, 0.28), (10, 0.2)]):
        base = rng.normal(size=(2 * w + 3, 1))
        shifted = rng.normal(size=(3 * w, 1)) + 6.0
        data = [[clean(v) for v in row] for row in np.vstack([base, shifted])]
        cases.append({"kind": "stream", "fam": "hand", "m": 1, "data": data, "seed": 7 + k,
                      "params": {"window_size": w, "persistence": pers, "alpha": 0.2, "bootstrap_samples": 5, "count_ubound": 8}})
    ns = ctx.scale(30, 420)
    for k in range(ns):
        fam = "tiny" if k % 6 in (1, 4) else "corner" if k % 6 == 5 else "main"
        cases.append(gen_stream(ctx, rng, k, fam))
    for k in range(ctx.scale(8, 120)):
        cases.append(gen_stream_steered(ctx, rng, k))
    for k in range(ctx.scale(26, 360)):
        cases.append(gen_batch(ctx, rng, k, "tiny" if k % 4 == 3 else "main"))
    # one batch history with test batches larger than any plausible internal block size
    big_ops = [["ref", [[clean(v)] for v in rng.normal(size=80)]]]
    for shift in (0.0, 0.5, 0.0):
        b = rng.normal(size=4500); b[::2] += shift
        big_ops.append(["upd", [[clean(v)] for v in b]])
    cases.append({"kind": "batch", "fam": "large", "params": {"alpha": 0.2, "bootstrap_samples": 5, "count_ubound": 8}, "m": 1,
                  "ops": big_ops, "seed": (ctx.seed + 4242) % 100000})
    for k in range(ctx.scale(4, 40)):
        cases.append(gen_quantile(ctx, rng, k))
    for c in cases:
        bump("kind", c["kind"] + ("/" + c["fam"] if "fam" in c else ""))
        if c["kind"] != "quantile":
            # how the caller passes the data: fresh ndarray, single-dtype DataFrame, or either one overwritten in
            # place right after the call (a caller re-using its buffer)
            c["input"] = rng.choice(["array", "array", "df", "df_poison", "df_poison", "array_poison"])
            bump("input", c["input"])
            if c["kind"] == "stream" and not c["input"].startswith("df") and rng.random() < 0.4:
                c["int_first"] = True
                c["data"] = [[float(round(v)) for v in c["data"][0]]] + [list(r) for r in c["data"][1:]]
                bump("input", "int_first")
            for key in ("window_size", "persistence", "alpha", "bootstrap_samples", "count_ubound"):
                if key in c["params"]:
                    bump(key, c["params"][key])
            bump("m", c["m"])
    return cases


def signature(case, obs, msgs):
    return {"kind": case.get("kind")}


def shrink_candidates(case):
    if case["kind"] == "stream":
        d = case["data"]
        if len(d) > 1:
            yield dict(case, data=d[:-1])
            yield dict(case, data=d[:len(d) // 2])
            yield dict(case, data=d[:(3 * len(d)) // 4])
    elif case["kind"] == "batch":
        o = case["ops"]
        if len(o) > 1:
            yield dict(case, ops=o[:-1])
            yield dict(case, ops=o[:len(o) // 2])
            for i in range(len(o)):
                yield dict(case, ops=o[:i] + o[i + 1:])
    else:
        q = case["qs"]
        for i in range(len(q)):
            yield dict(case, qs=[q[i]], pairs=[])
        for pr in case.get("pairs", []):
            yield dict(case, qs=[], pairs=[pr])


# ------------------------------------------------------------------ statistics / distributional validation
def extra(ctx):
    out = {"behaviour_reached": dict(STATS)}
    if not ctx.thorough:
        out["bootstrap_distributional_validation"] = "thorough tier only"
        return out
    # the bootstrap bound is the (1 - alpha) quantile of the divergence between two samples of the stated size drawn
    # from the corrected reference leaf distribution: compare with a large independent multinomial simulation
    rng = np.random.default_rng(ctx.seed)
    checked, worst = 0, 0.0
    for ref_counts, n, alpha in [([5, 9, 3, 3], 20, 0.05), ([10, 2, 8, 4, 6], 30, 0.2), ([3, 3, 4], 10, 0.1), ([12, 7, 1, 20], 40, 0.01)]:
        nb = 3000
        det = KdqTreeBatch(alpha=alpha, bootstrap_samples=nb)
        np.random.seed(ctx.seed % 2 ** 31)
        gck = getattr(det, "_get_critical_kld", None)
        if gck is None:
            return {"bootstrap_statistical_validation": "skipped: the bootstrap method is not reachable by its name"}
        v = float(gck(list(ref_counts), n))
        p = distn(ref_counts)
        a = rng.multinomial(n, p, size=100000)
        b = rng.multinomial(n, p, size=100000)
        k = len(ref_counts)
        pa = (a + 0.5) / (n + k / 2)
        pb = (b + 0.5) / (n + k / 2)
        sims = np.sum(pa * np.log(pa / pb), axis=1)
        q = 1 - alpha
        sd = math.sqrt(q * (1 - q) / nb)
        lo, hi = np.quantile(sims, max(0.0, q - 6 * sd)), np.quantile(sims, min(1.0, q + 6 * sd))
        checked += 1
        if not (lo - 1e-12 <= v <= hi + 1e-12):
            out["bootstrap_distributional_validation"] = (f"FAILED for ref_counts={ref_counts} n={n} alpha={alpha}: {v} not in [{lo},{hi}]")
            return out
        worst = max(worst, abs(v - float(np.quantile(sims, q))))
    out["bootstrap_distributional_validation"] = (f"{checked} critical values within 6 sigma (rank) of the (1-alpha) quantile of a 100000-pair "
                                                  f"multinomial reference (max abs diff {worst:.4f})")
    return out
