"""Registry of the 15 public detectors: construction, history generation, driving and observation.

Used by the cross-cutting properties (C01 lifecycle, C02 clean slate, C15 aliasing, C16 label
encodings, C17 threshold monotonicity).  A *case* is JSON-serialisable:
    {"det": name, "params": {...}, "data": [...], "seed": int}
Streaming detectors: data = list of items (float, [row], or [y_true, y_pred]);
batch detectors: data = [reference batch, batch, batch, ...], each a list of rows.
Before every set_reference / update the driver calls np.random.seed(seed_of(case, step)), so that
stochastic detectors are deterministic functions of (case, step) and twins can see the same draws.
"""
import math, warnings
import numpy as np
import pandas as pd
from .common import lifecycle_obs, recs_of, priv

warnings.filterwarnings("ignore")
np.seterr(all="ignore")

from menelaus.change_detection import ADWIN, CUSUM, PageHinkley
from menelaus.concept_drift import DDM, EDDM, STEPD, LinearFourRates, ADWINAccuracy, MD3
from menelaus.data_drift import KdqTreeStreaming, KdqTreeBatch, HDDDM, CDBD, NNDVI, PCACD


def seed_of(case, step):
    return (int(case.get("seed", 0)) * 1000003 + 7919 * (step + 1)) % (2 ** 31 - 1)


# ----------------------------------------------------------------------------- data generators
def level_stream(rng, n, scale=1.0, grid=False):
    out, level = [], 0.0
    i = 0
    while i < n:
        seg = rng.randint(max(4, n // 10), max(5, n // 3))
        for _ in range(min(seg, n - i)):
            v = level + scale * rng.gauss(0, 1)
            out.append(round(v * 4) / 4 if grid else float(v))
        i += seg
        level += scale * rng.choice([-6, -3, 3, 6, 10])
    return out[:n]


def outcome_stream(rng, n):
    out, p = [], rng.choice([0.95, 0.9])
    i = 0
    while i < n:
        seg = rng.randint(max(5, n // 8), max(6, n // 3))
        for _ in range(min(seg, n - i)):
            out.append(1 if rng.random() < p else 0)
        i += seg
        p = rng.choice([0.95, 0.85, 0.6, 0.35, 0.1])
    return out[:n]


def pair_stream(rng, n):
    acc = outcome_stream(rng, n)
    out = []
    for ok in acc:
        t = rng.randint(0, 1)
        out.append([t, t if ok else 1 - t])
    return out


def row_stream(rng, n, dim, seglen):
    """multivariate rows with mean / scale shifts every ~seglen rows"""
    out = []
    mean = [0.0] * dim
    sd = 1.0
    i = 0
    while i < n:
        seg = rng.randint(max(2, seglen // 2), seglen * 2)
        for _ in range(min(seg, n - i)):
            out.append([float(mean[j] + sd * rng.gauss(0, 1)) for j in range(dim)])
        i += seg
        k = rng.random()
        if k < 0.7:
            mean = [m + rng.choice([-4, -2, 2, 4]) for m in mean]
        else:
            sd = rng.choice([0.3, 1.0, 3.0])
    return out[:n]


def batches(rng, nb, dim, size_lo, size_hi, p_shift=0.4):
    out = []
    mean = [0.0] * dim
    sd = 1.0
    for b in range(nb):
        if b > 0 and rng.random() < p_shift:
            if rng.random() < 0.75:
                mean = [m + rng.choice([-3, -1.5, 1.5, 3]) for m in mean]
            else:
                sd = rng.choice([0.4, 1.0, 2.5])
        n = rng.randint(size_lo, size_hi)
        out.append([[float(mean[j] + sd * rng.gauss(0, 1)) for j in range(dim)] for _ in range(n)])
    return out


# ----------------------------------------------------------------------------- specs
class Spec:
    kind = "stream"          # or "batch"
    inputs = "x"             # "x": update(X) ; "y": update(y_true, y_pred)
    has_recs = False
    restart_to = 1           # value samples/batches_since_reset takes on the update after a drift
    in_c02 = False

    def make(self, params):
        raise NotImplementedError

    def gen(self, ctx):
        raise NotImplementedError

    # --- driving -------------------------------------------------------------
    def start(self, case):
        """construct (and, for batch detectors, set the reference); returns (detector, remaining data)"""
        det = self.make(case["params"])
        data = case["data"]
        if self.kind == "batch":
            np.random.seed(seed_of(case, case.get("_ref_step", -1)))
            ref = np.array(data[0], dtype=float)
            jk = case.get("_ref_junk")          # C16: junk in the documented-unused y_true / y_pred of set_reference
            if jk is not None:
                det.set_reference(ref, jk[0], jk[1])
            else:
                det.set_reference(ref)
            if case.get("reuse_buffer"):
                ref[...] = 12345.678          # the caller overwrites its reference array after handing it over
            return det, data[1:]
        return det, data

    def feed(self, det, item, buffers=None):
        """buffers: dict shared over a run; when given, X is handed over in ONE reused ndarray per shape that
        is poisoned right after the call (a caller re-using its batch buffer must not change anything)"""
        if self.inputs == "y":
            det.update(item[0], item[1])
            return
        x = np.array(item, dtype=float)
        if buffers is None:
            det.update(x if self.kind == "batch" else item)
            return
        buf = buffers.setdefault(x.shape, np.empty(x.shape, dtype=float))
        buf[...] = x
        det.update(buf)
        buf[...] = 12345.678

    def observe(self, det):
        ds, tot, sin = lifecycle_obs(det)
        o = {"ds": ds, "total": tot, "since": sin}
        if self.has_recs:
            o["recs"] = recs_of(det)
        o.update(self.extra_obs(det))
        return o

    def extra_obs(self, det):
        return {}

    def run(self, case):
        det, data = self.start(case)
        off = case.get("_offset", 0)
        setref = case.get("_set_reference_at")        # explicit set_reference(data item) instead of update, batch only
        rows = [dict(self.observe(det), step=-1)] if self.kind == "batch" else []
        buffers = {} if case.get("reuse_buffer") else None
        for i, item in enumerate(data):
            np.random.seed(seed_of(case, i + off))
            if setref == "after_drift" and rows and rows[-1].get("ds") == "drift" and not any(r.get("setref") for r in rows):
                # explicit set_reference in the call that directly follows a reported drift (the pending automatic
                # re-referencing must not override the reference the user hands over)
                det.set_reference(np.array(item, dtype=float))
                rows.append(dict(self.observe(det), setref=True))
                continue
            if setref is not None and i == setref:
                det.set_reference(np.array(item, dtype=float))
            else:
                self.feed(det, item, buffers)
            rows.append(self.observe(det))
        return rows

    # --- C01 warm-up: is a non-None state allowed at this row? ------------------
    def warmup_ok(self, case, rows, i):
        return True

    # --- C02: a fresh twin for the data after position i (row i reported drift) --
    def twin_case(self, case, rows, i):
        """case for a newly constructed detector fed only the data after step i"""
        data = case["data"][1:] if self.kind == "batch" else case["data"]
        if self.kind == "batch":
            # the drifted batch becomes the reference; the reference is (re)built in the update that follows the drift
            return dict(case, data=[data[i]] + data[i + 1:], _offset=i + 1, _ref_step=i + 1)
        return dict(case, data=data[i + 1:], _offset=i + 1)


def epoch_start(rows, i):
    """index of the first row of the epoch that row i belongs to"""
    j = i
    while j > 0 and rows[j - 1]["ds"] != "drift":
        j -= 1
    return j


class DDMSpec(Spec):
    name, inputs, has_recs, in_c02 = "DDM", "y", True, True
    def make(self, p): return DDM(n_threshold=p["n_threshold"], warning_scale=p["warning_scale"], drift_scale=p["drift_scale"])
    def gen(self, ctx):
        return {"params": {"n_threshold": ctx.rng.choice([1, 3, 10, 30]), "warning_scale": ctx.rng.choice([1.0, 1.5, 2]),
                           "drift_scale": ctx.rng.choice([2.0, 2.5, 3])}, "data": pair_stream(ctx.rng, ctx.rng.randint(80, 400))}
    def warmup_ok(self, case, rows, i): return rows[i]["since"] >= case["params"]["n_threshold"]


class EDDMSpec(Spec):
    name, inputs, has_recs, in_c02 = "EDDM", "y", True, True
    def make(self, p): return EDDM(n_threshold=p["n_threshold"], warning_thresh=p["warning_thresh"], drift_thresh=p["drift_thresh"])
    def gen(self, ctx):
        return {"params": {"n_threshold": ctx.rng.choice([1, 3, 10, 30]), "warning_thresh": ctx.rng.choice([0.99, 0.95]),
                           "drift_thresh": ctx.rng.choice([0.9, 0.8, 0.6])}, "data": pair_stream(ctx.rng, ctx.rng.randint(80, 400))}
    def warmup_ok(self, case, rows, i):
        j = epoch_start(rows, i)
        errs = sum(1 for a, b in case["data"][j:i + 1] if a != b)
        return errs >= case["params"]["n_threshold"]


class STEPDSpec(Spec):
    name, inputs, has_recs, in_c02 = "STEPD", "y", True, True
    def make(self, p): return STEPD(window_size=p["window_size"], alpha_warning=p["alpha_warning"], alpha_drift=p["alpha_drift"])
    def gen(self, ctx):
        return {"params": {"window_size": ctx.rng.choice([1, 3, 10, 30]), "alpha_warning": ctx.rng.choice([0.2, 0.05]),
                           "alpha_drift": ctx.rng.choice([0.05, 0.003])}, "data": pair_stream(ctx.rng, ctx.rng.randint(80, 400))}
    def warmup_ok(self, case, rows, i): return rows[i]["since"] >= 2 * case["params"]["window_size"]


class LFRSpec(Spec):
    name, inputs, has_recs = "LinearFourRates", "y", True
    def make(self, p):
        return LinearFourRates(time_decay_factor=p["eta"], warning_level=p["warn"], detect_level=p["detect"], burn_in=p["burn_in"],
                               num_mc=p["num_mc"], subsample=p["subsample"], rates_tracked=list(p["tracked"]), round_val=p["round_val"])
    def gen(self, ctx):
        # (decay, burn-in) regimes in which the decision really depends on the rates: with a slow decay and a short burn-in
        # the initial statistic 0.5 lies outside every simulated band and each epoch ends at burn_in + 1, whatever the labels;
        # two of those degenerate regimes are kept for the lifecycle properties
        eta, burn = ctx.rng.choice([(0.5, 10), (0.5, 20), (0.75, 20), (0.75, 10), (0.9, 40), (0.5, 10), (0.9, 5), (0.75, 0)])
        return {"params": {"eta": eta, "warn": ctx.rng.choice([0.3, 0.2]), "detect": ctx.rng.choice([0.05, 0.01]),
                           "burn_in": burn, "num_mc": 30, "subsample": ctx.rng.choice([1, 1, 2, 3]),
                           "tracked": ["tpr", "tnr", "ppv", "npv"] if ctx.rng.random() < 0.7 else ctx.rng.sample(["tpr", "tnr", "ppv", "npv"], 2),
                           "round_val": ctx.rng.choice([2, 4])},
                "data": pair_stream(ctx.rng, ctx.rng.randint(90, 180))}
    def warmup_ok(self, case, rows, i):
        p = case["params"]
        return rows[i]["since"] > p["burn_in"] and rows[i]["since"] % p["subsample"] == 0


class ADWINSpec(Spec):
    name, has_recs = "ADWIN", True
    KEYS = ("delta", "max_buckets", "new_sample_thresh", "window_size_thresh", "subwindow_size_thresh", "conservative_bound")
    def make(self, p): return ADWIN(**{k: p[k] for k in self.KEYS})
    def gen(self, ctx):
        return {"params": {"delta": ctx.rng.choice([1.0, 0.1, 0.002]), "max_buckets": ctx.rng.choice([1, 2, 5]),
                           "new_sample_thresh": ctx.rng.choice([1, 2, 4, 32]), "window_size_thresh": ctx.rng.choice([0, 5, 10, 25, 60]),
                           "subwindow_size_thresh": ctx.rng.choice([1, 3, 5]), "conservative_bound": ctx.rng.random() < 0.3},
                "data": level_stream(ctx.rng, ctx.rng.randint(60, 300), ctx.rng.choice([1.0, 0.1]))}
    def extra_obs(self, det): return {"W": priv(det, "_window_size")}
    def warmup_ok(self, case, rows, i):
        p = case["params"]
        ok = rows[i]["total"] % p["new_sample_thresh"] == 0
        if i > 0 and rows[i - 1].get("W") is not None:
            ok = ok and rows[i - 1]["W"] + 1 > p["window_size_thresh"]
        return ok


class ADWINAccSpec(ADWINSpec):
    name, inputs = "ADWINAccuracy", "y"
    def make(self, p): return ADWINAccuracy(**{k: p[k] for k in self.KEYS})
    def gen(self, ctx):
        c = ADWINSpec.gen(self, ctx)
        c["data"] = pair_stream(ctx.rng, ctx.rng.randint(60, 300))
        return c


class PHSpec(Spec):
    name, in_c02 = "PageHinkley", True
    def make(self, p): return PageHinkley(delta=p["delta"], threshold=p["threshold"], burn_in=p["burn_in"], direction=p["direction"])
    def gen(self, ctx):
        return {"params": {"delta": ctx.rng.choice([0.005, 0.01, 0.5]), "threshold": ctx.rng.choice([1, 2, 5, 20]),
                           "burn_in": ctx.rng.choice([0, 1, 5, 30]), "direction": ctx.rng.choice(["positive", "negative"])},
                "data": level_stream(ctx.rng, ctx.rng.randint(60, 300), 1.0, ctx.rng.random() < 0.3)}
    def warmup_ok(self, case, rows, i): return rows[i]["since"] > case["params"]["burn_in"]
    def extra_obs(self, det):
        df = det.to_dataframe()
        last = df.iloc[-1] if len(df) else None
        f = lambda v: float(np.asarray(v).reshape(-1)[0])
        return {"df": None if last is None else [f(last[c]) for c in df.columns], "nrows": len(df)}


class CUSUMSpec(Spec):
    name, in_c02 = "CUSUM", True
    def make(self, p):
        return CUSUM(target=p["target"], sd_hat=p["sd_hat"], burn_in=p["burn_in"], delta=p["delta"], threshold=p["threshold"],
                     direction=p["direction"])
    def gen(self, ctx):
        given = ctx.rng.random() < 0.3
        return {"params": {"target": 0.0 if given else None, "sd_hat": 1.0 if given else None, "burn_in": ctx.rng.choice([2, 3, 5, 9, 30]),
                           "delta": ctx.rng.choice([0.005, 0.25]), "threshold": ctx.rng.choice([1, 2, 5, 8]),
                           "direction": ctx.rng.choice([None, "positive", "negative"])},
                "data": level_stream(ctx.rng, ctx.rng.randint(60, 300), 1.0)}
    def warmup_ok(self, case, rows, i): return rows[i]["since"] > case["params"]["burn_in"]
    def extra_obs(self, det):
        ub, lb = getattr(det, "_upper_bound", None), getattr(det, "_lower_bound", None)
        f = lambda v: float(np.asarray(v).reshape(-1)[0])
        return {"up": f(ub[-1]) if ub else None, "lo": f(lb[-1]) if lb else None,
                "target": None if det.target is None else f(det.target), "sd": None if det.sd_hat is None else f(det.sd_hat)}
    def twin_case(self, case, rows, i):
        # documented carry-over: mean / sd of the last burn_in observations before the drift
        b = case["params"]["burn_in"]
        w = case["data"][:i + 1][-b:] if b else case["data"][:i + 1]
        p = dict(case["params"], target=float(np.mean(w)), sd_hat=float(np.std(w)))
        return dict(case, params=p, data=case["data"][i + 1:], _offset=i + 1)


class KdqStreamSpec(Spec):
    name, in_c02 = "KdqTreeStreaming", True
    def make(self, p):
        return KdqTreeStreaming(window_size=p["window_size"], persistence=p["persistence"], alpha=p["alpha"],
                                bootstrap_samples=p["bootstrap_samples"], count_ubound=p["count_ubound"])
    def gen(self, ctx):
        w = ctx.rng.choice([10, 20, 30])
        dim = ctx.rng.choice([1, 2, 3])
        return {"params": {"window_size": w, "persistence": ctx.rng.choice([0.05, 0.2, 0.5]), "alpha": ctx.rng.choice([0.05, 0.2]),
                           "bootstrap_samples": 15, "count_ubound": ctx.rng.choice([2, 5])},
                "data": row_stream(ctx.rng, ctx.rng.randint(6 * w, 12 * w), dim, 3 * w)}
    def extra_obs(self, det):
        return {"test_dist": priv(det, "_test_dist"), "crit": priv(det, "_critical_dist"), "counter": priv(det, "_drift_counter")}
    def warmup_ok(self, case, rows, i):
        # two full windows of the epoch: window_size to build the reference, window_size more to test
        j = epoch_start(rows, i)
        return (i - j + 1) >= 2 * case["params"]["window_size"]


class KdqBatchSpec(Spec):
    name, kind, in_c02 = "KdqTreeBatch", "batch", True
    def make(self, p):
        kw = {} if "clb" not in p else {"cutpoint_proportion_lbound": p["clb"]}
        return KdqTreeBatch(alpha=p["alpha"], bootstrap_samples=p["bootstrap_samples"], count_ubound=p["count_ubound"], **kw)
    def gen(self, ctx):
        return {"params": {"alpha": ctx.rng.choice([0.05, 0.2]), "bootstrap_samples": 15, "count_ubound": ctx.rng.choice([3, 8])},
                "data": batches(ctx.rng, ctx.rng.randint(6, 12), ctx.rng.choice([1, 2, 3]), 20, 45)}
    def extra_obs(self, det): return {"test_dist": priv(det, "_test_dist"), "crit": priv(det, "_critical_dist")}


class HDDDMSpec(Spec):
    name, kind, in_c02, cls = "HDDDM", "batch", True, HDDDM
    dims = [1, 2, 3]
    def make(self, p):
        return self.cls(detect_batch=p["detect_batch"], divergence=p["divergence"], statistic=p["statistic"],
                        significance=p["significance"], subsets=p["subsets"])
    def gen(self, ctx):
        stat = ctx.rng.choice(["tstat", "stdev"])
        db = ctx.rng.choice([1, 2, 3])
        return {"params": {"detect_batch": db, "divergence": "H" if self.cls is HDDDM else "KL", "statistic": stat,
                           "significance": ctx.rng.choice([0.05, 0.2]) if stat == "tstat" else ctx.rng.choice([0.5, 1.0, 2.0]),
                           "subsets": ctx.rng.choice([3, 5])},
                "data": batches(ctx.rng, ctx.rng.randint(7, 14), ctx.rng.choice(self.dims), 20, 45)}
    @property
    def restart_for(self): return None
    def extra_obs(self, det):
        g = lambda n: getattr(det, n, None)
        tb = int(det.total_batches)
        return {"dist": None if g("current_distance") is None else float(g("current_distance")),
                "eps": None if tb not in det.epsilon_values else float(det.epsilon_values[tb]),
                "beta": None if tb not in det.thresholds else float(det.thresholds[tb]),
                "ref_n": None if g("reference_n") is None else int(g("reference_n")), "lam": priv(det, "_lambda")}
    def warmup_ok(self, case, rows, i):
        db = case["params"]["detect_batch"]
        return rows[i]["since"] >= (3 if db == 3 else 2)


class CDBDSpec(HDDDMSpec):
    name, cls, dims = "CDBD", CDBD, [1]


class NNDVISpec(Spec):
    name, kind, in_c02 = "NNDVI", "batch", True
    def make(self, p): return NNDVI(k_nn=p["k_nn"], sampling_times=p["sampling_times"], alpha=p["alpha"])
    def gen(self, ctx):
        n = ctx.rng.choice([12, 20])
        return {"params": {"k_nn": ctx.rng.choice([2, 3, 5]), "sampling_times": 25, "alpha": ctx.rng.choice([0.05, 0.2])},
                "data": batches(ctx.rng, ctx.rng.randint(5, 9), ctx.rng.choice([1, 2]), n, n + (0 if ctx.rng.random() < 0.5 else 6))}
    def extra_obs(self, det):
        rb = getattr(det, "reference_batch", None)
        return {"ref": None if rb is None else np.asarray(rb, dtype=float).tolist()}


class PCACDSpec(Spec):
    name, restart_to = "PCACD", 0
    def make(self, p):
        return PCACD(window_size=p["window_size"], ev_threshold=p["ev_threshold"], delta=p["delta"],
                     divergence_metric=p["divergence_metric"], sample_period=p["sample_period"], online_scaling=p["online_scaling"])
    def gen(self, ctx):
        w = ctx.rng.choice([20, 30, 50])
        return {"params": {"window_size": w, "ev_threshold": ctx.rng.choice([0.99, 0.9]), "delta": ctx.rng.choice([0.1, 0.01]),
                           "divergence_metric": ctx.rng.choice(["kl", "intersection"]), "sample_period": ctx.rng.choice([0.05, 0.1, 0.2]),
                           "online_scaling": ctx.rng.random() < 0.6},
                "data": row_stream(ctx.rng, ctx.rng.randint(6 * w, 10 * w), ctx.rng.choice([2, 3, 4]), 3 * w)}
    def extra_obs(self, det):
        cs = getattr(det, "_change_score", None)
        return {"num_pcs": None if det.num_pcs is None else int(det.num_pcs), "nscores": None if cs is None else len(cs)}
    def warmup_ok(self, case, rows, i):
        w = case["params"]["window_size"]
        j = epoch_start(rows, i)
        # first epoch: reference + test window; later epochs: the sample after the drift is discarded,
        # then window_size samples refill the test window
        return (i + 1 >= 2 * w + 1) if j == 0 else (rows[i]["since"] >= w + 1)


# ---- MD3: deprecated base class, label-oracle protocol ------------------------------------------------
class ThresholdSVM:
    """minimal deterministic linear classifier with the sklearn interface MD3 uses"""
    def __init__(self, w=(1.0, 1.0), b=0.0):
        self.w, self.b = tuple(w), b
        self.coef_ = np.array([list(w)]); self.intercept_ = np.array([b])
    def get_params(self, deep=False): return {"w": self.w, "b": self.b}
    def set_params(self, **k):
        self.__init__(**k); return self
    def fit(self, X, y): return self
    def predict(self, X): return (np.asarray(X, dtype=float) @ np.array(self.w) + self.b > 0).astype(int)


class MD3Spec(Spec):
    name = "MD3"
    def make(self, p):
        return MD3(clf=ThresholdSVM(), sensitivity=p["sensitivity"], k=p["k"], oracle_data_length_required=p["oracle_len"])
    def gen(self, ctx):
        rng = ctx.rng
        def rows(n, shift):
            out = []
            for _ in range(n):
                a, b = rng.gauss(shift, 2.0), rng.gauss(shift, 2.0)
                y = 1 if a + b > 0 else 0
                if rng.random() < (0.05 if shift == 0 else 0.4):
                    y = 1 - y
                out.append([float(a), float(b), y])
            return out
        ref = rows(40, 0)
        data, shift = [], 0.0
        for seg in range(rng.randint(2, 4)):
            data += rows(rng.randint(40, 90), shift)
            shift = rng.choice([0.0, 0.0, 0.4, 3.0])
        return {"params": {"sensitivity": rng.choice([0.5, 1.0, 2.0]), "k": 4, "oracle_len": rng.choice([5, 8])}, "ref": ref, "data": data}
    def run(self, case):
        det = self.make(case["params"])
        cols = ["a", "b", "y"]
        det.set_reference(pd.DataFrame(case["ref"], columns=cols), target_name="y")
        rows = []
        for i, r in enumerate(case["data"]):
            np.random.seed(seed_of(case, i))
            if det.waiting_for_oracle:
                det.give_oracle_label(pd.DataFrame([r], columns=cols)); op = "label"
            else:
                det.update(pd.DataFrame([r[:2]], columns=cols[:2])); op = "update"
            ds, tot, sin = lifecycle_obs(det)
            rows.append({"ds": ds, "total": tot, "since": sin, "op": op, "waiting": bool(det.waiting_for_oracle)})
        return rows


SPECS = {s.name: s for s in [DDMSpec(), EDDMSpec(), STEPDSpec(), LFRSpec(), ADWINSpec(), ADWINAccSpec(), PHSpec(), CUSUMSpec(),
                             KdqStreamSpec(), KdqBatchSpec(), HDDDMSpec(), CDBDSpec(), NNDVISpec(), PCACDSpec(), MD3Spec()]}


def gen_case(ctx, name, k):
    c = SPECS[name].gen(ctx)
    c["det"], c["seed"] = name, (ctx.seed + 31 * k) % 100000
    if SPECS[name].inputs == "x" and name != "MD3" and ctx.rng.random() < 0.35:
        c["reuse_buffer"] = True       # the caller re-uses (and overwrites) one array object for every call
    return c
