"""Printing Python values as Coq literals."""
import math, struct

DS = {None: "DNone", "warning": "DWarn", "drift": "DDrift"}


def ds(x):
    if x not in DS:
        raise ValueError(f"drift_state outside {{None, 'warning', 'drift'}}: {x!r}")
    return DS[x]


def z(n):
    n = int(n)
    return f"({n})" if n < 0 else str(n)


def lst(items):
    return "[" + "; ".join(items) + "]"


def zlist(xs):
    return lst([z(x) for x in xs])


def dslist(xs):
    return lst([ds(x) for x in xs])


def optz(x):
    return "None" if x is None else f"(Some {z(x)})"


def recs(r):
    a, b = r
    return f"({optz(a)}, {optz(b)})"


def boolc(b):
    return "true" if b else "false"


def flt(x):
    """Exact Coq literal of a binary64 value (hex float), incl. infinities, NaN and signed zero."""
    x = float(x)
    if math.isnan(x):
        return "nan"
    if math.isinf(x):
        return "infinity" if x > 0 else "neg_infinity"
    if x == 0.0:
        return "(-0)%float" if math.copysign(1.0, x) < 0 else "0%float"
    h = x.hex()  # e.g. -0x1.8000000000000p+1
    neg = h.startswith("-")
    h = h.lstrip("-")
    return f"(-{h})%float" if neg else f"{h}%float"


def fltlist(xs):
    return lst([flt(x) for x in xs])


def optf(x):
    return "None" if x is None else f"(Some {flt(x)})"
