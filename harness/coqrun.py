"""Running Coq from the harness: build, property-file check, case evaluation."""
import fcntl, os, re, shutil, subprocess, time, glob

VERIF = os.path.dirname(os.path.dirname(os.path.abspath(__file__)))
COQ = os.path.join(VERIF, "coq")
BUILD = os.path.join(VERIF, "build")

FORBIDDEN = re.compile(
    r"\b(Admitted|admit|Axiom|Axioms|Parameter|Parameters|Conjecture|Conjectures"
    r"|Unset\s+Guard|bypass_check|type-in-type|impredicative-set|Admit\s+Obligations"
    r"|Unset\s+Positivity|Unset\s+Universe|native_compute)\b")
SECTION_ONLY = re.compile(r"^\s*(?:Local\s+|Global\s+)?(Variable|Variables|Hypothesis|Hypotheses|Context)\b")

# axioms of the standard library that theorems may depend on (DESIGN.md section 3)
ALLOWED_AXIOMS = [
    r"ClassicalDedekindReals\.sig_forall_dec", r"ClassicalDedekindReals\.sig_not_dec",
    r"FunctionalExtensionality\.functional_extensionality_dep", r"Classical_Prop\.classic",
    r"PrimFloat\.Leibniz\.eqb", r"FloatAxioms\.Leibniz\.eqb_spec", r"PrimFloat\.\w+", r"Uint63\.\w+", r"PrimInt63\.\w+", r"FloatAxioms\.\w+", r"FloatOps\.\w+",
    r"Uint63Axioms\.\w+", r"Eqdep\.Eq_rect_eq\.eq_rect_eq", r"JMeq\.JMeq_eq",
    r"ProofIrrelevance\.proof_irrelevance", r"ClassicalEpsilon\.constructive_indefinite_description",
    r"PropExtensionality\.propositional_extensionality",
]
ALLOWED_RE = re.compile(r"^(" + "|".join(ALLOWED_AXIOMS) + r")$")


class CoqError(Exception):
    pass


def _lock():
    os.makedirs(BUILD, exist_ok=True)
    f = open(os.path.join(BUILD, ".lock"), "w")
    fcntl.flock(f, fcntl.LOCK_EX)
    return f


def build(clean=False, timeout=1800):
    """(Re)build the Coq development with make; a no-op when everything is current."""
    if os.environ.get("VERIF_SKIP_BUILD") == "1":
        return 0.0
    lk = _lock()
    try:
        t = time.time()
        if clean:
            # full build from clean in a private copy (does not disturb checks running concurrently)
            d = os.path.join(BUILD, f"cleanbuild.{os.getpid()}")
            shutil.rmtree(d, ignore_errors=True)
            os.makedirs(d)
            listed = [l.strip() for l in open(os.path.join(COQ, "_CoqProject")) if l.strip().endswith(".v")]
            for f in listed + ["_CoqProject"]:
                shutil.copy(os.path.join(COQ, f), d)
            try:
                subprocess.run(["coq_makefile", "-f", "_CoqProject", "-o", "Makefile"], cwd=d, check=True, stdout=subprocess.DEVNULL)
                r = subprocess.run(["make", "-j16"], cwd=d, stdout=subprocess.PIPE, stderr=subprocess.STDOUT, text=True, timeout=timeout)
                if r.returncode != 0:
                    raise CoqError("clean build of the Coq development failed:\n" + r.stdout[-4000:])
            finally:
                shutil.rmtree(d, ignore_errors=True)
        mk, cp = os.path.join(COQ, "Makefile"), os.path.join(COQ, "_CoqProject")
        if os.path.exists(mk) and os.path.getmtime(mk) < os.path.getmtime(cp):
            os.remove(mk)
        if not os.path.exists(mk):
            subprocess.run(["coq_makefile", "-f", "_CoqProject", "-o", "Makefile"], cwd=COQ, check=True,
                           stdout=subprocess.DEVNULL)
        r = subprocess.run(["make", "-j16"], cwd=COQ, stdout=subprocess.PIPE, stderr=subprocess.STDOUT,
                           text=True, timeout=timeout)
        if r.returncode != 0:
            raise CoqError("coq build failed:\n" + r.stdout[-4000:])
        return time.time() - t
    finally:
        lk.close()


def grep_gate():
    """No Admitted/admit/Axiom/... anywhere in the development (comments excluded)."""
    hits = []
    listed = [l.strip() for l in open(os.path.join(COQ, "_CoqProject")) if l.strip().endswith(".v")]
    for p in [os.path.join(COQ, f) for f in listed]:
        src = open(p).read()
        src = strip_comments(src)
        for m in FORBIDDEN.finditer(src):
            hits.append((os.path.basename(p), m.group(0)))
        # Variable / Hypothesis / Context are allowed inside sections only
        stack = []
        for sent in re.split(r"\.\s", src):
            m = re.match(r"^\s*(Section|Module\s+Type|Module)\s+(\w+)", sent)
            if m and ":=" not in sent:
                stack.append((m.group(1).split()[0], m.group(2)))
                continue
            m = re.match(r"^\s*End\s+(\w+)", sent)
            if m and stack and stack[-1][1] == m.group(1):
                stack.pop(); continue
            m = SECTION_ONLY.match(sent)
            if m and not any(k == "Section" for k, _ in stack):
                hits.append((os.path.basename(p), m.group(1) + " outside a section"))
    return hits


def strip_comments(s):
    out, depth, i = [], 0, 0
    while i < len(s):
        if s.startswith("(*", i):
            depth += 1; i += 2
        elif s.startswith("*)", i) and depth > 0:
            depth -= 1; i += 2
        else:
            if depth == 0:
                out.append(s[i])
            i += 1
    return "".join(out)


def check_props(module, timeout=600):
    """Compile Prop file (theorem statements + Print Assumptions); return list of
    (theorem, axioms list, ok)."""
    path = os.path.join(COQ, module + ".v")
    src = strip_comments(open(path).read())
    theorems = re.findall(r"\b(?:Theorem|Corollary)\s+(\w+)", src)
    printed = re.findall(r"Print Assumptions\s+(\w+)\s*\.", src)
    missing = [t for t in theorems if t not in printed]
    if missing:
        raise CoqError(f"{module}: theorems without Print Assumptions: {missing}")
    # the compiled Prop_<ID>.vo (built by `make`, i.e. every theorem is proved) is loaded and asked for the
    # assumptions of every theorem it states
    vo = os.path.join(COQ, module + ".vo")
    if not os.path.exists(vo) or os.path.getmtime(vo) < os.path.getmtime(path):
        lk = _lock()
        try:
            r0 = subprocess.run(["coqc", "-Q", ".", "MV", module + ".v"], cwd=COQ, stdout=subprocess.PIPE,
                                stderr=subprocess.STDOUT, text=True, timeout=timeout)
        finally:
            lk.close()
        if r0.returncode != 0:
            raise CoqError(f"{module} does not compile:\n" + r0.stdout[-3000:])
    d = os.path.join(BUILD, "assumptions", f"{module}.{os.getpid()}")
    os.makedirs(d, exist_ok=True)
    fn = os.path.join(d, "Assumptions_" + module + ".v")
    with open(fn, "w") as f:
        f.write(f"From MV Require Import {module}.\n" + "".join(f"Print Assumptions {module}.{t}.\n" for t in printed))
    r = subprocess.run(["coqc", "-Q", COQ, "MV", fn], cwd=d, stdout=subprocess.PIPE, stderr=subprocess.STDOUT,
                       text=True, timeout=timeout)
    shutil.rmtree(d, ignore_errors=True)
    if r.returncode != 0:
        raise CoqError(f"{module} does not compile:\n" + r.stdout[-3000:])
    # split the output into one block per Print Assumptions
    blocks, cur = [], None
    for line in r.stdout.splitlines():
        if line.startswith("Closed under the global context"):
            blocks.append([]); cur = None
        elif line.startswith("Axioms:"):
            cur = []; blocks.append(cur)
        elif cur is not None:
            # an axiom entry starts in column 0 ("name : type" or "name" with the type on the next lines)
            m = re.match(r"^([^\s:]+)", line)
            if m and not line[0].isspace():
                cur.append(m.group(1))
    if len(blocks) != len(printed):
        raise CoqError(f"{module}: expected {len(printed)} Print Assumptions blocks, got {len(blocks)}:\n" + r.stdout[-2000:])
    res = []
    for name, ax in zip(printed, blocks):
        bad = [a for a in ax if not ALLOWED_RE.match(a)]
        res.append({"theorem": name, "axioms": ax, "ok": not bad, "disallowed": bad})
    return res


def run_cases(tag, imports, terms, shard=400, timeout=900, jobs=16):
    """terms: list of (id:int, coq_bool_term:str).  Returns (bad_ids, seconds, n_files)."""
    # one scratch directory per process, so that concurrent runs of the same check do not collide
    d = os.path.join(BUILD, tag, f"cases.{os.getpid()}")
    if os.path.isdir(d):
        shutil.rmtree(d, ignore_errors=True)
    os.makedirs(d, exist_ok=True)
    files = []
    # shard by count and by size (<= ~1 MB of text per file)
    cur, cur_sz, shards = [], 0, []
    for cid, term in terms:
        if cur and (len(cur) >= shard or cur_sz + len(term) > 900_000):
            shards.append(cur); cur, cur_sz = [], 0
        cur.append((cid, term)); cur_sz += len(term)
    if cur:
        shards.append(cur)
    for k, sh in enumerate(shards):
        fn = os.path.join(d, f"cases_{k}.v")
        with open(fn, "w") as f:
            f.write(imports + "\nOpen Scope Z_scope.\n")
            f.write("Definition cs : list (Z * bool) := [\n")
            f.write(";\n".join(f"({cid}, {t})" for cid, t in sh))
            f.write("\n].\nEval vm_compute in (bad cs).\n")
        files.append(fn)
    t = time.time()
    procs, bad = [], []
    pending = list(files)
    running = []
    def launch(fn):
        return subprocess.Popen(["bash", "-c", f"ulimit -s unlimited 2>/dev/null; exec coqc -Q {COQ} MV {fn}"],
                                cwd=d, stdout=subprocess.PIPE, stderr=subprocess.STDOUT, text=True)
    results = {}
    while pending or running:
        while pending and len(running) < jobs:
            fn = pending.pop(0)
            running.append((fn, launch(fn), time.time()))
        still = []
        for fn, p, t0 in running:
            if p.poll() is None:
                if time.time() - t0 > timeout:
                    p.kill(); raise CoqError(f"timeout evaluating {fn}")
                still.append((fn, p, t0))
            else:
                results[fn] = (p.returncode, p.stdout.read())
        running = still
        if running:
            time.sleep(0.05)
    for fn in files:
        rc, out = results[fn]
        if rc != 0:
            raise CoqError(f"case file {fn} failed:\n" + out[-3000:])
        m = re.search(r"=\s*(\[.*?\])\s*:\s*list Z", out, re.S)
        if not m:
            raise CoqError(f"cannot parse output of {fn}:\n" + out[-2000:])
        body = m.group(1).replace("%Z", "")
        ids = re.findall(r"-?\d+", body)
        bad.extend(int(x) for x in ids)
    shutil.rmtree(d, ignore_errors=True)
    return bad, time.time() - t, len(files)


def eval_term(tag, imports, term, timeout=300):
    """Evaluate one term with vm_compute and return Coq's printed answer (for diagnosis)."""
    d = os.path.join(BUILD, tag, f"show.{os.getpid()}")
    os.makedirs(d, exist_ok=True)
    fn = os.path.join(d, "show.v")
    with open(fn, "w") as f:
        f.write(imports + "\nOpen Scope Z_scope.\nEval vm_compute in (" + term + ").\n")
    r = subprocess.run(["coqc", "-Q", COQ, "MV", fn], cwd=d, stdout=subprocess.PIPE, stderr=subprocess.STDOUT,
                       text=True, timeout=timeout)
    return r.stdout.strip()[-6000:]
