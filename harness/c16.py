"""C16 — only agreement between label and prediction matters; documented-unused arguments are ignored."""
import random
import numpy as np
import pandas as pd
from . import coqgen as G
from . import c01, c03, c05, c06
from .common import *
from .detectors import SPECS, gen_case, seed_of, outcome_stream

ID = "C16"
PROPS = ["Prop_C16"]
IMPORTS = c01.IMPORTS
CORR_NAME = "Corr_C16: the models (whose only input is the agreement bit / the confusion cell) reproduce the implementation's trace under every label encoding"
TRUSTED = ["Coq 8.16.1 kernel + vm_compute + primitive floats",
           "hand-written models Ddm.v / Adwin.v / Lfr.v tied to the code by bit-level differential execution under each encoding",
           "harness/c16.py (encodings, junk values for unused arguments), harness/detectors.py"]
RULE = ("outcome sequences x label encodings (ints other than 0/1, strings, booleans, floats, three classes, 0-d / 1-d arrays, lists, Series) x junk in "
        "the documented-unused arguments (X for concept-drift detectors; y_true / y_pred for change and data-drift detectors, including wrong shapes): "
        "each variant run must reproduce the canonical 0/1 run (direct oracle) and the model run on the agreement bits (correspondence). "
        "Non-trivial: the canonical trace contains a warning or drift; distinct by content."
        " Also: the two labels in different containers (scalar vs list, list vs tuple, list vs nested list, array vs list); junk labels in set_reference of the batch detectors; LinearFourRates in regimes where decisions depend on the rates."
        " Also (DDM / EDDM / STEPD / ADWINAccuracy): string class labels that are numeric look-alikes of each other (LOOKALIKES: labels differing only by trailing NUL characters 'a'/'a\\0', zero-padded codes '7'/'007' and '7'/'07'/'007', "
        "'7'/'7.0', '7'/' 7'/'7 ', '1'/'1e0'/'1.', ''/'0', '0'/'-0'/'+0', 'nan'/'NaN', '1'/'0' for the classes 0/1) x containers of a str label (CONTAINERS: plain str, "
        "np.str_, '<U' 0-d / 1-d arrays, one-element list, object-dtype 0-d / 1-d / 1x1 arrays, one-element pandas Series with the default (str) and with object dtype, "
        "and the two labels in different ones: Series vs plain str, '<U' array vs object array): every base case runs every container, each with a look-alike labelling "
        "that rotates with the base case, so the quick tier covers the whole product. The agreement bit of a pair is Python equality (==) of the caller's label VALUES "
        "('7' and '007' are different labels); the harness asserts for every fed pair, of every encoding, that the value read back from the container is the label "
        "itself and that its equality is the canonical agreement bit.")
SHARD = 40

ENC_NAMES = ["int01", "ints_5_9", "strings", "bools", "floats", "three_classes", "np0d", "np1d", "list1", "series1", "mixed_pairs",
             "strings_prefix", "int_vs_float", "mixed_types", "scalar_vs_list", "list_vs_tuple", "list_vs_nested", "array_vs_list"]
JUNK = ["none", "scalar", "string", "vector", "matrix", "frame", "nan"]

# ---- string labels that are numeric look-alikes of each other, and the containers a str label arrives in -------------------------
# A labelling lists the labels of the classes (two: class c gets LOOKALIKES[..][c]; three: the scheme of "three_classes").  The labels
# of one labelling are pairwise different *strings* that a numeric reading (int / float / pandas.to_numeric, strip, truthiness) would
# identify, or - '' / 'nan' - would make unequal to themselves.  Only `==` of the label values may matter to the four detectors.
LOOKALIKES = {
    "zero_padded": ("7", "007"),
    "zero_padded3": ("7", "07", "007"),
    "int_float_str": ("7", "7.0"),
    "blank_padded": ("7", " 7", "7 "),
    "sci": ("1", "1e0", "1."),
    "empty": ("", "0"),
    "signed_zero": ("0", "-0", "+0"),
    "nan_words": ("nan", "NaN"),
    "swapped01": ("1", "0"),
    # labels that differ only by trailing NUL characters: numpy's '<U' storage drops trailing NULs, and np.array(y) in _validate_y
    # made them equal in every non-object container (plain str, list) - found with this generator, repaired in /repo by
    # "fix: streaming label validation keeps string labels as given" (known_findings.json); generated so that a return is reported.
    # The '<U' boxes cannot hold such a label (the self-check of the boxes would refuse them): relabel() skips those pairs.
    "trailing_nul": ("a", "a\0"),
    "trailing_nul3": ("a", "a\0", "a\0\0"),
}
# (The boxes below are also checked, per fed pair, to hand over the label unaltered: pd.array([b"7"], dtype="string"), for instance, would not.)

# name -> (box for y_true, box for y_pred); every box holds exactly one str label
_B = {
    "str": lambda s: s,
    "np_str": lambda s: np.str_(s),
    "U0d": lambda s: np.array(s),
    "U1d": lambda s: np.array([s]),
    "list1": lambda s: [s],
    "obj0d": lambda s: np.array(s, dtype=object),
    "obj1d": lambda s: np.array([s], dtype=object),
    "obj1x1": lambda s: np.array([[s]], dtype=object),
    "series": lambda s: pd.Series([s]),                       # pandas 3: dtype str, numpy sees object
    "series_obj": lambda s: pd.Series([s], dtype=object),
}
CONTAINERS = {n: (n, n) for n in _B}
CONTAINERS["series_vs_str"] = ("series", "str")
CONTAINERS["U1d_vs_obj1d"] = ("U1d", "obj1d")
# boxes whose numpy storage cannot hold a label ending in NUL -> the box used instead for the trailing_nul labellings
NUL_FALLBACK = {"np_str": "str", "U0d": "str", "U1d": "list1"}


def lookalike_encs(k):
    """the look-alike encodings of base case number k: every container, the labelling rotating with the container and with k
    (consecutive base cases shift it, so len(LOOKALIKES) consecutive base cases cover the whole product)"""
    labs = sorted(LOOKALIKES)
    return [f"lk/{labs[(j + k) % len(labs)]}/{c}" for j, c in enumerate(sorted(CONTAINERS))]


def relabel(labels, t, p, k):
    """labels of sample k under a labelling with two or three classes; same agreement as (t, p)"""
    if len(labels) == 2:
        return labels[t], labels[p]
    a = (k * 7 + 3) % 3
    return labels[a], labels[a if t == p else (a + 1 + (k % 2)) % 3]


def label_of(x):
    """the Python value of the single label a caller's container holds (no conversion other than numpy's / pandas' own unboxing)"""
    while True:
        if isinstance(x, (pd.Series, pd.Index)):
            x = x.tolist()
        elif isinstance(x, np.ndarray):
            x = x.tolist()          # Python objects; a 0-d array gives the scalar itself
        if isinstance(x, (list, tuple)):
            if len(x) != 1:
                raise AssertionError(f"container with {len(x)} labels")
            x = x[0]
            continue
        return x.item() if isinstance(x, np.generic) else x


def agreement(a, b):
    """the agreement bit of one fed pair: Python equality of the label values"""
    return bool(label_of(a) == label_of(b))



def encode(enc, t, p, k, rng_state):
    """t, p in {0,1}: canonical true / predicted label of sample k; returns the pair in the encoding"""
    if enc == "int01":
        return t, p
    if enc.startswith("lk/"):
        _, lab, con = enc.split("/")
        lt, lp = relabel(LOOKALIKES[lab], t, p, k)
        nt, npd = CONTAINERS[con]
        if lab.startswith("trailing_nul"):
            nt, npd = NUL_FALLBACK.get(nt, nt), NUL_FALLBACK.get(npd, npd)
        a, b = _B[nt](lt), _B[npd](lp)
        # the container must hand over the label itself (same type, same characters)
        if type(label_of(a)) is not str or label_of(a) != lt or type(label_of(b)) is not str or label_of(b) != lp:
            raise AssertionError(f"container {con!r} altered the label {lt!r} / {lp!r}: {label_of(a)!r} / {label_of(b)!r}")
        return a, b
    if enc == "ints_5_9":
        m = {0: 5, 1: 9}; return m[t], m[p]
    if enc == "strings":
        m = {0: "cat", 1: "dog"}; return m[t], m[p]
    if enc == "bools":
        return bool(t), bool(p)
    if enc == "floats":
        m = {0: -1.5, 1: 2.25}; return m[t], m[p]
    if enc == "three_classes":
        # same agreement, labels from three classes
        a = (k * 7 + 3) % 3
        return a, (a if t == p else (a + 1 + (k % 2)) % 3)
    if enc == "np0d":
        return np.array(t), np.array(p)
    if enc == "np1d":
        return np.array([t]), np.array([p])
    if enc == "list1":
        return [t], [p]
    if enc == "series1":
        return pd.Series([t]), pd.Series([p])
    if enc == "strings_prefix":
        # labels of unequal length, one a prefix of the other
        m = {0: "1", 1: "10"}; return m[t], m[p]
    if enc == "int_vs_float":
        # an int label against a float prediction: equal only when numerically equal
        return int(t), (float(t) if t == p else t + 0.5)
    if enc == "mixed_types":
        # disagreeing pairs of different Python types, agreeing pairs of the same value
        return (t, t) if t == p else (t, "other")
    # the two labels in DIFFERENT containers (for pure-Python containers `==` between them is not element-wise)
    if enc == "scalar_vs_list":
        return t, [p]
    if enc == "list_vs_tuple":
        return [t], (p,)
    if enc == "list_vs_nested":
        return [t], [[p]]
    if enc == "array_vs_list":
        return np.array([t]), [p]
    if enc == "mixed_pairs":
        # another pair with the same agreement
        a = (k * 5 + 1) % 4
        return a, (a if t == p else a + 7)
    raise KeyError(enc)


def junk(kind, k):
    if kind == "none":
        return None
    if kind == "scalar":
        return 3.5 + k
    if kind == "string":
        return "junk"
    if kind == "vector":
        return np.arange(5) * 1.5
    if kind == "matrix":
        return np.ones((3, 4)) * k
    if kind == "frame":
        return pd.DataFrame({"a": [1, 2, 3], "b": [4.0, 5.0, 6.0]})
    return float("nan")


CONCEPT = ["DDM", "EDDM", "STEPD", "ADWINAccuracy", "LinearFourRates"]
LFR_ENC = ["int01", "bools", "np_int", "np_bool", "np1d", "list1"]
UNUSED_Y = ["ADWIN", "CUSUM", "PageHinkley", "KdqTreeStreaming", "KdqTreeBatch", "HDDDM", "CDBD", "NNDVI", "PCACD"]


def gen_cases(ctx):
    cases, k = [], 0
    for name in CONCEPT:
        for _ in range(ctx.scale(4, 40)):
            k += 1
            base = gen_case(ctx, name, k)
            encs = LFR_ENC if name == "LinearFourRates" else ENC_NAMES
            for enc in encs:
                cases.append(dict(base, enc=enc, junk=ctx.rng.choice(JUNK)))
            if name != "LinearFourRates":
                # own generator: the draws of the cases above do not depend on how many look-alike encodings there are
                r2 = random.Random(ctx.seed * 7919 + k)
                for enc in lookalike_encs(k):
                    cases.append(dict(base, enc=enc, junk=r2.choice(JUNK)))
    for name in UNUSED_Y:
        for _ in range(ctx.scale(1, 8)):
            k += 1
            base = gen_case(ctx, name, k)
            # every shape-breaking kind of junk on every detector (a detector that starts validating the
            # unused arguments rejects exactly these), plus the scalar / string / NaN kinds
            for j in JUNK[1:]:
                cases.append(dict(base, junk=j))
    return cases


def lfr_encode(enc, v):
    return {"int01": int(v), "bools": bool(v), "np_int": np.int64(v), "np_bool": np.bool_(v), "np1d": np.array([v]), "list1": [v]}[enc]


def run_variant(case, canonical):
    name = case["det"]
    spec = SPECS[name]
    if canonical:
        return spec.run({k: v for k, v in case.items() if k not in ("enc", "junk")})
    if spec.kind == "batch" and case.get("junk", "none") != "none" and name in UNUSED_Y:
        # the reference call has the same documented-unused arguments: junk there too
        case = dict(case, _ref_junk=[junk(case["junk"], -1), junk(case["junk"], -2)])
    det, data = spec.start(case)
    rows = [dict(spec.observe(det), step=-1)] if spec.kind == "batch" else []
    for i, item in enumerate(data):
        np.random.seed(seed_of(case, i))
        jk = junk(case["junk"], i)
        if name in CONCEPT:
            t, p = item
            if name == "LinearFourRates":
                a, b = lfr_encode(case["enc"], t), lfr_encode(case["enc"], p)
            else:
                a, b = encode(case["enc"], t, p, i, None)
                # the bit the canonical run stands for is `==` of the label VALUES the caller passes
                if agreement(a, b) != (t == p):
                    raise AssertionError(f"encoding {case['enc']!r} does not preserve agreement at sample {i}: {a!r} / {b!r} for {t} / {p}")
            det.update(a, b, jk) if case["junk"] != "none" else det.update(a, b)
        elif spec.kind == "batch":
            det.update(np.array(item, dtype=float), jk, junk(case["junk"], i + 1))
        else:
            det.update(item, jk, junk(case["junk"], i + 1))
        rows.append(spec.observe(det))
    return rows


def run_impl(case):
    return {"canonical": run_variant(case, True), "variant": run_variant(case, False)}


def direct_check(case, obs):
    name = case["det"]
    if "__exception__" in obs:
        what = f"encoding {case.get('enc')!r}" if name in CONCEPT else f"junk {case['junk']!r} in y_true / y_pred"
        return [f"{name} under {what} (unused-argument junk {case.get('junk')!r}) raised {obs['__exception__']}: {obs['__message__']}"]
    from .c02 import same
    for i, (c, v) in enumerate(zip(obs["canonical"], obs["variant"])):
        for k in c:
            if not same(c[k], v.get(k)):
                what = f"label encoding {case.get('enc')!r} / X={case.get('junk')!r}" if name in CONCEPT else f"y_true / y_pred = {case['junk']!r}"
                return [f"{name} {case['params']} update {i}: {k} = {v.get(k)!r} under {what}, canonical run has {c[k]!r}"]
    if len(obs["canonical"]) != len(obs["variant"]):
        return [f"{name}: variant run has {len(obs['variant'])} rows, canonical {len(obs['canonical'])}"]
    return []


def coq_term(case, obs):
    """the model fed the agreement bits must reproduce the *variant* run of the implementation"""
    name = case["det"]
    if name not in ("DDM", "EDDM", "STEPD", "ADWINAccuracy") or "__exception__" in obs:
        return None
    base = {k: v for k, v in case.items() if k not in ("enc", "junk")}
    mod, c = c01.delegate(base)
    rows = obs["variant"]
    if mod is c05:
        o = {"rows": []}
        det = SPECS[name].make(case["params"])
        # statistics / accuracies are not part of the variant observation: compare the lifecycle observables only
        for r in rows:
            row = {"ds": r["ds"], "total": r["total"], "since": r["since"], "recs": r["recs"], "priv": [None, None, None]}
            if name == "STEPD":
                row["acc"] = [None, None, None]
            o["rows"].append(row)
        c = dict(c, extras=False)
        if name == "STEPD":
            # STEPD's checker needs the accuracies: take them from a canonical re-run (they are compared in C05)
            o2 = c05.run_impl(c)
            for row, r2 in zip(o["rows"], o2["rows"]):
                row["acc"] = r2["acc"]
        return c05.coq_term(c, o)
    if mod is c03:
        o = {"rows": [{"ds": r["ds"], "total": r["total"], "since": r["since"], "recs": r["recs"], "mean": None, "var": None,
                       "priv": [r.get("W"), None, None]} for r in rows]}
        t = c03.coq_term(c, o)
        return t
    return None


def nontrivial(case, obs):
    return any(r.get("ds") is not None for r in obs.get("canonical", []))


def shrink_candidates(case):
    return c01.shrink_candidates(case)


def signature(case, obs, msgs):
    return {"det": case["det"]}
