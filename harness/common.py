"""Helpers shared by the streaming-detector property modules."""
import math, warnings, contextlib, sys, types
import numpy as np
from . import coqgen as G

warnings.filterwarnings("ignore")
np.seterr(all="ignore")

MISSING = object()


def recs_of(det):
    r = getattr(det, "retraining_recs", None)
    if r is None:
        return [None, None]
    out = []
    for v in list(r):
        out.append(None if v is None else int(v))
    return out


def lifecycle_obs(det):
    tot = getattr(det, "total_samples", None)
    if tot is None:
        tot = getattr(det, "total_batches", None)
    if tot is None:
        tot = getattr(det, "total_updates", None)
    sin = getattr(det, "samples_since_reset", None)
    if sin is None:
        sin = getattr(det, "batches_since_reset", None)
    if sin is None:
        sin = getattr(det, "updates_since_reset", None)
    return det.drift_state, int(tot), int(sin)


def priv(det, name):
    """optional private observable: a float or None when absent / not a number"""
    v = getattr(det, name, MISSING)
    if v is MISSING or v is None:
        return None
    try:
        return float(v)
    except Exception:
        return None


def obs_term(ds, total, since, recs):
    return f"mk_obs {G.ds(ds)} {G.z(total)} {G.z(since)} {G.recs(recs)}"


def row_term(ds, total, since, recs, extras):
    ex = G.lst(["None" if e is None else f"(Some {G.flt(e)})" for e in extras])
    return f"({obs_term(ds, total, since, recs)}, {ex})"


def bools(xs):
    return G.lst([G.boolc(x) for x in xs])


def piecewise_bernoulli(rng, n, levels):
    """0/1 sequence whose success probability changes level at random change points"""
    out, p = [], rng.choice(levels)
    i = 0
    while i < n:
        seg = rng.randint(max(5, n // 12), max(6, n // 3))
        for _ in range(min(seg, n - i)):
            out.append(1 if rng.random() < p else 0)
        i += seg
        p = rng.choice(levels)
    return out[:n]


def feq(a, b):
    """bitwise float equality (NaN == NaN)"""
    if a is None or b is None:
        return a is b
    a, b = float(a), float(b)
    if math.isnan(a) or math.isnan(b):
        return math.isnan(a) and math.isnan(b)
    return a == b and math.copysign(1, a) == math.copysign(1, b)


@contextlib.contextmanager
def rebound(source, attr, replacement, prefixes=("menelaus",)):
    """For the duration: `source.attr` is `replacement`, and so is every module-level name of the library under test
    that is bound to the original object - whatever that name is and however it was imported (`import x`, `import x as
    y`, `from x import f`, `from x import f as g` all see the replacement).  Everything is restored on exit."""
    orig = getattr(source, attr)
    changed = [(source, attr, orig)]
    setattr(source, attr, replacement)
    try:
        for name, m in list(sys.modules.items()):
            if m is None or not any(name == p or name.startswith(p + ".") for p in prefixes):
                continue
            for k, v in list(vars(m).items()):
                if v is orig and not (m is source and k == attr):
                    changed.append((m, k, orig))
                    setattr(m, k, replacement)
        yield orig
    finally:
        for m, k, v in reversed(changed):
            setattr(m, k, v)
