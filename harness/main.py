import argparse, importlib, os, sys
from . import core


def main():
    ap = argparse.ArgumentParser()
    ap.add_argument("pid")
    ap.add_argument("--tier", default=os.environ.get("VERIF_TIER", "quick"), choices=["quick", "thorough"])
    ap.add_argument("--replay")
    a = ap.parse_args()
    seed = int(os.environ.get("VERIF_SEED", "20260930"))
    mod = importlib.import_module("harness." + a.pid.lower())
    sys.exit(core.run(mod, a.tier, seed, a.replay))


if __name__ == "__main__":
    main()
