"""C10 — NN-DVI measures neighbourhood density change between exactly the given batches."""
import math
from fractions import Fraction
import numpy as np
import scipy.stats
from menelaus.partitioners import NNSpacePartitioner
from menelaus.data_drift import NNDVI
from . import coqgen as G
from .common import *

ID = "C10"
PROPS = ["Prop_C10"]
IMPORTS = "From MV Require Import Base Lifecycle Nnsp.\nFrom Coq Require Import QArith."
CORR_NAME = ("Corr_C10: Nnsp.v (np.unique pooling, one-hot membership, k-NN checker, weight-normalised matrix, exact NNPS "
             "distance, NNDVI on the generic machine) = NNSpacePartitioner.py / nndvi.py")
TRUSTED = ["Coq 8.16.1 kernel + vm_compute (theorems: Closed under the global context)",
           "hand-written model coq/Nnsp.v, coq/Lifecycle.v tied to the code by differential execution on every run",
           "oracles of the model: sklearn NearestNeighbors (accepted only if the exact checker knn_ok holds), "
           "np.random.permutation (re-drawn by the harness under the same seed), numpy mean/std and scipy.stats.norm.ppf "
           "of the standard normal (threshold recomputed by the harness from distances validated against the exact values)",
           "coordinates: binary64 values multiplied by one common power of two per case (exact integers)",
           "distance: implementation double vs exact rational within (L+2) ulp, L = longest addition chain of numpy's "
           "pairwise sum over |D| terms (observed maximum recorded in the evidence)",
           "harness/c10.py (independent Python re-implementation over Fractions), harness/coqgen.py"]
RULE = ("pairs of samples: integer grids of side 1..5 in 1-3 dimensions (distance ties and duplicates within/across samples are "
        "the norm), dyadic and generic binary64 coordinates, sizes 0..14 chosen independently (equal and unequal), structured "
        "pairs (same set with different multiplicities, subset, disjoint translate, single distinct point, empty first sample), "
        "k in {1,2,3,5,8,|D|-1,|D|} and, in 8 % of the pairs, |D|+1 (must be refused); every pair is also built with the samples swapped and three permutation trials are "
        "evaluated. Sequences: NNDVI over 3-8 batches of changing size whose location shifts, k in {1,2,3,5}, sampling_times in "
        "{1,2,5,20,50}, alpha in {0.01,0.05,0.2,0.4,0.7}, np.random.seed(f(case, step)) before each update. Non-trivial: a pair "
        "that builds with at least two pooled points; a sequence with at least one drift and one non-drift update. Also (own generator state): pairs and "
        "sequences with one feature of large magnitude and fine spacing (1.7e9 / 3e8 / 2e10 plus quarters, exact doubles), k below and above half of the pooled points."
        " Also: references handed over as int64 / float32 arrays (values exactly representable) with double batches.")
SHARD = 60


# ------------------------------------------------------------------ exact helpers (independent of the model)
def arr(rows, dim):
    return np.array(rows, dtype=float).reshape(len(rows), dim)


def scale_of(rowsets):
    """common power of two making every coordinate an integer"""
    den = 1
    for rows in rowsets:
        for r in rows:
            for x in r:
                den = max(den, Fraction(float(x)).denominator)
    return den


def ipts(rows, sc):
    out = []
    for r in rows:
        out.append([int(Fraction(float(x)) * sc) for x in r])
    return out


def tup(rows):
    return [tuple(float(x) + 0.0 for x in r) for r in rows]      # + 0.0: -0.0 and 0.0 are one value


def spec_D(s1, s2):
    return sorted(set(tup(s1)) | set(tup(s2)))


def spec_v(D, s):
    ss = set(tup(s))
    return [1 if p in ss else 0 for p in D]


def sqd(a, b):
    return sum((Fraction(x) - Fraction(y)) ** 2 for x, y in zip(a, b))


def knn_problem(k, D, A):
    """None when A is a k-nearest-neighbour relation of D (self included); any valid tie choice passes"""
    n = len(D)
    if len(A) != n or any(len(r) != n for r in A):
        return f"adjacency matrix is not {n}x{n}"
    ties = 0
    for i in range(n):
        row = A[i]
        if any(x not in (0, 1) for x in row):
            return f"row {i} has an entry outside {{0,1}}"
        if sum(row) != k:
            return f"row {i} has {sum(row)} neighbours, k = {k}"
        if row[i] != 1:
            return f"point {i} is not its own neighbour"
        ds = [sqd(D[i], D[j]) for j in range(n)]
        ch = [ds[j] for j in range(n) if row[j] == 1]
        un = [ds[j] for j in range(n) if row[j] == 0]
        if ch and un:
            if max(ch) > min(un):
                j = max((j for j in range(n) if row[j] == 1), key=lambda j: ds[j])
                l = min((j for j in range(n) if row[j] == 0), key=lambda j: ds[j])
                return (f"row {i}: chosen neighbour {j} at squared distance {ds[j]} is farther than unchosen "
                        f"{l} at {ds[l]}")
            if max(ch) == min(un):
                ties += 1
    knn_problem.ties = ties
    return None


def spec_nnps(A):
    w = [sum(r) for r in A]
    q = 1
    for x in w:
        q = math.lcm(q, x)
    return [[(q // wi if wi else 0) * a for a in r] for r, wi in zip(A, w)]


def exact_distance(M, v1, v2):
    n = len(v1)
    cols = len(M[0]) if M else 0
    m1 = [sum(v1[i] * M[i][j] for i in range(n)) for j in range(cols)]
    m2 = [sum(v2[i] * M[i][j] for i in range(n)) for j in range(cols)]
    if any(a + b == 0 for a, b in zip(m1, m2)):
        return None
    return sum(Fraction(abs(a - b), a + b) for a, b in zip(m1, m2)) / n


def chain(n):
    """longest chain of additions in numpy's pairwise summation of n doubles"""
    if n < 8:
        return max(n - 1, 0)
    if n <= 128:
        return (n // 8 - 1) + 3 + (n % 8)
    h = n // 2
    h -= h % 8
    return 1 + max(chain(h), chain(n - h))


def tol_ulps(n):
    return chain(n) + 2


def ulp_err(d, ex):
    """(error in ulps of d, tolerance as exact Fraction)"""
    u = Fraction(math.ulp(d))
    return float(abs(Fraction(d) - ex) / u), u


def fit_threshold(ds, alpha):
    """norm.fit + norm.ppf(1 - alpha, mu, std), from the permutation distances"""
    a = np.asarray(ds, dtype=float)
    mu = a.mean()
    std = np.sqrt(((a - mu) ** 2).mean())
    if not (std > 0) or not np.isfinite(mu):
        return float("nan"), float(mu), float(std)
    return float(mu + std * scipy.stats.norm.ppf(1 - alpha)), float(mu), float(std)


def ilist(M):
    return [[int(x) for x in r] for r in M]


def as_int_vec(v):
    out = []
    for x in v:
        if float(x) != int(x):
            raise ValueError(f"membership entry {x!r} is not an integer")
        out.append(int(x))
    return out


# ------------------------------------------------------------------ generators
def grid_rows(rng, n, dim, g, lo=0):
    return [[float(rng.randint(lo, lo + g)) for _ in range(dim)] for _ in range(n)]


def float_rows(rng, n, dim, mode):
    if mode == "epoch":
        # one feature of large magnitude and fine spacing (an epoch timestamp in seconds; all values exact doubles): a
        # neighbour search that expands |x-y|^2 = |x|^2 - 2xy + |y|^2 cancels catastrophically on such data
        base = rng.choice([1.7e9, 1.7e9, 3.0e8, 2.0e10])
        col = rng.randrange(dim)
        return [[(base + rng.randint(0, 480) / 4.0) if c == col else rng.randint(0, 40) / 8.0 for c in range(dim)] for _ in range(n)]
    if mode == "dyadic":
        return [[rng.randint(-32, 32) / 8.0 for _ in range(dim)] for _ in range(n)]
    return [[rng.uniform(-2.0, 2.0) for _ in range(dim)] for _ in range(n)]


KS = [1, 2, 3, 5, 8]


def gen_pair(ctx, rng, force_style=None):
    dim = rng.choice([1, 1, 2, 2, 3])
    style = force_style or rng.choice(["grid", "grid", "grid", "dyadic", "float"])
    n1, n2 = rng.randint(0, 14), rng.randint(1, 14)
    if rng.random() < 0.25:
        n1 = n2
    if style == "grid":
        g = rng.choice([1, 2, 3, 5])
        s1, s2 = grid_rows(rng, n1, dim, g), grid_rows(rng, n2, dim, g)
    else:
        s1, s2 = float_rows(rng, n1, dim, style), float_rows(rng, n2, dim, style)
    shape = rng.choice(["free", "free", "free", "same_set", "subset", "translate", "copy_some", "one_point"])
    if shape == "same_set" and s1:
        s2 = [list(r) for r in s1] + [list(rng.choice(s1)) for _ in range(rng.randint(0, 4))]
        rng.shuffle(s2)
    elif shape == "subset" and s1:
        s2 = [list(rng.choice(s1)) for _ in range(n2)]
    elif shape == "translate" and s1:
        s2 = [[x + 100.0 for x in r] for r in s1][:max(1, n2)]
    elif shape == "copy_some" and s1:
        s2 = s2 + [list(rng.choice(s1)) for _ in range(rng.randint(1, 4))]
        s1 = s1 + [list(rng.choice(s1)) for _ in range(rng.randint(0, 3))]
    elif shape == "one_point":
        p = s2[0]
        s1, s2 = [list(p) for _ in range(n1)], [list(p) for _ in range(n2)]
    nD = len(spec_D(s1, s2))
    if rng.random() < 0.08:
        k = nD + 1                                   # the implementation must refuse
    else:
        k = rng.choice([x for x in KS if x <= nD] + [nD, max(1, nD - 1)])
    ctx.stats["pair_style_" + style] = ctx.stats.get("pair_style_" + style, 0) + 1
    ctx.stats["pair_shape_" + shape] = ctx.stats.get("pair_shape_" + shape, 0) + 1
    return {"kind": "pair", "k": k, "dim": dim, "s1": s1, "s2": s2, "seed": rng.randint(0, 2 ** 31 - 1), "trials": 3,
            "alpha": rng.choice([0.01, 0.05, 0.2, 0.4, 0.7])}


def gen_seq(ctx, rng, force_style=None):
    dim = rng.choice([1, 2])
    style = force_style or rng.choice(["grid", "grid", "float"])
    k = rng.choice([1, 2, 2, 2, 3, 3, 3, 5, 5] + ([8, 11] if force_style == "epoch" else []))
    nb = rng.randint(3, 8)
    centre, batches = 0, []
    base = rng.choice([1.7e9, 3.0e8, 2.0e10])
    for _ in range(nb + 1):
        if rng.random() < 0.45:
            centre += rng.choice([-6, -3, 3, 6, 12])
        for _attempt in range(50):
            n = rng.randint(max(2, k), 14)
            if style == "grid":
                rows = grid_rows(rng, n, dim, rng.choice([3, 5, 8]), lo=centre)
            elif style == "epoch":      # first feature: large magnitude, fine spacing (exact doubles)
                rows = [[(base + 8 * centre + rng.randint(0, 240) / 4.0) if c == 0 else rng.randint(0, 40) / 8.0
                         for c in range(dim)] for _ in range(n)]
            else:
                rows = [[rng.gauss(centre, 1.5) for _ in range(dim)] for _ in range(n)]
            if len(set(tup(rows))) >= k:        # every pooled set then has at least k points
                break
        else:
            rows = [[float(centre + j)] * dim for j in range(max(2, k))]
        batches.append(rows)
    # dtype of the array handed to set_reference: the reference may be integer-valued / single precision while the
    # batches are doubles (the values of the reference are then chosen exactly representable in that dtype)
    ref, ref_dtype, u = batches[0], "float64", rng.random()
    if u < 0.3:
        cand = [[float(round(v)) for v in r] for r in ref]
        if len(set(tup(cand))) >= k:
            ref, ref_dtype = cand, "int64"
    elif u < 0.5 and style == "float":      # (Gaussian batches are never single-precision values)
        cand = [[round(v * 8) / 8 for v in r] for r in ref]
        if len(set(tup(cand))) >= k:
            ref, ref_dtype = cand, "float32"
    if ref_dtype == "int64" and style == "grid":      # make sure some batch is not integer-valued: a dyadic shift
        # (exact in double arithmetic, so exact distance ties stay exact ties and nothing becomes a near-tie)
        j = rng.randrange(len(batches) - 1) + 1
        sh = rng.choice([0.25, -0.5, 0.75])
        batches[j] = [[v + sh for v in r] for r in batches[j]]
    ctx.stats["seq_ref_dtype_" + ref_dtype] = ctx.stats.get("seq_ref_dtype_" + ref_dtype, 0) + 1
    return {"kind": "seq", "k": k, "dim": dim, "sampling_times": rng.choice([1, 2, 5, 5, 20, 20, 20, 50, 50]),
            "alpha": rng.choice([0.01, 0.05, 0.2, 0.4, 0.7]), "ref": ref, "batches": batches[1:], "ref_dtype": ref_dtype,
            "seed": rng.randint(0, 2 ** 31 - 1)}


FIXED = [
    # unequal sizes 6 + 2 (the S6 witness), duplicates within and across
    {"kind": "pair", "k": 2, "dim": 2, "s1": [[0, 0], [1, 0], [0, 0], [2, 2], [1, 1], [3, 1]], "s2": [[1, 0], [5, 5]],
     "seed": 1, "trials": 3, "alpha": 0.05},
    # 1-d ties: the middle point may choose either neighbour
    {"kind": "pair", "k": 2, "dim": 1, "s1": [[0], [2], [0]], "s2": [[1], [2]], "seed": 2, "trials": 3, "alpha": 0.05},
    # signed zeros are one value for np.unique
    {"kind": "pair", "k": 1, "dim": 2, "s1": [[0.0, 1.0], [-0.0, 1.0]], "s2": [[0.0, 1.0], [2.0, 1.0]], "seed": 3,
     "trials": 2, "alpha": 0.05},
    # empty first sample
    {"kind": "pair", "k": 2, "dim": 1, "s1": [], "s2": [[1.0], [2.5], [4.0]], "seed": 4, "trials": 2, "alpha": 0.05},
    # more neighbours than pooled points
    {"kind": "pair", "k": 4, "dim": 1, "s1": [[1.0], [1.0]], "s2": [[2.0], [3.0], [2.0]], "seed": 5, "trials": 1, "alpha": 0.05},
]


def gen_cases(ctx):
    rng = ctx.rng
    cases = [dict(c, s1=[[float(x) for x in r] for r in c["s1"]], s2=[[float(x) for x in r] for r in c["s2"]]) for c in FIXED]
    for _ in range(ctx.scale(600, 8000)):
        cases.append(gen_pair(ctx, rng))
    for _ in range(ctx.scale(120, 1500)):
        cases.append(gen_seq(ctx, rng))
    # large-magnitude, finely spaced feature (own generator state: the cases above do not depend on this family); with k
    # below and above half of the pooled points, since library neighbour searches switch algorithm there
    import random
    r2 = random.Random(ctx.seed * 1000003 + 77)
    for _ in range(ctx.scale(80, 1000)):
        cases.append(gen_pair(ctx, r2, force_style="epoch"))
    for _ in range(ctx.scale(16, 200)):
        cases.append(gen_seq(ctx, r2, force_style="epoch"))
    ctx.stats["pairs"] = sum(1 for c in cases if c["kind"] == "pair")
    ctx.stats["sequences"] = sum(1 for c in cases if c["kind"] == "seq")
    global _STATS
    _STATS = ctx.stats
    return cases


_STATS = {}


def bump(key, n=1):
    _STATS[key] = _STATS.get(key, 0) + n


def peak(key, v):
    _STATS[key] = max(_STATS.get(key, 0), v)


# ------------------------------------------------------------------ running the implementation
def build_obs(k, s1, s2):
    p = NNSpacePartitioner(k)
    try:
        p.build(s1, s2)
    except ValueError as e:
        return {"raised": "ValueError", "message": str(e)[:200]}
    d = NNSpacePartitioner.compute_nnps_distance(p.nnps_matrix, p.v1, p.v2)
    return {"D": np.asarray(p.D, dtype=float).tolist(), "v1": [float(x) for x in p.v1], "v2": [float(x) for x in p.v2],
            "adj": np.asarray(p.adjacency_matrix).tolist(), "nnps": np.asarray(p.nnps_matrix).tolist(), "d": float(d)}


def shuffle_obs(case, b, n_trials, seed):
    """permutation trials on the implementation's own matrices, under a fixed seed"""
    out = []
    np.random.seed(seed)
    v1 = np.array(b["v1"], dtype=float)
    M = np.array(b["nnps"], dtype=float)
    for _ in range(n_trials):
        vs = np.random.permutation(v1)
        d = NNSpacePartitioner.compute_nnps_distance(M, vs, 1 - vs)
        out.append({"v": [float(x) for x in vs], "d": float(d)})
    return out


def run_impl(case):
    dim, k = case["dim"], case["k"]
    if case["kind"] == "pair":
        s1, s2 = arr(case["s1"], dim), arr(case["s2"], dim)
        b = build_obs(k, s1, s2)
        sw = build_obs(k, s2, s1)
        obs = {"build": b, "swapped": sw}
        if "raised" not in b:
            obs["trials"] = shuffle_obs(case, b, case["trials"], case["seed"])
            f = getattr(NNDVI, "_compute_drift_threshold", None)      # optional private observable
            if f is not None:
                try:
                    np.random.seed(case["seed"])
                    th = f(np.array(b["nnps"]), np.array(b["v1"]), np.array(b["v2"]), case["trials"], case["alpha"])
                    obs["theta_priv"] = float(th)
                except Exception:
                    pass
        return obs
    det = NNDVI(k_nn=k, sampling_times=case["sampling_times"], alpha=case["alpha"])
    R = arr(case["ref"], dim).astype(case.get("ref_dtype", "float64"))
    det.set_reference(R)
    R[...] = 12345.678      # the caller overwrites what it handed over: "exactly the given batches" must not depend on it
    steps = []
    for i, rows in enumerate(case["batches"]):
        ref_before = np.array(det.reference_batch, dtype=float)
        X = arr(rows, dim)
        np.random.seed(step_seed(case, i))
        det.update(X)
        X[...] = 12345.678
        st, tot, sin = lifecycle_obs(det)
        b = build_obs(k, ref_before, arr(rows, dim))
        step = {"ds": st, "total": tot, "since": sin, "ref_before": ref_before.tolist(),
                "ref_after": np.array(det.reference_batch, dtype=float).tolist(), "build": b}
        if "raised" not in b:
            step["trials"] = shuffle_obs(case, b, case["sampling_times"], step_seed(case, i))
        steps.append(step)
    return {"steps": steps}


def step_seed(case, i):
    return (case["seed"] + 7919 * i) % (2 ** 31 - 1)


# ------------------------------------------------------------------ direct check (property on the implementation alone)
def check_build(k, s1, s2, b, label):
    """all the NNSP claims for one build; returns (messages, info)"""
    D = spec_D(s1, s2)
    if "raised" in b:
        if k > len(D):
            return [], None
        return [f"{label}: build raised {b['message']!r} although k = {k} <= {len(D)} pooled points"], None
    if k > len(D):
        return [f"{label}: build accepted k = {k} > {len(D)} pooled points"], None
    msgs = []
    if tup(b["D"]) != D:
        return [f"{label}: D = {b['D']} is not the sorted de-duplicated union {[list(p) for p in D]}"], None
    e1, e2 = spec_v(D, s1), spec_v(D, s2)
    if [float(x) for x in e1] != b["v1"]:
        msgs.append(f"{label}: v1 = {b['v1']} but the points of the first sample are {e1} (|s1|={len(s1)}, |s2|={len(s2)})")
    if [float(x) for x in e2] != b["v2"]:
        msgs.append(f"{label}: v2 = {b['v2']} but the points of the second sample are {e2} (|s1|={len(s1)}, |s2|={len(s2)})")
    if msgs:
        return msgs, None
    try:
        A = [as_int_vec(r) for r in b["adj"]]
    except ValueError as e:
        return [f"{label}: adjacency matrix: {e}"], None
    pr = knn_problem(k, D, A)
    if pr:
        return [f"{label}: adjacency matrix is not the {k}-NN relation of D: {pr}"], None
    ties = knn_problem.ties
    M = spec_nnps(A)
    if [[float(x) for x in r] for r in M] != b["nnps"]:
        msgs.append(f"{label}: nnps_matrix differs from the weight-normalised adjacency matrix")
    ex = exact_distance(M, e1, e2)
    if ex is None:
        return msgs + [f"{label}: a column of the representation has total weight 0"], None
    d = b["d"]
    if not (isinstance(d, float) and math.isfinite(d)):
        return msgs + [f"{label}: distance {d!r} is not a finite number (exact value {ex})"], None
    err, u = ulp_err(d, ex)
    if err > tol_ulps(len(D)):
        msgs.append(f"{label}: distance {d!r} differs from the exact value {ex} = {float(ex)!r} by {err:.1f} ulp")
    if not (0.0 <= d <= 1.0) or not (0 <= ex <= 1):
        msgs.append(f"{label}: distance {d!r} outside [0, 1]")
    if set(tup(s1)) == set(tup(s2)) and d != 0.0:
        msgs.append(f"{label}: both samples are the same set but the distance is {d!r}")
    return msgs, {"D": D, "v1": e1, "v2": e2, "A": A, "M": M, "ex": ex, "err": err, "ties": ties}


def check_trials(label, info, vref, trials):
    msgs = []
    n = len(info["D"])
    for t in trials:
        vs = as_int_vec(t["v"])
        if sorted(vs) != sorted(vref):
            msgs.append(f"{label}: permutation trial {vs} is not a re-assignment of {vref}")
            continue
        ex = exact_distance(info["M"], vs, [1 - x for x in vs])
        if ex is None or not math.isfinite(t["d"]):
            msgs.append(f"{label}: permutation trial distance {t['d']!r} (exact {ex})")
            continue
        err, _ = ulp_err(t["d"], ex)
        peak("max_ulp_err_trials", round(err, 3))
        if err > tol_ulps(n) or not (0.0 <= t["d"] <= 1.0):
            msgs.append(f"{label}: permutation trial distance {t['d']!r} vs exact {float(ex)!r} ({err:.1f} ulp)")
    return msgs


def same_theta(a, b):
    if math.isnan(a) or math.isnan(b):
        return math.isnan(a) and math.isnan(b)
    return abs(a - b) <= 1e-9 * max(1.0, abs(a))


def direct_check(case, obs):
    if "__exception__" in obs:
        return [f"{case['kind']} case raised {obs['__exception__']}: {obs['__message__']}"]
    k = case["k"]
    if case["kind"] == "pair":
        s1, s2 = case["s1"], case["s2"]
        msgs, info = check_build(k, s1, s2, obs["build"], "build(s1, s2)")
        m2, info2 = check_build(k, s2, s1, obs["swapped"], "build(s2, s1)")
        msgs += m2
        if info and info2:
            if obs["build"]["d"] != obs["swapped"]["d"]:
                msgs.append(f"distance is not symmetric: d(s1, s2) = {obs['build']['d']!r}, d(s2, s1) = {obs['swapped']['d']!r}")
            if obs["build"]["v1"] != obs["swapped"]["v2"] or obs["build"]["v2"] != obs["swapped"]["v1"] \
                    or obs["build"]["D"] != obs["swapped"]["D"]:
                msgs.append("swapping the samples does not swap v1 / v2 over the same D")
            peak("max_ulp_err", round(info["err"], 3))
            msgs += check_trials("build(s1, s2)", info, info["v1"], obs.get("trials", []))
            if "theta_priv" in obs and obs.get("trials"):
                own, _, _ = fit_threshold([t["d"] for t in obs["trials"]], case["alpha"])
                if not same_theta(own, obs["theta_priv"]):
                    msgs.append(f"_compute_drift_threshold = {obs['theta_priv']!r}, the (1 - alpha) normal quantile of the "
                                f"trial distances is {own!r}")
        return msgs
    return check_seq(case, obs)[0]


_SEQ_CACHE = {}


def check_seq(case, obs):
    """returns (messages, plan); plan = per-step model inputs up to the first step that cannot be judged"""
    key = id(obs)
    if key in _SEQ_CACHE and _SEQ_CACHE[key][0] is obs:
        return _SEQ_CACHE[key][1]
    k = case["k"]
    msgs, plan = [], []
    ref = case["ref"]
    since, prev_drift = 0, False
    for i, (rows, st) in enumerate(zip(case["batches"], obs["steps"])):
        lab = f"update {i}"
        if tup(st["ref_before"]) != tup(ref) or len(st["ref_before"]) != len(ref):
            msgs.append(f"{lab}: the reference held before the update is not the expected batch")
            break
        m, info = check_build(k, ref, rows, st["build"], lab)
        if m or info is None:
            msgs += m or [f"{lab}: the pooled set has fewer than k points"]
            break
        peak("max_ulp_err", round(info["err"], 3))
        m = check_trials(lab, info, info["v1"], st["trials"])
        if m:
            msgs += m
            break
        theta, mu, std = fit_threshold([t["d"] for t in st["trials"]], case["alpha"])
        d_ex = info["ex"]
        if math.isnan(theta):
            exp_drift = False
            bump("theta_nan")
        else:
            if (0 < std < 1e-12 and d_ex > Fraction(mu) - Fraction(1, 10 ** 9)) or abs(Fraction(theta) - d_ex) <= 16 * Fraction(math.ulp(theta)) + 16 * Fraction(math.ulp(st["build"]["d"])):
                bump("ambiguous_boundary_steps")       # the float comparison is decided by rounding noise
                break
            exp_drift = Fraction(theta) < d_ex
        since = 1 if prev_drift else since + 1
        exp_state = "drift" if exp_drift else None
        if st["ds"] != exp_state:
            msgs.append(f"{lab}: drift_state {st['ds']!r}, but the NNPS distance {float(d_ex)!r} to the reference and the "
                        f"threshold {theta!r} (alpha={case['alpha']}, {case['sampling_times']} trials, mean {mu!r}, std {std!r}) "
                        f"call for {exp_state!r}")
        if (st["total"], st["since"]) != (i + 1, since):
            msgs.append(f"{lab}: counters (total, since_reset) = {(st['total'], st['since'])}, expected {(i + 1, since)}")
        new_ref = rows if exp_drift else ref
        if tup(st["ref_after"]) != tup(new_ref) or len(st["ref_after"]) != len(new_ref):
            msgs.append(f"{lab}: reference after the update is not the {'test batch' if exp_drift else 'previous reference'}")
        if msgs:
            break
        plan.append({"rows": rows, "A": info["A"], "theta": theta, "ds": st["ds"], "total": st["total"],
                     "since": st["since"], "ref_after": st["ref_after"], "drift": exp_drift, "ties": info["ties"]})
        ref, prev_drift = new_ref, exp_drift
    res = (msgs, plan)
    _SEQ_CACHE.clear()
    _SEQ_CACHE[key] = (obs, res)
    return res


# ------------------------------------------------------------------ model terms
def qlit(fr):
    fr = Fraction(fr)
    return f"(Qmake {G.z(fr.numerator)} {fr.denominator}%positive)"


def pts(rows, sc):
    return G.lst([G.zlist(p) for p in ipts(rows, sc)])


def mat(M):
    return G.lst([G.zlist(r) for r in M])


def trials_term(trials):
    return G.lst([f"({G.zlist(as_int_vec(t['v']))}, {qlit(t['d'])})" for t in trials])


def coq_term(case, obs):
    if "__exception__" in obs:
        return "false"
    k = case["k"]
    if case["kind"] == "pair":
        s1, s2, b = case["s1"], case["s2"], obs["build"]
        if "raised" in b:
            sc = scale_of([s1, s2])
            return f"chk_too_few {G.z(k)} {pts(s1, sc)} {pts(s2, sc)}"
        sc = scale_of([s1, s2, b["D"]])
        n = len(b["D"])
        if not math.isfinite(b["d"]):
            return "false"
        tol = tol_ulps(n) * Fraction(math.ulp(b["d"]))
        t = (f"chk_build {G.z(k)} {pts(s1, sc)} {pts(s2, sc)} {pts(b['D'], sc)} {G.zlist(as_int_vec(b['v1']))} "
             f"{G.zlist(as_int_vec(b['v2']))} {mat([as_int_vec(r) for r in b['adj']])} {mat([as_int_vec(r) for r in b['nnps']])} "
             f"{qlit(b['d'])} {qlit(tol)}")
        trials = [t_ for t_ in obs.get("trials", []) if math.isfinite(t_["d"])]
        if trials:
            ttol = tol_ulps(n) * Fraction(max(math.ulp(t_["d"]) for t_ in trials))
            t += (f" && chk_shuffles (nnps_matrix {mat([as_int_vec(r) for r in b['adj']])}) {G.zlist(as_int_vec(b['v1']))} "
                  f"{trials_term(trials)} {qlit(ttol)}")
        return t
    msgs, plan = check_seq(case, obs)
    if not plan:
        return None if not msgs else "false"
    sc = scale_of([case["ref"]] + [p["rows"] for p in plan])
    xs, exp = [], []
    for p in plan:
        th = "None" if math.isnan(p["theta"]) else f"(Some {qlit(p['theta'])})"
        xs.append(f"({pts(p['rows'], sc)}, {mat(p['A'])}, {th})")
        exp.append(f"({obs_term(p['ds'], p['total'], p['since'], [None, None])}, {pts(p['ref_after'], sc)})")
    return f"chk_nndvi {G.z(k)} {pts(case['ref'], sc)} {G.lst(xs)} {G.lst(exp)}"


def show_term(case, obs):
    k = case["k"]
    if case["kind"] == "pair":
        b = obs["build"]
        if "raised" in b:
            return coq_term(case, obs)
        sc = scale_of([case["s1"], case["s2"]])
        return f"show_build {G.z(k)} {pts(case['s1'], sc)} {pts(case['s2'], sc)} {mat([as_int_vec(r) for r in b['adj']])}"
    _, plan = check_seq(case, obs)
    sc = scale_of([case["ref"]] + [p["rows"] for p in plan])
    xs = []
    for p in plan:
        th = "None" if math.isnan(p["theta"]) else f"(Some {qlit(p['theta'])})"
        xs.append(f"({pts(p['rows'], sc)}, {mat(p['A'])}, {th})")
    return f"show_nndvi {pts(case['ref'], sc)} {G.lst(xs)}"


def nontrivial(case, obs):
    if "__exception__" in obs:
        return False
    if case["kind"] == "pair":
        b = obs["build"]
        if "raised" in b:
            bump("pair_k_exceeds_points")
            return False
        s1, s2 = set(tup(case["s1"])), set(tup(case["s2"]))
        if len(case["s1"]) != len(case["s2"]):
            bump("pair_unequal_sizes")
        if len(s1) < len(case["s1"]) or len(s2) < len(case["s2"]):
            bump("pair_duplicates_within")
        if s1 & s2:
            bump("pair_duplicates_across")
        if s1 == s2:
            bump("pair_same_set")
        if knn_problem(case["k"], spec_D(case["s1"], case["s2"]), [as_int_vec(r) for r in b["adj"]]) is None and knn_problem.ties:
            bump("pair_with_distance_ties")
        return len(b["D"]) >= 2
    _, plan = check_seq(case, obs)
    nd = sum(1 for p in plan if p["drift"])
    bump("seq_updates_checked", len(plan))
    bump("seq_drifts", nd)
    bump("seq_updates_with_ties", sum(1 for p in plan if p["ties"]))
    return nd >= 1 and nd < len(plan)


def shrink_candidates(case):
    if case["kind"] == "pair":
        for name in ("s1", "s2"):
            rows = case[name]
            for i in range(len(rows)):
                if name == "s2" and len(rows) == 1:
                    continue
                yield dict(case, **{name: rows[:i] + rows[i + 1:]})
        if case["k"] > 1:
            yield dict(case, k=case["k"] - 1)
        if case["dim"] > 1:
            yield dict(case, dim=case["dim"] - 1, s1=[r[:-1] for r in case["s1"]], s2=[r[:-1] for r in case["s2"]])
        if case.get("trials", 0) > 1:
            yield dict(case, trials=1)
    else:
        b = case["batches"]
        if len(b) > 1:
            yield dict(case, batches=b[:-1])
            yield dict(case, ref=b[0], batches=b[1:], ref_dtype="float64")     # a batch is a double array
        for j in range(len(b)):
            if len(b[j]) > max(2, case["k"]):
                for i in range(len(b[j])):
                    nb = b[j][:i] + b[j][i + 1:]
                    if len(set(tup(nb))) >= case["k"]:
                        yield dict(case, batches=b[:j] + [nb] + b[j + 1:])
                        break
        if len(case["ref"]) > max(2, case["k"]):
            nr = case["ref"][:-1]
            if len(set(tup(nr))) >= case["k"]:
                yield dict(case, ref=nr)


def signature(case, obs, msgs):
    return {"kind": case["kind"]}
