"""C06 — Linear Four Rates tracks the four rates and tests them against simulated bounds."""
import itertools, math
import numpy as np
from menelaus.concept_drift import LinearFourRates
from . import coqgen as G
from .common import *

ID = "C06"
PROPS = ["Prop_C06", "Prop_C06_percentile"]
IMPORTS = "From MV Require Import Base Num NumFloat Lifecycle Corr Lfr Corr_C06 Corr_Percentile.\nFrom Coq Require Import PrimFloat."
CORR_NAME = "Corr_C06: Lfr.v (confusion matrix, statistics, gating, bounds cache; Monte-Carlo bounds and numpy round as logged oracles) = lfr.py"
TRUSTED = ["Coq 8.16.1 kernel + vm_compute + primitive floats",
           "hand-written model coq/Lfr.v tied to lfr.py by differential execution (states, recs, statistics bit-for-bit, and the exact sequence and arguments of _sim_bounds calls)",
           "the Monte-Carlo percentiles (_sim_bounds, np.random.binomial, np.percentile) and numpy's round are oracles, logged by a subclass of the implementation; bounds are validated statistically in the thorough tier only",
           "harness/c06.py"]
RULE = ("all (y_true, y_pred) in {0,1}^2 sequences of length n (n=4 quick / 6 thorough) x parameter grid, plus random piecewise-stationary sequences of "
        "100-160 pairs; every subset of tracked rates, subsample in {1,2,3}, burn_in small, num_mc small, under np.random.seed(f(case, step)) before every update. "
        "Non-trivial: the trace contains a warning or a drift; distinct by content."
        " Also: long (430-560 samples) almost error-free epochs in which successive rates differ by less than 1e-5 (exact inequality decides whether a rate changed); regimes (decay, burn-in) in which decisions depend on the rates; a no-burn-in family whose first warning falls on stream index 0; round_val 0; labels as Python / numpy booleans; every simulated sample checked against the percentile model.")
SHARD = 60
RATES = ["tpr", "tnr", "ppv", "npv"]
BK = ("lb_warn", "ub_warn", "lb_detect", "ub_detect")


class LogLFR(LinearFourRates):
    """logs every bounds query: [est_rate, denominator, rounded key, result of _sim_bounds or None]"""
    def __init__(self, *a, **k):
        super().__init__(*a, **k)
        self._vlog = []

    def _update_bounds_dict(self, est_rate, curr_denom, r_est_rate, r_curr_denom):
        self._vlog.append([float(est_rate), int(curr_denom), float(r_est_rate), None])
        return super()._update_bounds_dict(est_rate, curr_denom, r_est_rate, r_curr_denom)

    def _sim_bounds(self, est_rate, denom):
        state = np.random.get_state()
        cap, orig_pct = [], np.percentile
        def pct(a, q, *args, **kw):          # the Monte-Carlo sample the four percentiles are taken of
            try:
                cap.append([float(v) for v in np.asarray(a, dtype=float).ravel()])
            except Exception:
                cap.append(None)
            return orig_pct(a, q, *args, **kw)
        with rebound(np, "percentile", pct):
            b = super()._sim_bounds(est_rate, denom)
        after = np.random.get_state()
        if self._vlog:
            self._vlog[-1][3] = [float(b[k]) for k in BK]
            # the documented Monte-Carlo procedure, re-run on the same random draws by an independent implementation
            np.random.set_state(state)
            self._vlog[-1].append(reference_bounds(self.time_decay_factor, self.warning_level, self.detect_level,
                                                   self.num_mc, est_rate, denom))
            np.random.set_state(after)
            self._vlog[-1].append([float(est_rate), int(denom)])      # what the simulation was really asked for
            ok = len(cap) == 4 and cap[0] is not None and all(c == cap[0] for c in cap) and 0 < len(cap[0]) <= 400 \
                and not any(v != v for v in cap[0]) and not (any(str(v) == "-0.0" for v in cap[0]) and any(str(v) == "0.0" for v in cap[0]))
            self._vlog[-1].append(sorted(cap[0]) if ok else None)     # the sorted sample (None: not usable for the model)
        return b


HOOKS = all(callable(getattr(LinearFourRates, n, None)) for n in ("_update_bounds_dict", "_sim_bounds"))


class NumpyLog:
    """Name-independent observation of the Monte-Carlo simulations, used only when the private methods the logging
    subclass overrides no longer exist: every simulation draws with np.random.binomial and then takes four np.percentile
    values (lfr.py:354-412).  Collects [p, size, [lb_warn, ub_warn, lb_detect, ub_detect]] per simulation."""
    def __enter__(self):
        self.sims, self.cur = [], None
        self.ob, self.op = np.random.binomial, np.percentile
        def binom(n, p, size=None, *a, **k):
            if self.cur is None or self.cur[2]:
                self.cur = [float(p), None if size is None else int(np.prod(size)), []]
                self.sims.append(self.cur)
            return self.ob(n, p, size, *a, **k)
        def pct(a, q, *args, **k):
            v = self.op(a, q, *args, **k)
            if self.cur is not None:
                try:
                    self.cur[2].append(float(v))
                except Exception:
                    pass
            return v
        np.random.binomial, np.percentile = binom, pct
        return self
    def __exit__(self, *exc):
        np.random.binomial, np.percentile = self.ob, self.op
        return False


class SynthLog:
    """rebuilds the per-update log [estimate, denominator, key, simulated bounds or None] from the simulations seen at
    the numpy level: the requests themselves (which rate, which key) follow the documented procedure, the estimate and
    denominator of a simulated entry are the arguments np.random.binomial actually received"""
    def __init__(self, p):
        self.p, self.cache, self.since = p, set(), 0
        self.conf = {(0, 0): 1, (0, 1): 1, (1, 0): 1, (1, 1): 1}
    def step(self, yt, yp, prev_ds, sims):
        p = self.p
        if prev_ds == "drift":
            self.conf = {(0, 0): 1, (0, 1): 1, (1, 0): 1, (1, 1): 1}; self.since = 0
        self.since += 1
        self.conf[(yp, yt)] += 1
        c = self.conf
        tn, fn, fp, tp = c[(0, 0)], c[(0, 1)], c[(1, 0)], c[(1, 1)]
        est = {"tpr": tp / (tp + fn), "tnr": tn / (tn + fp), "ppv": tp / (fp + tp), "npv": tn / (tn + fn)}
        den = {"tpr": tp + fn, "tnr": tn + fp, "ppv": fp + tp, "npv": tn + fn}
        sims, out = [s for s in sims if len(s[2]) == 4], []
        if self.since > p["burn_in"] and self.since % p["subsample"] == 0:
            for rt in p["tracked"]:
                key = float(round(np.float64(est[rt]), p["round_val"]))
                if (key, den[rt]) in self.cache:
                    out.append([est[rt], den[rt], key, None])
                elif sims:
                    s = sims.pop(0)
                    self.cache.add((key, den[rt]))
                    out.append([s[0], s[1], key, s[2]])
                else:
                    out.append([est[rt], den[rt], key, None])
        for s in sims:     # simulations nobody should have asked for
            out.append([s[0], s[1], float(round(np.float64(s[0]), p["round_val"])), s[2]])
        return out


def reference_bounds(eta, warning_level, detect_level, num_mc, est_rate, denom):
    """percentiles of (1-eta) * sum_i eta^(N-i) * Bernoulli(p), i = 1..N, over num_mc draws (lfr.py:354-412)"""
    weights = [eta ** (denom - i) for i in range(1, denom + 1)]
    vals = []
    for _ in range(num_mc):
        bools = np.random.binomial(n=1, p=est_rate, size=denom)
        s = 0
        for w, bl in zip(weights, bools):
            s = s + w * bl
        vals.append((1 - eta) * s)
    return [float(np.percentile(vals, q=warning_level * 100)), float(np.percentile(vals, q=100 - warning_level * 100)),
            float(np.percentile(vals, q=detect_level * 100)), float(np.percentile(vals, q=100 - detect_level * 100))]


def make(case):
    p = case["params"]
    return LogLFR(time_decay_factor=p["eta"], warning_level=p["warn"], detect_level=p["detect"], burn_in=p["burn_in"],
                  num_mc=p["num_mc"], subsample=p["subsample"], rates_tracked=list(p["tracked"]), round_val=p["round_val"])


def gen_params(ctx, small):
    k = ctx.rng.randint(0, 4)
    tracked = ctx.rng.sample(RATES, k) if ctx.rng.random() < 0.6 else list(RATES)
    return {"eta": ctx.rng.choice([0.9, 0.5, 0.99, 0.75]), "warn": ctx.rng.choice([0.3, 0.2, 0.1]), "detect": ctx.rng.choice([0.1, 0.05, 0.01]),
            "burn_in": ctx.rng.choice([0, 1, 2, 3] if small else [0, 5, 20, 50]), "num_mc": ctx.rng.choice([8, 15, 30]),
            "subsample": ctx.rng.choice([1, 1, 2, 3]), "tracked": tracked, "round_val": ctx.rng.choice([0, 1, 2, 4])}


def gen_cases(ctx):
    cases = []
    n = ctx.scale(4, 6)
    cells = [(0, 0), (0, 1), (1, 0), (1, 1)]
    seqs = list(itertools.product(cells, repeat=n))
    for k in range(ctx.scale(2, 4)):
        p = gen_params(ctx, True)
        for s in seqs:
            cases.append({"params": p, "pairs": [list(c) for c in s], "seed": k})
    # decisions from the very first sample on: no burn-in, fast decay, a wide warning band and a narrow detect band, so that
    # the first warning can fall on stream index 0 (an index that is falsy in Python) and a drift can follow in the same epoch
    for k, (eta, warn, det) in enumerate([(0.1, 0.5, 0.02), (0.25, 0.4, 0.01)][:ctx.scale(2, 2)]):
        for tracked in (["tpr"], ["tnr", "ppv"], list(RATES)):
            p = {"eta": eta, "warn": warn, "detect": det, "burn_in": 0, "num_mc": 30, "subsample": 1, "tracked": tracked, "round_val": 4}
            for j in range(ctx.scale(40, 200)):
                perr = ctx.rng.choice([0.6, 0.9, 1.0])
                s = []
                for _ in range(ctx.rng.randint(12, 24)):
                    t = ctx.rng.randint(0, 1)
                    s.append([t, 1 - t if ctx.rng.random() < perr else t])
                cases.append({"params": p, "pairs": s, "seed": 50 + k})
    for k in range(ctx.scale(40, 500)):
        p = gen_params(ctx, False)
        if k % 2 == 0:     # regimes in which decisions depend on the rates (see detectors.LFRSpec.gen)
            p["eta"], p["burn_in"] = ctx.rng.choice([(0.5, 10), (0.5, 20), (0.75, 20), (0.9, 40), (0.99, 50)])
            p["num_mc"], p["detect"] = 30, ctx.rng.choice([0.05, 0.01])
        length = ctx.rng.randint(100, 160)
        acc = piecewise_bernoulli(ctx.rng, length, [0.95, 0.8, 0.5, 0.2])
        pairs = []
        pos = ctx.rng.choice([0.5, 0.3, 0.8])
        for ok in acc:
            t = 1 if ctx.rng.random() < pos else 0
            pairs.append([t, t if ok else 1 - t])
        cases.append({"params": p, "pairs": pairs, "seed": 1000 + k})
    # long, almost error-free epochs: from ~316 samples in a rate's denominator on, one more correct sample moves the rate by
    # less than 1e-5 relative - "the rate changed" must still be decided by exact inequality (a tolerance freezes the statistic)
    r3 = __import__("random").Random(ctx.seed + 11)
    for k in range(ctx.scale(6, 40)):
        p = {"eta": r3.choice([0.99, 0.99, 0.9, 0.75]), "warn": r3.choice([0.3, 0.1]), "detect": r3.choice([0.05, 0.01]),
             "burn_in": r3.choice([150, 380, 480]), "num_mc": 8, "subsample": r3.choice([20, 45]),
             "tracked": r3.choice([list(RATES), ["tpr"], ["tnr", "npv"], ["ppv"]]), "round_val": r3.choice([2, 4])}
        length, perr, pos = r3.randint(430, 560), r3.choice([0.0, 0.003, 0.01]), r3.choice([1.0, 0.0, 0.8, 0.2])
        pairs = []
        for _ in range(length):
            t = 1 if r3.random() < pos else 0
            pairs.append([t, 1 - t if r3.random() < perr else t])
        if perr == 0.0 and k % 2 == 0:           # exactly one error, late in the epoch
            j = r3.randint(440, length) - 1 if length > 440 else length - 1
            pairs[j][1] = 1 - pairs[j][0]
        cases.append({"params": p, "pairs": pairs, "seed": 3000 + k})
    import random
    r2 = random.Random(ctx.seed + 5)
    for c in cases:
        kind = r2.choice(["int", "int", "int", "bool", "np_bool"])
        if kind != "int":
            c["label_kind"] = kind
    return cases


def run_impl(case):
    d = make(case)
    rows = []
    synth, prev = (None if HOOKS else SynthLog(case["params"])), None
    # the same 0/1 labels handed over as Python / numpy booleans
    conv = {"bool": bool, "np_bool": np.bool_}.get(case.get("label_kind"), int)
    for i, (yt, yp) in enumerate(case["pairs"]):
        np.random.seed((case["seed"] * 7919 + i) % (2 ** 31))
        if HOOKS:
            k0 = len(d._vlog)
            d.update(conv(yt), conv(yp))
            log = [list(x) for x in d._vlog[k0:]]
        else:
            with NumpyLog() as L:
                d.update(conv(yt), conv(yp))
            log = synth.step(yt, yp, prev, L.sims)
        st, tot, sin = lifecycle_obs(d)
        prev = st
        rs = getattr(d, "_r_stat", None)
        r = None
        try:
            r = [float(rs[sin][k]) for k in RATES]
        except Exception:
            r = None
        rows.append({"ds": st, "total": tot, "since": sin, "recs": recs_of(d), "log": log,
                     "r": r, "all_len": len(d.all_drift_states), "all_last": d.all_drift_states[-1] if d.all_drift_states else "MISSING",
                     "ncache": sum(len(v) for v in d._bounds.values()) if hasattr(d, "_bounds") else None})
    return {"rows": rows, "hooks": HOOKS}


def direct_check(case, obs):
    """specification of the method, with the logged Monte-Carlo bounds as inputs"""
    if "__exception__" in obs:
        return [f"LFR raised {obs['__exception__']}: {obs['__message__']}"]
    p = case["params"]
    eta = p["eta"]
    conf = {(0, 0): 1, (0, 1): 1, (1, 0): 1, (1, 1): 1}   # (pred, true)
    R = dict.fromkeys(RATES, 0.5)
    st = None; since = 0; recs = [None, None]; cache = {}
    def rates(c):
        tn, fn, fp, tp = c[(0, 0)], c[(0, 1)], c[(1, 0)], c[(1, 1)]
        return ({"tpr": tp / (tp + fn), "tnr": tn / (tn + fp), "ppv": tp / (fp + tp), "npv": tn / (tn + fn)},
                {"tpr": tp + fn, "tnr": tn + fp, "ppv": fp + tp, "npv": tn + fn})
    for i, ((yt, yp), row) in enumerate(zip(case["pairs"], obs["rows"])):
        if st == "drift":
            conf = {(0, 0): 1, (0, 1): 1, (1, 0): 1, (1, 1): 1}; R = dict.fromkeys(RATES, 0.5); st = None; since = 0; recs = [None, None]
        since += 1
        old, _ = rates(conf)
        conf[(yp, yt)] += 1
        new, den = rates(conf)
        gated = since > p["burn_in"] and since % p["subsample"] == 0
        warn = alarm = False
        log = list(row["log"])
        for rt in p["tracked"]:
            if new[rt] != old[rt]:
                R[rt] = eta * R[rt] + (1 - eta) * (1 if yt == yp else 0)
            if gated:
                if not log:
                    return [f"step {i}: no bounds were requested for tracked rate {rt} although since={since} > burn_in and on the subsample grid"]
                entry = log.pop(0)
                est, dn, key, sim = entry[:4]
                if sim is not None and len(entry) > 4 and not all(abs(a - b) <= 1e-9 * max(1.0, abs(b)) for a, b in zip(sim, entry[4])):
                    return [f"step {i}: bounds {sim} for rate {est!r} / N={dn} are not the warning / detect level percentiles "
                            f"of the Monte-Carlo distribution of the statistic on the same draws ({entry[4]})"]
                if sim is not None and len(entry) > 5 and (not feq(entry[5][0], new[rt]) or entry[5][1] != den[rt]):
                    return [f"step {i}: the Monte-Carlo distribution was simulated for rate {entry[5][0]!r} / N={entry[5][1]}, but the current "
                            f"estimate and denominator of {rt} are {new[rt]!r} / {den[rt]}"]
                if not feq(est, new[rt]) or dn != den[rt]:
                    return [f"step {i}: bounds requested for rate estimate {est!r} / denominator {dn}, but {rt} of the epoch's confusion matrix is {new[rt]!r} / {den[rt]}"]
                ck = (key, dn)
                if ck in cache:
                    if sim is not None:
                        return [f"step {i}: bounds for cached key {ck} were simulated again"]
                    b = cache[ck]
                else:
                    if sim is None:
                        return [f"step {i}: no simulation for the new key {ck}"]
                    cache[ck] = b = sim
                warn |= R[rt] < b[0] or R[rt] > b[1]
                alarm |= R[rt] < b[2] or R[rt] > b[3]
        if log:
            return [f"step {i}: {len(log)} bounds request(s) for rates that are not tracked / not due: {log[:2]}"]
        st = "drift" if alarm else "warning" if warn else None
        if st == "warning" and recs[0] is None:
            recs[0] = row["total"] - 1
        if st == "drift":
            recs[1] = row["total"] - 1
            if recs[0] is None:
                recs[0] = row["total"] - 1
        if row["ds"] != st:
            return [f"LFR {p} step {i}: drift_state {row['ds']!r}, specification says {st!r}"]
        if row["recs"] != recs:
            return [f"LFR {p} step {i}: retraining_recs {row['recs']}, specification says {recs}"]
        if row["all_len"] != i + 1 or row["all_last"] != st:
            return [f"LFR step {i}: all_drift_states has {row['all_len']} entries ending in {row['all_last']!r}"]
        if row["r"] is not None:
            for k, rt in enumerate(RATES):
                if not feq(row["r"][k], R[rt]):
                    return [f"LFR {p} step {i}: statistic of {rt} is {row['r'][k]!r}, specification {R[rt]!r}"]
    return []


def input_term(yt, yp, r):
    """one model input: the labels and the oracle rows logged at this update"""
    orc = []
    for est, dn, key, sim in [e[:4] for e in r["log"]]:
        s = "None" if sim is None else "(Some (mkb " + " ".join(G.flt(v) for v in sim) + "))"
        orc.append(f"({G.flt(est)}, {G.z(dn)}, {G.flt(key)}, {s})")
    return f"({G.boolc(yt)}, {G.boolc(yp)}, {G.lst(orc)})"


def coq_term(case, obs):
    if "__exception__" in obs:
        return "false"
    p = case["params"]
    xs, rows = [], []
    for (yt, yp), r in zip(case["pairs"], obs["rows"]):
        xs.append(input_term(yt, yp, r))
        ex = (r["r"] or [None] * 4) + [1.0, None if r["ncache"] is None else float(r["ncache"])]
        rows.append(row_term(r["ds"], r["total"], r["since"], r["recs"], ex))
    tr = G.zlist([RATES.index(t) for t in p["tracked"]])
    pcts = []
    for r in obs["rows"]:
        for e in r["log"]:
            if len(e) > 6 and e[3] is not None and e[6] is not None and len(pcts) < 12:
                # numpy's percentile (Percentile.v, bit-exact): the four bounds are the warning / detect level percentiles
                # of the simulated sample
                pcts.append(f"chk_lfr_bounds {G.fltlist(e[6])} {G.flt(p['warn'])} {G.flt(p['detect'])} " + " ".join(G.flt(v) for v in e[3]))
    extra_t = "".join(f" && {t}" for t in pcts)
    return f"chk_lfr {G.flt(p['eta'])} {G.z(p['burn_in'])} {G.z(p['subsample'])} {tr} {G.lst(xs)} {G.lst(rows)}" + extra_t


def show_term(case, obs):
    return coq_term(case, obs).replace("chk_lfr", "show_lfr", 1)


def nontrivial(case, obs):
    return any(r.get("ds") is not None for r in obs.get("rows", []))


def shrink_candidates(case):
    s = case["pairs"]
    if len(s) > 1:
        yield dict(case, pairs=s[:-1])
        yield dict(case, pairs=s[:len(s) // 2])
    for i in range(min(len(s), 30)):
        yield dict(case, pairs=s[:i] + s[i + 1:])


def extra(ctx):
    """thorough tier: statistical validation of the Monte-Carlo bounds against a large independent simulation"""
    if not ctx.thorough:
        return {"bounds_statistical_validation": "thorough tier only"}
    rng = np.random.default_rng(ctx.seed)
    checked, worst = 0, 0.0
    for (eta, pr, den) in [(0.9, 0.5, 10), (0.9, 0.8, 25), (0.5, 0.3, 8), (0.99, 0.6, 40)]:
        d = LinearFourRates(time_decay_factor=eta, warning_level=0.1, detect_level=0.05, num_mc=4000)
        np.random.seed(ctx.seed % 2 ** 31)
        sim = getattr(d, "_sim_bounds", None)
        if sim is None:
            return {"bounds_statistical_validation": "skipped: the simulation method is not reachable by its name"}
        b = sim(pr, den)
        w = eta ** np.arange(den - 1, -1, -1)
        sims = (1 - eta) * (rng.binomial(1, pr, size=(200000, den)) * w).sum(axis=1)
        for k, q in (("lb_warn", 10), ("ub_warn", 90), ("lb_detect", 5), ("ub_detect", 95)):
            ref = np.percentile(sims, q)
            # the MC percentile must lie between reference quantiles shifted by 6 sigma of the rank
            sd = math.sqrt(q / 100 * (1 - q / 100) / 4000) * 100
            lo, hi = np.percentile(sims, max(0, q - 6 * sd)), np.percentile(sims, min(100, q + 6 * sd))
            checked += 1
            if not (lo - 1e-12 <= b[k] <= hi + 1e-12):
                return {"bounds_statistical_validation": f"FAILED for eta={eta} p={pr} N={den} {k}: {b[k]} not in [{lo},{hi}]"}
            worst = max(worst, abs(b[k] - ref))
    return {"bounds_statistical_validation": f"{checked} percentiles within 6 sigma of a 200000-draw reference (max abs diff {worst:.4f})"}
