"""C05 — DDM, EDDM, STEPD decide from the error sequence exactly as specified."""
import itertools, math
import numpy as np
import scipy.stats
from menelaus.concept_drift import DDM, EDDM, STEPD
from . import coqgen as G
from .common import *

ID = "C05"
PROPS = ["Prop_C05"]
IMPORTS = "From MV Require Import Base Num NumFloat Lifecycle Ddm Corr.\nFrom Coq Require Import PrimFloat."
CORR_NAME = "Corr_C05: Ddm.v (DDM/EDDM/STEPD kernels on the generic machine, NumFloat) = ddm.py/eddm.py/stepd.py, bit-for-bit"
TRUSTED = ["Coq 8.16.1 kernel + vm_compute + primitive floats (PrimFloat axioms as listed per theorem)",
           "hand-written models coq/Ddm.v, coq/Lifecycle.v tied to the code by bit-level differential execution",
           "scipy.stats.norm.cdf is an oracle of the STEPD model (its argument is re-computed by the model and compared bit-for-bit)",
           "harness/c05.py, harness/coqgen.py"]
RULE = ("all 2^n outcome sequences (n=9 quick, 12 thorough) x small-parameter grid for each of DDM/EDDM/STEPD (so that every prefix "
        "of every sequence is covered), two-pass boundary cases (threshold set to a statistic value the run attained), and long random "
        "piecewise-stationary sequences over several epochs. Non-trivial: the trace contains a warning or a drift; distinct by case content.")
SHARD = 250


def make(case):
    k, p = case["det"], case["params"]
    if k == "ddm":
        return DDM(n_threshold=p[0], warning_scale=p[1], drift_scale=p[2])
    if k == "eddm":
        return EDDM(n_threshold=p[0], warning_thresh=p[1], drift_thresh=p[2])
    return STEPD(window_size=p[0], alpha_warning=p[1], alpha_drift=p[2])


# ---------------- executable specifications (independent of the model; plain IEEE doubles) ----------------
def spec_ddm(p, seq):
    nthr, ws, dsc = p
    out = []
    total = 0
    n = 0; rate = 0.0; sd = 0.0; rmin = math.inf; smin = math.inf; st = None; recs = [None, None]
    for ok in seq:
        if st == "drift":
            n = 0; rate = 0.0; sd = 0.0; rmin = math.inf; smin = math.inf; st = None; recs = [None, None]
        total += 1; n += 1
        c = 0 if ok else 1
        prev = rate
        rate = rate + (c - rate) / n
        sd = math.sqrt((sd + (c - rate) * (c - prev)) / n) if (sd + (c - rate) * (c - prev)) / n >= 0 else math.nan
        if n >= nthr:
            if rate + sd <= rmin + smin:
                rmin, smin = rate, sd
            if rate + sd >= rmin + dsc * sd:
                st = "drift"
            elif rate + sd >= rmin + ws * sd:
                st = "warning"
            else:
                st = None
            if st == "warning" and recs[0] is None:
                recs[0] = total - 1
            if st == "drift":
                recs[1] = total - 1
                if recs[0] is None:
                    recs[0] = total - 1
        out.append((st, list(recs)))
    return out


def spec_eddm(p, seq):
    nthr, wt, dt = p
    out = []
    total = 0
    def fresh():
        return dict(n=0, ne=0, curr=0, mean=0.0, sd=0.0, mx=0.0)
    e = fresh(); st = None; recs = [None, None]
    for ok in seq:
        if st == "drift":
            e = fresh(); st = None; recs = [None, None]
        total += 1; e["n"] += 1
        if not ok:
            e["ne"] += 1
            last = e["curr"]; e["curr"] = e["n"] - 1
            dist = e["curr"] - last
            prev = e["mean"]
            e["mean"] = e["mean"] + (dist - e["mean"]) / e["ne"]
            v = (e["sd"] + (dist - e["mean"]) * (dist - prev)) / e["ne"]
            e["sd"] = math.sqrt(v) if v >= 0 else math.nan
            if e["ne"] >= nthr:
                num = e["mean"] + 2 * e["sd"]
                if e["mx"] < num:
                    e["mx"] = num
                stat = num / e["mx"] if e["mx"] != 0 else (math.nan if num == 0 or math.isnan(num) else math.copysign(math.inf, num))
                if stat <= dt:
                    st = "drift"
                elif stat <= wt:
                    st = "warning"
                else:
                    st = None
                if st == "warning" and recs[0] is None:
                    recs[0] = total - 1
                if st == "drift":
                    recs[1] = total - 1
                    if recs[0] is None:
                        recs[0] = total - 1
        out.append((st, list(recs)))
    return out


def stepd_stat(w, n, recent, past, overall):
    inv = (1 / (n - w)) + (1 / w)
    den = overall * (1 - overall) * inv
    num = abs(past - recent) - 0.5 * inv
    den = math.sqrt(den) if den >= 0 else math.nan
    if den == 0:
        return math.nan if (num == 0 or math.isnan(num)) else math.copysign(math.inf, num)
    return num / den


def spec_stepd(p, seq):
    """returns rows (state, recs, recent, past, overall, stat, pvalue)"""
    w, aw, ad = p
    out = []
    total = 0
    n = 0; win = []; before = []; st = None; recs = [None, None]
    for ok in seq:
        if st == "drift":
            n = 0; win = []; before = []; st = None; recs = [None, None]
        total += 1; n += 1
        win.append(1 if ok else 0)
        if len(win) > w:
            before.append(win.pop(0))
        recent = sum(win) / len(win) if win else 0
        past = sum(before) / len(before) if before else 0
        overall = (sum(win) + sum(before)) / n
        stat = pv = None
        if n >= 2 * w:
            stat = stepd_stat(w, n, recent, past, overall)
            pv = float(1 - scipy.stats.norm.cdf(stat, 0, 1))
            dec = past > recent
            if dec and pv < ad:
                st = "drift"
            elif dec and pv < aw:
                st = "warning"
            else:
                st = None; recs = [None, None]
            if st is not None:
                if recs[0] is None:
                    recs = [total - 1, total - 1]
                else:
                    recs[1] += 1
        out.append((st, list(recs), float(recent), float(past), float(overall), stat, pv))
    return out


GRID = {
    # (the last entry of each list has the two thresholds "crossed": a drift level that is reached before the warning level)
    "ddm": [(1, 0.5, 1.0), (2, 1.0, 2.0), (3, 2, 3), (4, 0.25, 0.75), (2, 2.0, 1.5)],
    "eddm": [(1, 0.95, 0.9), (2, 0.99, 0.7), (3, 0.9, 0.5), (2, 0.8, 0.95)],
    "stepd": [(1, 0.4, 0.2), (2, 0.3, 0.1), (3, 0.5, 0.05), (2, 0.05, 0.2)],
}


def gen_cases(ctx):
    cases = []
    n = ctx.scale(9, 12)
    seqs = [list(s) for s in itertools.product([1, 0], repeat=n)]
    for det, grid in GRID.items():
        for p in grid:
            for s in seqs:
                cases.append({"det": det, "params": list(p), "seq": s, "extras": False})
    # long random sequences, several epochs
    for det in ("ddm", "eddm", "stepd"):
        for _ in range(ctx.scale(40, 600)):
            length = ctx.rng.randint(100, 500)
            seq = piecewise_bernoulli(ctx.rng, length, [0.95, 0.9, 0.7, 0.5, 0.3, 0.1])
            if det == "ddm":
                p = [ctx.rng.choice([1, 5, 10, 30]), ctx.rng.choice([1.5, 2, 2.5]), ctx.rng.choice([2.5, 3, 3.5])]
            elif det == "eddm":
                p = [ctx.rng.choice([1, 3, 10, 30]), ctx.rng.choice([0.99, 0.95]), ctx.rng.choice([0.9, 0.8, 0.6])]
            else:
                p = [ctx.rng.choice([1, 5, 10, 30]), ctx.rng.choice([0.1, 0.05]), ctx.rng.choice([0.01, 0.003])]
            cases.append({"det": det, "params": p, "seq": seq, "extras": True})
    # two-pass boundary cases: thresholds set to exactly an attained statistic value
    for det in ("ddm", "eddm", "stepd"):
        for _ in range(ctx.scale(30, 300)):
            seq = piecewise_bernoulli(ctx.rng, ctx.rng.randint(30, 120), [0.9, 0.6, 0.3])
            base = {"ddm": [3, 1e9, 1e9], "eddm": [2, -1.0, -1.0], "stepd": [4, -1.0, -1.0]}[det]
            vals = attained(det, base, seq)
            if not vals:
                continue
            v = ctx.rng.choice(vals)
            v2 = ctx.rng.choice(vals)
            lo, hi = min(v, v2), max(v, v2)
            if det == "ddm":
                p = [base[0], lo, hi]
            elif det == "eddm":
                p = [base[0], hi, lo]
            else:
                p = [base[0], hi, lo]
            cases.append({"det": det, "params": p, "seq": seq, "extras": True, "boundary": True})
    return cases


def attained(det, base, seq):
    """statistic values attained on a run that never alarms (for boundary cases)"""
    vals = []
    if det == "ddm":
        d = DDM(*base)
        for ok in seq:
            d.update(1, 1 if ok else 0)
            r, s, m = priv(d, "_error_rate"), priv(d, "_error_std"), priv(d, "_error_rate_min")
            if r is None or s is None or m is None or not s > 0 or math.isinf(m):
                continue
            k = (r + s - m) / s
            if math.isfinite(k) and k > 0:
                vals.append(k)
    elif det == "eddm":
        d = EDDM(*base)
        for ok in seq:
            d.update(1, 1 if ok else 0)
            t = priv(d, "_test_statistic")
            if t is not None and math.isfinite(t):
                vals.append(t)
    else:
        for row in spec_stepd(base, seq):
            if row[6] is not None and math.isfinite(row[6]):
                vals.append(row[6])
    return vals


def run_impl(case):
    d = make(case)
    rows = []
    for ok in case["seq"]:
        d.update(1, 1 if ok else 0)
        st, tot, sin = lifecycle_obs(d)
        row = {"ds": st, "total": tot, "since": sin, "recs": recs_of(d)}
        if case["det"] == "stepd":
            row["acc"] = [float(d.recent_accuracy()), float(d.past_accuracy()), float(d.overall_accuracy())]
            row["priv"] = [priv(d, "_test_statistic"), priv(d, "_test_p")]
        elif case["det"] == "ddm":
            row["priv"] = [priv(d, "_error_rate"), priv(d, "_error_std")]
        else:
            row["priv"] = [priv(d, "_dist_mean"), priv(d, "_dist_std"), priv(d, "_test_statistic")]
        rows.append(row)
    return {"rows": rows}


def spec(case):
    p = case["params"]
    return {"ddm": spec_ddm, "eddm": spec_eddm, "stepd": spec_stepd}[case["det"]](p, case["seq"])


def direct_check(case, obs):
    if "__exception__" in obs:
        return [f"{case['det']} raised {obs['__exception__']}: {obs['__message__']}"]
    sp = spec(case)
    for i, (row, s) in enumerate(zip(obs["rows"], sp)):
        if row["ds"] not in (None, "warning", "drift"):
            return [f"{case['det']} step {i}: drift_state {row['ds']!r}"]
        if row["ds"] != s[0]:
            return [f"{case['det']}{case['params']} step {i}: drift_state {row['ds']!r}, specification says {s[0]!r}"]
        if row["recs"] != s[1]:
            return [f"{case['det']}{case['params']} step {i}: retraining_recs {row['recs']}, specification says {s[1]}"]
        if case["det"] == "stepd":
            for name, a, b in zip(("recent", "past", "overall"), row["acc"], s[2:5]):
                if not feq(a, b):
                    return [f"stepd{case['params']} step {i}: {name}_accuracy {a!r}, specification says {b!r}"]
    return []


def coq_term(case, obs):
    if "__exception__" in obs:
        return "false"
    p, det = case["params"], case["det"]
    rows = []
    if det == "stepd":
        sp = spec_stepd(p, case["seq"])
        xs = []
        for ok, s, row in zip(case["seq"], sp, obs["rows"]):
            xs.append(f"({G.boolc(ok)}, {G.flt(s[6] if s[6] is not None else 0.0)})")
            ex = list(row["acc"]) + [s[5]]
            rows.append(row_term(row["ds"], row["total"], row["since"], row["recs"], ex))
        return f"chk_stepd {G.z(p[0])} {G.flt(p[1])} {G.flt(p[2])} {G.lst(xs)} {G.lst(rows)}"
    for row in obs["rows"]:
        ex = row["priv"] if case.get("extras") else []
        if det == "eddm" and ex:
            ex = ex[:2] + ([ex[2]] if ex[2] is not None else [None])
        rows.append(row_term(row["ds"], row["total"], row["since"], row["recs"], ex))
    if det == "ddm":
        return f"chk_ddm {G.z(p[0])} {G.flt(p[1])} {G.flt(p[2])} {bools([not ok for ok in case['seq']])} {G.lst(rows)}"
    return f"chk_eddm {G.z(p[0])} {G.flt(p[1])} {G.flt(p[2])} {bools(case['seq'])} {G.lst(rows)}"


def show_term(case, obs):
    return coq_term(case, obs).replace("chk_", "show_", 1)


def nontrivial(case, obs):
    return "rows" in obs and any(r["ds"] is not None for r in obs["rows"])


def shrink_candidates(case):
    s = case["seq"]
    for k in range(len(s) - 1, 0, -1):
        if k < len(s):
            yield dict(case, seq=s[:k])
            break
    h = len(s) // 2
    if h:
        yield dict(case, seq=s[:h])
    for i in range(min(len(s), 60)):
        yield dict(case, seq=s[:i] + s[i + 1:])


def signature(case, obs, msgs):
    return {"det": case["det"]}


def obligations(ctx):
    """second tie: the update() core re-translated from the source of the tree under test (harness/pytrans.py)"""
    from .pytrans import obligations_scalar
    yield from obligations_scalar(ctx, ["DDM", "EDDM", "STEPD"])
