"""C12 — an ensemble is its election applied to members that run exactly as if alone.

Implementation side: real StreamingEnsemble / BatchEnsemble objects over real detectors are driven through
histories of update / reset / set_reference; every member is compared, after every call, with a twin
detector that was constructed independently (same arguments) and is driven independently by this module
with the columns its selector stands for and the same labels.

Seed schedule: a member that draws random numbers inside update()/set_reference() (KdqTree bootstrap,
NN-DVI permutations, HDDDM/CDBD reference sub-sampling, LFR Monte-Carlo bounds) is wrapped — on both
sides, by the same subclass — so that *that method call* starts with
np.random.seed(f(case seed, member number, number of the call on this member)).  The schedule is a
function of the member's own call history only, hence identical for a member inside an ensemble (where
other members draw before and after it) and for its twin run alone.
"""
import collections, math, time, types
import numpy as np
import pandas as pd
from menelaus.ensemble import (StreamingEnsemble, BatchEnsemble, SimpleMajorityElection,
                               MinimumApprovalElection, OrderedApprovalElection, ConfirmedElection)
from menelaus.concept_drift import DDM, EDDM, STEPD, LinearFourRates, ADWINAccuracy
from menelaus.change_detection import PageHinkley, CUSUM, ADWIN
from menelaus.data_drift import KdqTreeStreaming, KdqTreeBatch, HDDDM, CDBD, NNDVI
from . import coqgen as G
from .common import *

ID = "C12"
PROPS = ["Prop_C12"]
IMPORTS = "From MV Require Import Base Election Ensemble.\nImport C12n."
CORR_NAME = ("Corr_C12: Ensemble.v (ens_update/ens_reset/ens_set_reference, views, counters; elections of Election.v) "
             "over replayed twin detectors = ensemble.py + election.py")
TRUSTED = ["Coq 8.16.1 kernel + vm_compute", "theorems: Closed under the global context",
           "hand-written model coq/Ensemble.v (+ Election.v) tied to ensemble.py by differential execution on every run",
           "member detectors are oracles of the model run: their behaviour is replayed from independently run twin detectors "
           "(the twins' equality with the ensemble's members is established by the direct check, object graph by object graph)",
           "numpy global RNG: reseeded at the start of every member update/set_reference on both sides (same wrapper)",
           "harness/c12.py, harness/coqgen.py"]
RULE = ("random ensembles of 0..6 real detectors: streaming = DDM/EDDM/STEPD/LFR/ADWINAccuracy (concept), PageHinkley/CUSUM/ADWIN "
        "(change, one selected column), KdqTreeStreaming (data); batch = HDDDM/CDBD/KdqTreeBatch/NNDVI; all four elections with "
        "parameters around the member count plus a position-weighted user election (the shipped ones only count alarms); selectors = none / random column lists (order, subsets) on arrays or DataFrames; "
        "piecewise-stationary streams whose columns and error rate shift at different times; histories with resets (random and "
        "after an ensemble alarm) and, for batch ensembles, repeated set_reference. Non-trivial: at least two members first "
        "report drift at different calls and the ensemble's verdict takes more than one value.")
SHARD = 12

STREAM_KINDS = {"DDM": DDM, "EDDM": EDDM, "STEPD": STEPD, "LFR": LinearFourRates, "ADWINACC": ADWINAccuracy,
                "PH": PageHinkley, "CUSUM": CUSUM, "ADWIN": ADWIN, "KDQS": KdqTreeStreaming}
BATCH_KINDS = {"HDDDM": HDDDM, "CDBD": CDBD, "KDQB": KdqTreeBatch, "NNDVI": NNDVI}
KINDS = dict(STREAM_KINDS, **BATCH_KINDS)
UNIVARIATE = {"PH", "CUSUM", "ADWIN", "CDBD"}
CONCEPT = {"DDM", "EDDM", "STEPD", "LFR", "ADWINACC"}
KEYS = "abcdefgh"


# ------------------------------------------------------------------ seeded members
_SEEDED = {}


def _seed_of(base, n):
    return (base * 7919 + n * 104729 + 12345) % (2 ** 32)


def seeded(cls):
    """subclass of a detector class whose update / set_reference reseed numpy's global generator first"""
    if cls not in _SEEDED:
        def update(self, *a, **k):
            self._c12_calls += 1
            np.random.seed(_seed_of(self._c12_base, self._c12_calls))
            return cls.update(self, *a, **k)
        d = {"update": update}
        if hasattr(cls, "set_reference"):
            def set_reference(self, *a, **k):
                self._c12_calls += 1
                np.random.seed(_seed_of(self._c12_base, self._c12_calls))
                return cls.set_reference(self, *a, **k)
            d["set_reference"] = set_reference
        _SEEDED[cls] = type("Seeded" + cls.__name__, (cls,), d)
    return _SEEDED[cls]


def make_member(spec, base):
    cls = seeded(KINDS[spec["det"]])
    # counters must exist before __init__ (KdqTree calls reset(), NNDVI.update calls set_reference())
    obj = cls.__new__(cls)
    obj._c12_base = base
    obj._c12_calls = 0
    obj.__init__(**spec["args"])
    return obj


class PositionalElection:
    """a user-defined election (the ensemble accepts any callable on the detector list) whose verdict depends on
    the *positions* of the alarming members; the four shipped elections only count alarms, so they cannot show
    whether the list is passed in insertion order"""

    def __init__(self, weights, threshold):
        self.weights, self.threshold = list(weights), threshold

    def __call__(self, detectors):
        d = sum(w for w, det in zip(self.weights, detectors) if det.drift_state == "drift")
        dw = sum(w for w, det in zip(self.weights, detectors) if det.drift_state is not None)
        return "drift" if d >= self.threshold else "warning" if dw >= self.threshold else None


def make_election(el):
    k = el["kind"]
    if k == "pos":
        return PositionalElection(el["ws"], el["thr"])
    if k == "maj":
        return SimpleMajorityElection()
    if k == "min":
        return MinimumApprovalElection(el["a"])
    if k == "ord":
        return OrderedApprovalElection(el["a"], el["c"])
    return ConfirmedElection(el["s"], el["w"])


# ------------------------------------------------------------------ object-graph comparison
def deep_diff(a, b, path="", seen=None):
    """None when the two object graphs are equal (bit-for-bit on numbers), else a description of the first difference"""
    if seen is None:
        seen = set()
    if a is b:
        return None
    if isinstance(a, (np.floating, float)) and isinstance(b, (np.floating, float)):
        return None if feq(a, b) else f"{path}: {a!r} != {b!r}"
    if isinstance(a, (bool, np.bool_)) or isinstance(b, (bool, np.bool_)):
        return None if (isinstance(a, (bool, np.bool_)) and isinstance(b, (bool, np.bool_)) and bool(a) == bool(b)) \
            else f"{path}: {a!r} != {b!r}"
    if isinstance(a, (int, np.integer)) and isinstance(b, (int, np.integer)):
        return None if int(a) == int(b) else f"{path}: {a!r} != {b!r}"
    if type(a) is not type(b):
        return f"{path}: type {type(a).__name__} != {type(b).__name__}"
    if a is None or isinstance(a, (str, bytes, complex)):
        return None if a == b else f"{path}: {a!r} != {b!r}"
    key = (id(a), id(b))
    if key in seen:
        return None
    seen.add(key)
    if isinstance(a, np.ndarray):
        if a.shape != b.shape or a.dtype != b.dtype:
            return f"{path}: array {a.shape}/{a.dtype} != {b.shape}/{b.dtype}"
        if a.dtype == object:
            for i, (x, y) in enumerate(zip(a.ravel().tolist(), b.ravel().tolist())):
                d = deep_diff(x, y, f"{path}[{i}]", seen)
                if d:
                    return d
            return None
        return None if np.ascontiguousarray(a).tobytes() == np.ascontiguousarray(b).tobytes() else f"{path}: array contents differ"
    if isinstance(a, pd.DataFrame):
        return (deep_diff(list(a.columns), list(b.columns), path + ".columns", seen)
                or deep_diff(list(a.index), list(b.index), path + ".index", seen)
                or deep_diff(a.to_numpy(), b.to_numpy(), path + ".values", seen))
    if isinstance(a, pd.Series):
        return (deep_diff(list(a.index), list(b.index), path + ".index", seen)
                or deep_diff(a.to_numpy(), b.to_numpy(), path + ".values", seen))
    if isinstance(a, pd.Index):
        return deep_diff(list(a), list(b), path, seen)
    if isinstance(a, dict):
        if list(a.keys()) != list(b.keys()):
            return f"{path}: keys {list(a.keys())[:8]} != {list(b.keys())[:8]}"
        for k in a:
            d = deep_diff(a[k], b[k], f"{path}[{k!r}]", seen)
            if d:
                return d
        return None
    if isinstance(a, (list, tuple, collections.deque)):
        if len(a) != len(b):
            return f"{path}: length {len(a)} != {len(b)}"
        for i, (x, y) in enumerate(zip(a, b)):
            d = deep_diff(x, y, f"{path}[{i}]", seen)
            if d:
                return d
        return None
    if isinstance(a, (set, frozenset)):
        return None if a == b else f"{path}: sets differ"
    if isinstance(a, (types.FunctionType, types.BuiltinFunctionType, types.MethodType, type, types.ModuleType)):
        qa, qb = getattr(a, "__qualname__", repr(a)), getattr(b, "__qualname__", repr(b))
        return None if qa == qb else f"{path}: callable {qa} != {qb}"
    if isinstance(a, np.random.RandomState) or isinstance(a, np.random.Generator):
        return None
    da = getattr(a, "__dict__", None)
    if da is not None:
        return deep_diff(dict(da), dict(b.__dict__), path, seen)
    slots = getattr(type(a), "__slots__", None)
    if slots:
        for s in slots:
            d = deep_diff(getattr(a, s, None), getattr(b, s, None), f"{path}.{s}", seen)
            if d:
                return d
        return None
    try:
        return None if a == b else f"{path}: {a!r} != {b!r}"
    except Exception:
        return f"{path}: incomparable {type(a).__name__}"


# ------------------------------------------------------------------ data
def stream_data(case):
    """X (n x d), y_true, y_pred: every column is piecewise stationary with its own change points,
    the error indicator has its own"""
    n, d = case["n"], case["d"]
    rng = np.random.default_rng(case["dseed"])
    X = np.empty((n, d))
    for j in range(d):
        mean, sd = np.zeros(n), np.ones(n)
        for t, m, s in case["shifts"][j]:
            mean[t:] = m; sd[t:] = s
        X[:, j] = mean + sd * rng.standard_normal(n)
    if case.get("grid"):
        X = np.round(X * 2) / 2      # dyadic grid: equal values, ties
    p = np.full(n, case["err0"])
    for t, q in case["errs"]:
        p[t:] = q
    err = rng.random(n) < p
    y_true = rng.integers(0, 2, n)
    y_pred = np.where(err, 1 - y_true, y_true)
    return X, y_true, y_pred


def batch_data(case):
    """list of batches; batch 0.. are used by set_reference / update as the ops say"""
    rng = np.random.default_rng(case["dseed"])
    d = case["d"]
    out = []
    for rows, means, sds in case["batches"]:
        B = np.empty((rows, d))
        for j in range(d):
            B[:, j] = means[j] + sds[j] * rng.standard_normal(rows)
        if case.get("grid"):
            B = np.round(B * 4) / 4
        out.append(B)
    return out


def colnames(d):
    return [f"c{j}" for j in range(d)]


def as_input(case, A):
    """the object handed to the ensemble: an array or a DataFrame"""
    if case.get("frame"):
        return pd.DataFrame(A, columns=colnames(case["d"]))
    return np.array(A)


def ens_selector(case, cols):
    """the function put into column_selectors"""
    if case.get("frame"):
        names = [f"c{j}" for j in cols]
        return lambda X, names=names: X[names]
    return lambda X, cols=list(cols): X[:, cols]


def twin_input(case, A, cols):
    """what a user running the member alone would pass: built from the raw data, not through the ensemble's selector"""
    A = np.array(A)
    if cols is None:
        cols = list(range(case["d"]))
        if not case.get("frame"):
            return A.copy()
    sub = np.stack([A[:, j] for j in cols], axis=1) if cols else np.empty((A.shape[0], 0))
    if case.get("frame"):
        return pd.DataFrame(sub, columns=[f"c{j}" for j in cols])
    return sub


# ------------------------------------------------------------------ running
def norm_recs(r):
    out = []
    for v in list(r):
        out.append(None if v is None else int(v))
    return out


def member_obs(det):
    r = norm_recs(det.retraining_recs) if hasattr(det, "retraining_recs") else "NOATTR"
    return [det.drift_state, r]


def ens_obs(ens, el, stream):
    tot = ens.total_samples if stream else ens.total_batches
    sin = ens.samples_since_reset if stream else ens.batches_since_reset
    w = getattr(el, "wait_period_counters", None)
    return {"ds": ens.drift_state, "total": int(tot), "since": int(sin),
            "states": [[k, v] for k, v in ens.drift_states.items()],
            "recs": [[k, norm_recs(v)] for k, v in ens.retraining_recs.items()],
            "wait": [] if w is None else [int(c) for c in w]}


def run_impl(case):
    stream = case["kind"] == "stream"
    specs = case["members"]
    members = collections.OrderedDict()
    selectors = {}
    for i, sp in enumerate(specs):
        members[sp["key"]] = make_member(sp, case["seed"] * 16 + i)
        if sp["cols"] is not None:
            selectors[sp["key"]] = ens_selector(case, sp["cols"])
    twins = [make_member(sp, case["seed"] * 16 + i) for i, sp in enumerate(specs)]
    el = make_election(case["election"])
    Ens = StreamingEnsemble if stream else BatchEnsemble
    if selectors or case.get("pass_empty_selectors"):
        ens = Ens(detectors=dict(members), election=el, column_selectors=selectors)
    else:
        ens = Ens(detectors=dict(members), election=el)      # the default argument of the constructor
    if stream:
        X, yt, yp = stream_data(case)
    else:
        batches = batch_data(case)

    diffs = []

    def compare(j):
        for i, sp in enumerate(specs):
            d = deep_diff(ens.detectors[sp["key"]], twins[i], sp["key"])
            if d:
                diffs.append([j, i, d])

    obs = {"init": ens_obs(ens, el, stream), "twins0": [member_obs(t) for t in twins], "ops": [], "ens": [], "twins": []}
    compare(-1)
    pending = list(case["ops"])
    j = 0
    while pending:
        op = pending.pop(0)
        if op[0] == "u":
            t = op[1]
            if stream:
                A, a, b = X[[t], :], int(yt[t]), int(yp[t])
            else:
                A = batches[t]
                a = b = None
                if case.get("with_y"):
                    a = np.zeros((A.shape[0], 1)); b = np.ones((A.shape[0], 1))
            ens.update(as_input(case, A), a, b)
            for i, sp in enumerate(specs):
                twins[i].update(X=twin_input(case, A, sp["cols"]), y_true=a, y_pred=b)
        elif op[0] == "r":
            ens.reset()
            for tw in twins:
                tw.reset()
        else:
            A = batches[op[1]]
            a = b = None
            if case.get("with_y"):
                a = np.zeros((A.shape[0], 1)); b = np.ones((A.shape[0], 1))
            ens.set_reference(as_input(case, A), a, b)
            for i, sp in enumerate(specs):
                twins[i].set_reference(X=twin_input(case, A, sp["cols"]), y_true=a, y_pred=b)
        obs["ops"].append(op)
        obs["ens"].append(ens_obs(ens, el, stream))
        obs["twins"].append([member_obs(tw) for tw in twins])
        if len(diffs) < 3:
            compare(j)
        # the documented use: reset after an alarm of the ensemble
        if case.get("reset_on_drift") and op[0] == "u" and ens.drift_state == "drift":
            pending.insert(0, ["r"])
        j += 1
    obs["diffs"] = diffs
    return obs


# ------------------------------------------------------------------ D: direct check
class RuleElection:
    """the voting rules as documented (independent of election.py and of the Coq model)"""

    def __init__(self, el, n):
        self.el = el
        self.rem = [0] * n

    def __call__(self, states):
        el = self.el
        k = sum(1 for s in states if s == "drift")
        if el["kind"] == "maj":
            return "drift" if 2 * k > len(states) else None
        if el["kind"] == "min":
            return "drift" if k >= el["a"] else None
        if el["kind"] == "ord":
            return "drift" if k >= el["a"] + el["c"] else None
        if el["kind"] == "pos":
            d = dw = 0
            for i, st in enumerate(states):
                if st == "drift":
                    d += el["ws"][i]
                if st is not None:
                    dw += el["ws"][i]
            return "drift" if d >= el["thr"] else "warning" if dw >= el["thr"] else None
        nd = nw = 0
        for i, st in enumerate(states):
            if self.rem[i] == 0:
                if st == "drift":
                    nd += 1; self.rem[i] = el["w"]
                elif st == "warning":
                    nw += 1
            elif st == "warning":
                nw += 1
            else:
                nd += 1; self.rem[i] -= 1
        return "drift" if nd >= el["s"] else "warning" if nd + nw >= el["s"] else None


_RUN = collections.Counter()


def _tally(case, obs):
    _RUN["calls"] += len(obs["ops"])
    _RUN["resets_executed"] += sum(1 for o in obs["ops"] if o[0] == "r")
    _RUN["member_comparisons"] += (len(obs["ops"]) + 1) * len(case["members"])
    prev = [None] * len(case["members"])
    first = {}
    for j, tw in enumerate(obs["twins"]):
        for i, o in enumerate(tw):
            if o[0] == "drift" and prev[i] != "drift":
                _RUN["member_drift_events"] += 1
                _RUN["member_drift_events_" + case["members"][i]["det"]] += 1
                first.setdefault(i, j)
            if o[0] == "warning" and prev[i] != "warning":
                _RUN["member_warning_events"] += 1
            prev[i] = o[0]
    _RUN["cases_with_members_drifting_at_different_calls"] += len(set(first.values())) >= 2
    for op, e in zip(obs["ops"], obs["ens"]):
        if op[0] == "u":
            _RUN["ensemble_verdict_" + str(e["ds"])] += 1
    _RUN["calls_with_split_vote"] += sum(1 for op, tw in zip(obs["ops"], obs["twins"])
                                         if op[0] == "u" and 0 < sum(o[0] == "drift" for o in tw) < len(tw))


def extra(ctx):
    return {"run_stats": dict(_RUN)}


def direct_check(case, obs):
    if "__exception__" in obs:
        return [f"ensemble run raised {obs['__exception__']}: {obs['__message__']}"]
    if not case.get("_shrinking"):
        _tally(case, obs)
    msgs = []
    specs = case["members"]
    keys = [sp["key"] for sp in specs]
    for j, i, d in obs["diffs"][:3]:
        msgs.append(f"after call {j} {obs['ops'][j] if j >= 0 else 'construction'}: member {keys[i]} ({specs[i]['det']}) "
                    f"differs from its twin run alone: {d}")
    rule = RuleElection(case["election"], len(specs))
    total = since = 0
    ds = None

    def views(j, e, tw):
        exp_states = [[k, o[0]] for k, o in zip(keys, tw)]
        exp_recs = [[k, o[1]] for k, o in zip(keys, tw) if o[1] != "NOATTR"]
        if e["states"] != exp_states:
            msgs.append(f"call {j}: drift_states {e['states']} but the members alone report {exp_states}")
        if e["recs"] != exp_recs:
            msgs.append(f"call {j}: retraining_recs {e['recs']} but the members alone report {exp_recs}")

    e0 = obs["init"]
    views(-1, e0, obs["twins0"])
    if (e0["ds"], e0["total"], e0["since"]) != (None, 0, 0):
        msgs.append(f"fresh ensemble: drift_state/counters {(e0['ds'], e0['total'], e0['since'])}")
    for j, (op, e, tw) in enumerate(zip(obs["ops"], obs["ens"], obs["twins"])):
        if op[0] == "u":
            total += 1; since += 1
            ds = rule([o[0] for o in tw])
        elif op[0] == "r":
            since = 0; ds = None
        if e["ds"] != ds:
            msgs.append(f"call {j} {op}: ensemble drift_state {e['ds']!r}, its election rule on the members run alone "
                        f"({[o[0] for o in tw]}, {case['election']}) gives {ds!r}")
        if case["election"]["kind"] == "conf" and e["wait"]:
            w = case["election"]["w"]
            if [0 if c == 0 else w + 1 - c for c in e["wait"]] != rule.rem:
                msgs.append(f"call {j} {op}: ConfirmedElection counters {e['wait']} do not encode the remaining waits "
                            f"{rule.rem} of the members in insertion order")
        if e["total"] != total:
            msgs.append(f"call {j} {op}: total counter {e['total']} after {total} updates")
        if e["since"] != since:
            msgs.append(f"call {j} {op}: since-reset counter {e['since']}, {since} updates since the last reset")
        views(j, e, tw)
        if len(msgs) > 4:
            break
    return msgs


# ------------------------------------------------------------------ C: model term
def _kid(k):
    return KEYS.index(k)


def _ds(x):
    return {None: "N", "warning": "W", "drift": "D"}[x]


def _recs(r):
    if r == "NOATTR":
        return "NA"
    if r == [None, None]:
        return "R0"
    return f"(RR {G.optz(r[0])} {G.optz(r[1])})"


def _eobs(e):
    st = G.lst([f"({_kid(k)},{_ds(v)})" for k, v in e["states"]])
    rc = G.lst([f"({_kid(k)},{G.recs(v)})" for k, v in e["recs"]])
    return f"OB {_ds(e['ds'])} {G.z(e['total'])} {G.z(e['since'])} {st} {rc} {G.zlist(e['wait'])}"


def _election_term(el):
    if el["kind"] == "maj":
        return "EMajority"
    if el["kind"] == "min":
        return f"(EMinApproval {G.z(el['a'])})"
    if el["kind"] == "ord":
        return f"(EOrdered {G.z(el['a'])} {G.z(el['c'])})"
    if el["kind"] == "pos":
        return f"(EPositional {G.zlist(el['ws'])} {G.z(el['thr'])})"
    return f"(CF {G.z(el['s'])} {G.z(el['w'])})"


def _labels(case, t):
    """identifiers of the labels of call t (stream: the two label values; batch: 1 when label arrays are passed)"""
    if case["kind"] == "stream":
        return None
    return (1, 2) if case.get("with_y") else (-1, -1)


def terms(case, obs):
    stream = case["kind"] == "stream"
    d = case["d"]
    allc = list(range(d))
    if stream:
        _, yt, yp = stream_data(case)
    ops, calls = [], []
    for op in obs["ops"]:
        if op[0] == "r":
            ops.append("RS"); calls.append((1, -1, 0, 0))
        else:
            t = op[1]
            a, b = (int(yt[t]), int(yp[t])) if stream else _labels(case, t)
            ops.append(f"{'U' if op[0] == 'u' else 'SR'} {t} {G.zlist(allc)} {G.z(a)} {G.z(b)}")
            calls.append((0 if op[0] == "u" else 2, t, a, b))
    ms = []
    for i, sp in enumerate(case["members"]):
        script = G.lst([f"EN {tag} {G.z(t)} {G.z(a)} {G.z(b)} {_ds(tw[i][0])} {_recs(tw[i][1])}"
                        for (tag, t, a, b), tw in zip(calls, obs["twins"])])
        cols = "None" if sp["cols"] is None else f"(Some {G.zlist(sp['cols'])})"
        want = G.zlist(allc if sp["cols"] is None else sp["cols"])
        o0 = obs["twins0"][i]
        ms.append(f"MS {_kid(sp['key'])} {cols} {want} {_ds(o0[0])} {_recs(o0[1])} {script}")
    exp = G.lst([_eobs(obs["init"])] + [_eobs(e) for e in obs["ens"]])
    return _election_term(case["election"]), G.lst(ms), G.lst(ops), exp


def coq_term(case, obs):
    if "__exception__" in obs:
        return "false"
    k, ms, ops, exp = terms(case, obs)
    return f"chk_ens {k} {ms} {ops} {exp}"


def show_term(case, obs):
    k, ms, ops, exp = terms(case, obs)
    return f"show_ens {k} {ms} {ops} {exp}"


def nontrivial(case, obs):
    if "__exception__" in obs:
        return False
    first = {}
    for j, tw in enumerate(obs["twins"]):
        for i, o in enumerate(tw):
            if o[0] == "drift" and i not in first:
                first[i] = j
    verdicts = {e["ds"] for op, e in zip(obs["ops"], obs["ens"]) if op[0] == "u"}
    return len(set(first.values())) >= 2 and len(verdicts) >= 2


# ------------------------------------------------------------------ generators
def draw_args(rng, det, thorough=False):
    c = rng.choice
    if det == "DDM":
        return {"n_threshold": c([5, 10, 20, 30]), "warning_scale": c([1, 1.5, 2]), "drift_scale": c([2, 2.5, 3])}
    if det == "EDDM":
        return {"n_threshold": c([3, 5, 10]), "warning_thresh": c([0.95, 0.98]), "drift_thresh": c([0.9, 0.95])}
    if det == "STEPD":
        return {"window_size": c([5, 10, 20, 30]), "alpha_warning": c([0.05, 0.1, 0.2]), "alpha_drift": c([0.003, 0.01, 0.05])}
    if det == "LFR":
        return {"burn_in": c([10, 20]), "num_mc": c([30, 60]), "time_decay_factor": c([0.8, 0.9]),
                "warning_level": c([0.05, 0.1]), "detect_level": c([0.01, 0.05])}
    if det in ("ADWIN", "ADWINACC"):
        return {"delta": c([0.002, 0.05, 0.2]), "max_buckets": c([2, 5]), "new_sample_thresh": c([4, 8, 32]),
                "window_size_thresh": c([5, 10]), "subwindow_size_thresh": c([2, 5])}
    if det == "PH":
        return {"delta": c([0.01, 0.005]), "threshold": c([2, 5, 10, 20]), "burn_in": c([5, 10, 30]),
                "direction": c(["positive", "negative"])}
    if det == "CUSUM":
        return {"burn_in": c([10, 20, 30]), "delta": c([0.005, 0.5]), "threshold": c([3, 5, 10]),
                "direction": c([None, "positive", "negative"])}
    if det == "KDQS":
        return {"window_size": c([15, 20, 30]), "persistence": c([0.05, 0.1, 0.2]), "alpha": c([0.01, 0.05, 0.2]),
                "bootstrap_samples": c([10, 25]), "count_ubound": c([5, 10])}
    if det == "HDDDM":
        st = c(["tstat", "stdev"])
        return {"detect_batch": c([1, 2, 3]), "divergence": "H", "statistic": st,
                "significance": c([0.05, 0.2]) if st == "tstat" else c([0.5, 1.0, 2.0]), "subsets": c([2, 5])}
    if det == "CDBD":
        st = c(["tstat", "stdev"])
        return {"detect_batch": c([1, 2, 3]), "divergence": c(["KL", "H"]), "statistic": st,
                "significance": c([0.05, 0.2]) if st == "tstat" else c([0.5, 1.0, 2.0]), "subsets": c([2, 5])}
    if det == "KDQB":
        return {"alpha": c([0.01, 0.05, 0.2]), "bootstrap_samples": c([10, 25]), "count_ubound": c([5, 10, 20])}
    if det == "NNDVI":
        return {"k_nn": c([2, 3, 5]), "sampling_times": c([15, 30]), "alpha": c([0.01, 0.05, 0.2])}
    raise KeyError(det)


def draw_cols(rng, det, d):
    """selector columns for a member (None: no selector)"""
    if det in UNIVARIATE:
        if d == 1 and rng.random() < 0.4:
            return None
        return [rng.randrange(d)]
    if det in CONCEPT:
        r = rng.random()
        if r < 0.3:
            return None
        k = rng.randint(0 if r < 0.4 else 1, d)
        return rng.sample(range(d), k)
    if rng.random() < 0.3:
        return None
    k = rng.randint(1, d)
    return rng.sample(range(d), k)            # random order: a permutation of a subset


def draw_election(rng, n):
    """parameters biased towards verdicts that are reachable: a member reports drift for one call only, so several
    members rarely alarm in the same call unless they are clones; ConfirmedElection bridges the gap with wait_time"""
    k = rng.choice(["maj", "min", "ord", "conf", "conf", "pos"])
    small = lambda hi: rng.choice([1, 1, 2, rng.randint(1, max(1, hi))])
    if k == "pos":
        ws = rng.sample(range(1, n + 3), n)
        lo = min(ws, default=1)
        return {"kind": "pos", "ws": ws, "thr": rng.randint(lo, max(lo, sum(ws) // 2))}
    if k == "maj":
        return {"kind": "maj"}
    if k == "min":
        return {"kind": "min", "a": small(n)}
    if k == "ord":
        a = rng.choice([0, 1, 1, rng.randint(0, max(1, n - 1))])
        c = rng.choice([1, 1, rng.randint(1, max(1, n - a))]) if a == 0 else rng.choice([0, 0, 1, rng.randint(0, max(1, n - a))])
        return {"kind": "ord", "a": a, "c": c}
    return {"kind": "conf", "s": small(n), "w": rng.choice([0, 1, 3, 10, 30, rng.randint(0, 60)])}


def clone_some(rng, members):
    """make some members exact clones (same detector, arguments and columns) of their predecessor: they alarm in the
    same call, which is what lets counting elections with a threshold above one reach a drift verdict"""
    for i in range(1, len(members)):
        if rng.random() < 0.3:
            members[i] = dict(members[i - 1], key=members[i]["key"])
    return members


def gen_stream(ctx, rng, idx, n_members=None, kinds=None, d=None, cols=None):
    thorough = ctx.thorough
    n = rng.randint(120, 260) if not thorough else rng.randint(150, 500)
    d = rng.randint(1, 4) if d is None else d
    nm = rng.randint(2, 6) if n_members is None else n_members
    pool = ["DDM", "EDDM", "STEPD", "PH", "CUSUM", "ADWIN", "KDQS", "LFR", "ADWINACC"]
    weights = [3, 3, 3, 3, 3, 3, 2, 1, 1]
    dets = kinds if kinds is not None else rng.choices(pool, weights, k=nm)
    keys = rng.sample(KEYS, len(dets))          # insertion order differs from alphabetical order
    members = [{"key": k, "det": det, "args": draw_args(rng, det), "cols": draw_cols(rng, det, d)} for k, det in zip(keys, dets)]
    if kinds is None:
        clone_some(rng, members)
    if cols is not None:
        for m, c in zip(members, cols):
            m["cols"] = c
    shifts = []
    for j in range(d):
        pts = sorted(rng.sample(range(40, n - 10), rng.randint(1, 3)))
        level, row = 0.0, []
        for t in pts:
            level += rng.choice([-1, 1]) * rng.choice([2.0, 3.0, 5.0])
            row.append([t, level, rng.choice([1.0, 1.0, 2.0])])
        shifts.append(row)
    errs = [[t, rng.choice([0.05, 0.45, 0.6, 0.2])] for t in sorted(rng.sample(range(35, n - 10), rng.randint(1, 3)))]
    ops = [["u", t] for t in range(n)]
    for _ in range(rng.choice([0, 0, 1, 2, 4])):
        ops.insert(rng.randrange(1, len(ops)), ["r"])
    return {"kind": "stream", "n": n, "d": d, "members": members, "election": draw_election(rng, len(dets)),
            "shifts": shifts, "err0": rng.choice([0.05, 0.1, 0.2]), "errs": errs, "dseed": rng.randrange(10 ** 6),
            "seed": rng.randrange(10 ** 6), "frame": rng.random() < 0.3, "grid": rng.random() < 0.2,
            "reset_on_drift": rng.random() < 0.5, "ops": ops}


def gen_batch(ctx, rng, idx, n_members=None, kinds=None, d=None, cols=None):
    d = rng.randint(1, 3) if d is None else d
    nm = rng.randint(2, 5) if n_members is None else n_members
    dets = kinds if kinds is not None else rng.choices(["HDDDM", "CDBD", "KDQB", "NNDVI"], [3, 3, 3, 2], k=nm)
    keys = rng.sample(KEYS, len(dets))
    members = [{"key": k, "det": det, "args": draw_args(rng, det), "cols": draw_cols(rng, det, d)} for k, det in zip(keys, dets)]
    if kinds is None:
        clone_some(rng, members)
    if cols is not None:
        for m, c in zip(members, cols):
            m["cols"] = c
    nb = rng.randint(8, 14) if not ctx.thorough else rng.randint(10, 24)
    means, sds = [0.0] * d, [1.0] * d
    change = {j: sorted(rng.sample(range(2, nb), rng.randint(1, 2))) for j in range(d)}
    batches = []
    for b in range(nb + 1):
        for j in range(d):
            if b in change[j]:
                means[j] += rng.choice([-1, 1]) * rng.choice([1.5, 3.0]); sds[j] = rng.choice([1.0, 2.0])
        batches.append([rng.randint(25, 50), list(means), list(sds)])
    ops = [["s", 0]] + [["u", b] for b in range(1, nb + 1)]
    for _ in range(rng.choice([0, 0, 1, 2])):
        ops.insert(rng.randrange(2, len(ops)), ["r"])
    for _ in range(rng.choice([0, 0, 1, 2])):
        ops.insert(rng.randrange(2, len(ops)), ["s", rng.randrange(0, nb + 1)])
    return {"kind": "batch", "d": d, "members": members, "election": draw_election(rng, len(dets)), "batches": batches,
            "dseed": rng.randrange(10 ** 6), "seed": rng.randrange(10 ** 6), "frame": rng.random() < 0.4,
            "grid": rng.random() < 0.2, "with_y": rng.random() < 0.25, "reset_on_drift": rng.random() < 0.5, "ops": ops}


def gen_cases(ctx):
    rng = ctx.rng
    cases = []
    ns, nb = ctx.scale(34, 300), ctx.scale(20, 200)
    # degenerate sizes: no member, one member
    for nm in (0, 1):
        c = gen_stream(ctx, rng, -1, n_members=nm); c["n"] = 60; c["ops"] = [o for o in c["ops"] if o[0] == "r" or o[1] < 60]
        c["shifts"] = [[[20, 4.0, 1.0]] for _ in range(c["d"])]; c["errs"] = [[20, 0.6]]
        cases.append(c)
        cases.append(gen_batch(ctx, rng, -1, n_members=nm))
    # every election kind on a fixed mix of one concept, one change and one data detector
    for kind in ("maj", "min", "ord", "conf", "pos"):
        # members without a selector placed after members with one, and the other way round
        c = gen_stream(ctx, rng, -2, kinds=["DDM", "PH", "KDQS", "STEPD", "ADWIN"], d=3,
                       cols=[None, [rng.randrange(3)], None, rng.sample(range(3), 2), [rng.randrange(3)]])
        el = {"maj": {"kind": "maj"}, "min": {"kind": "min", "a": 2}, "ord": {"kind": "ord", "a": 1, "c": 1},
              "conf": {"kind": "conf", "s": 2, "w": 25}, "pos": {"kind": "pos", "ws": [1, 8, 2, 4, 16], "thr": 9}}[kind]
        c["election"] = el
        cases.append(c)
    for _ in range(2):
        cases.append(gen_batch(ctx, rng, -2, kinds=["CDBD", "HDDDM", "NNDVI", "KDQB"], d=3,
                               cols=[[rng.randrange(3)], None, rng.sample(range(3), 2), None]))
    for i in range(ns):
        cases.append(gen_stream(ctx, rng, i))
    for i in range(nb):
        cases.append(gen_batch(ctx, rng, i))
    for c in cases:
        ctx.stats["kind_" + c["kind"]] = ctx.stats.get("kind_" + c["kind"], 0) + 1
        ctx.stats["election_" + c["election"]["kind"]] = ctx.stats.get("election_" + c["election"]["kind"], 0) + 1
        ctx.stats[f"members_{len(c['members'])}"] = ctx.stats.get(f"members_{len(c['members'])}", 0) + 1
        for m in c["members"]:
            ctx.stats["det_" + m["det"]] = ctx.stats.get("det_" + m["det"], 0) + 1
            s = "selector_none" if m["cols"] is None else "selector_cols"
            ctx.stats[s] = ctx.stats.get(s, 0) + 1
        for f in ("frame", "grid", "reset_on_drift", "with_y"):
            if c.get(f):
                ctx.stats[f] = ctx.stats.get(f, 0) + 1
        ctx.stats["static_resets"] = ctx.stats.get("static_resets", 0) + sum(1 for o in c["ops"] if o[0] == "r")
        ctx.stats["set_references"] = ctx.stats.get("set_references", 0) + sum(1 for o in c["ops"] if o[0] == "s")
    return cases


def signature(case, obs, msgs):
    return {"kind": case["kind"], "election": case["election"]["kind"], "dets": sorted({m["det"] for m in case["members"]})}


_SHRINK = {"t0": None}


def shrink_candidates(case):
    """smaller histories / fewer members; all shrinking of one run together is limited to ~40 s of wall time"""
    if _SHRINK["t0"] is None:
        _SHRINK["t0"] = time.time()
    for c in _shrink_candidates(case):
        if time.time() - _SHRINK["t0"] > 40:
            return
        yield c


def _shrink_candidates(case):
    ops = case["ops"]
    n = len(ops)
    if n > 1:
        yield dict(case, ops=ops[: n // 2])
        yield dict(case, ops=ops[: n - 1])
        for k in (n // 4, n // 8, 1):
            if k >= 1:
                for s in range(0, n, k):
                    cand = ops[:s] + ops[s + k:]
                    if cand and (case["kind"] == "stream" or cand[0][0] == "s"):
                        yield dict(case, ops=cand)
    ms = case["members"]
    if len(ms) > 1:
        for i in range(len(ms)):
            yield dict(case, members=ms[:i] + ms[i + 1:])
    if case.get("reset_on_drift"):
        yield dict(case, reset_on_drift=False)
    if case.get("frame"):
        yield dict(case, frame=False)


# ------------------------------------------------------------------ the translated ensemble classes (second tie)
def obligations(ctx):
    """ensemble.py's update / reset / set_reference re-translated to Gallina and re-proved equal to Ensemble.v on every run."""
    from .pytrans import obligations_ensemble
    yield from obligations_ensemble(ctx)
