(** Models of menelaus/change_detection/{page_hinkley,cusum}.py as kernels of the generic machine. *)
From MV Require Import Base Num Lifecycle Pairwise.

Section ChangeDet.
Context {N : Num}.
Local Open Scope num_scope.
Notation F := (F N).

Inductive direction := DirPos | DirNeg | DirBoth.

(** ------------------------------- Page-Hinkley ------------------------------- *)
Record ph_params := { ph_delta : F; ph_threshold : F; ph_burn_in : Z; ph_dir : direction (* DirPos / DirNeg *) }.
(** [ph_row]: the row that update() appends to the per-epoch history (to_dataframe()) *)
Record ph_row := { r_x : F; r_sum : F; r_diff : F; r_theta : F; r_check : bool; r_max : F; r_min : F; r_mean : F }.
Record ph_e := { p_max : F; p_min : F; p_sum : F; p_mean : F; p_rows : list ph_row (* newest first *) }.
Definition ph_e0 : ph_e := {| p_max := f0; p_min := f0; p_sum := f0; p_mean := f0; p_rows := [] |}.

Definition ph_diff (d : direction) (sum mn mx : F) : F :=
  match d with DirNeg => mx - sum | _ => sum - mn end.

Definition ph_step (p : ph_params) (e : ph_e) (n : Z) (x : F) : ph_e * option dstate :=
  let mean := p_mean e + (x - p_mean e) / fofZ n in
  let sum := ((p_sum e + x) - mean) - ph_delta p in
  let theta := ph_threshold p * mean in
  let mn := if sum <? p_min e then sum else p_min e in
  let mx := if p_max e <? sum then sum else p_max e in
  let diff := ph_diff (ph_dir p) sum mn mx in
  let check := theta <? diff in
  let row := {| r_x := x; r_sum := sum; r_diff := diff; r_theta := theta; r_check := check;
                r_max := mx; r_min := mn; r_mean := mean |} in
  ({| p_max := mx; p_min := mn; p_sum := sum; p_mean := mean; p_rows := row :: p_rows e |},
   if check && (ph_burn_in p <? n)%Z then Some DDrift else None).

Definition PH (p : ph_params) : kernel :=
  {| E := ph_e; X := F; reset_e := fun _ => ph_e0; step_e := ph_step p; policy := PolNoRecs |}.

(** ------------------------------- CUSUM ------------------------------- *)
Record cusum_params := { c_burn_in : Z; c_delta : F; c_threshold : F; c_dir : direction }.
Record cusum_e := {
  c_target : option F; c_sd : option F;
  c_up : F; c_lo : F;                  (* last entries of _upper_bound / _lower_bound *)
  c_stream : list F;                   (* every observation ever received, newest first *)
  c_err : bool                         (* the ValueError "sd_hat is zero" was raised *)
}.
Definition cusum_e0 (target sd : option F) : cusum_e :=
  {| c_target := target; c_sd := sd; c_up := f0; c_lo := f0; c_stream := []; c_err := false |}.

(** Python's stream[-burn_in:] on a newest-first list, returned oldest first *)
Definition last_burn_in (b : Z) (s : list F) : list F :=
  if (b =? 0)%Z then rev s else rev (firstn (Z.to_nat b) s).

(** what update() does on the call after a drift, before reset(): re-estimate from the last burn_in *)
Definition cusum_reset (p : cusum_params) (e : cusum_e) : cusum_e :=
  let w := last_burn_in (c_burn_in p) (c_stream e) in
  {| c_target := Some (np_mean w); c_sd := Some (np_std w); c_up := f0; c_lo := f0;
     c_stream := c_stream e; c_err := c_err e |}.

Definition cusum_step (p : cusum_params) (e : cusum_e) (n : Z) (x : F) : cusum_e * option dstate :=
  let stream := x :: c_stream e in
  (* estimation at the end of the first burn-in *)
  let '(tg, sd) :=
    match c_target e with
    | None => if (n =? c_burn_in p)%Z
              then (Some (np_mean (rev stream)), Some (np_std (rev stream)))
              else (None, c_sd e)
    | Some t => (Some t, c_sd e)
    end in
  let err := match sd with Some s => feqb s f0 && (c_burn_in p <? n)%Z | None => false end in
  let '(up, lo) :=
    match tg, sd with
    | Some t, Some s =>
        let z := (x - t) / s in
        (pymax f0 ((c_up e + z) - c_delta p), pymax f0 ((c_lo e - c_delta p) - z))
    | _, _ => (f0, f0)
    end in
  let e' := {| c_target := tg; c_sd := sd; c_up := up; c_lo := lo; c_stream := stream;
               c_err := c_err e || err |} in
  let alarm :=
    match c_dir p with
    | DirBoth => (c_threshold p <? up) || (c_threshold p <? lo)
    | DirPos => c_threshold p <? up
    | DirNeg => c_threshold p <? lo
    end in
  (e', if (c_burn_in p <? n)%Z && alarm then Some DDrift else None).

Definition CUSUM (p : cusum_params) : kernel :=
  {| E := cusum_e; X := F; reset_e := cusum_reset p; step_e := cusum_step p; policy := PolNoRecs |}.

End ChangeDet.
