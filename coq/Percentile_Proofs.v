(** Order properties of the np.percentile model over the reals ([NumR], floor := [Int_part] of
    Coq's Reals library).  The sample is a non-empty list sorted ascending:
      [sortedR l := forall i j, (i <= j < length l)%nat -> nth i l 0 <= nth j l 0]. *)
From MV Require Import Base Num NumLaws Lfr Lfr_Mono Percentile.
From Coq Require Import Reals Lra Lia.

Local Open Scope R_scope.

Definition sortedR (l : list R) : Prop :=
  forall i j, (i <= j < length l)%nat -> nth i l 0 <= nth j l 0.

Definition pctR (l : list R) (p : R) : R := @percentile NumR Int_part l p.
Definition pctvR (l : list R) (v : R) : R := @percentile_virt NumR Int_part l v.
Definition boundsR (l : list R) (w d : R) : @bounds NumR := @lfr_bounds_of NumR Int_part l w d.

Definition firstR (l : list R) : R := nth 0 l 0.
Definition lastR (l : list R) : R := nth (length l - 1) l 0.

(** (c) the two lerp branches agree over the reals *)
Lemma lerp_branches_agree (A B g : R) : B - (B - A) * (1 - g) = A + (B - A) * g.
Proof. ring. Qed.

Lemma lerpR (A B g : R) : @lerp NumR A B g = A + (B - A) * g.
Proof.
  unfold lerp. cbn [fleb fsub fadd fmul f1 NumR].
  destruct (Rle_dec _ g); cbn [F NumR]; ring.
Qed.

(** ---- facts about Int_part ---- *)
Lemma Int_part_lo (r : R) : IZR (Int_part r) <= r.
Proof. destruct (base_Int_part r); assumption. Qed.
Lemma Int_part_hi (r : R) : r < IZR (Int_part r) + 1.
Proof. destruct (base_Int_part r); lra. Qed.
Lemma Int_part_nonneg (r : R) : 0 <= r -> (0 <= Int_part r)%Z.
Proof.
  intros H. pose proof (Int_part_hi r) as H1.
  assert (H2 : (-1 < Int_part r)%Z) by (apply lt_IZR; lra). lia.
Qed.
Lemma Int_part_lt (r : R) (m : Z) : r < IZR m -> (Int_part r < m)%Z.
Proof. intros H. pose proof (Int_part_lo r). apply lt_IZR. lra. Qed.
Lemma Int_part_mono (a b : R) : a <= b -> (Int_part a <= Int_part b)%Z.
Proof.
  intros H. pose proof (Int_part_lo a). pose proof (Int_part_hi b).
  assert (H2 : (Int_part a < Int_part b + 1)%Z) by (apply lt_IZR; rewrite plus_IZR; lra). lia.
Qed.

(** ---- the value at a virtual index ---- *)
Section AtVirt.
Variable l : list R.
Hypothesis Hne : (1 <= length l)%nat.
Hypothesis Hs : sortedR l.

Let n1 : R := IZR (Z.of_nat (length l) - 1).
Local Ltac dn1 := unfold n1 in *.

Lemma n1_nonneg : 0 <= n1.
Proof. unfold n1. apply IZR_le. lia. Qed.

Lemma pctv_top (v : R) : n1 <= v -> pctvR l v = lastR l.
Proof.
  intros H. unfold pctvR, percentile_virt, pct_index, lastR, nthZ.
  cbn [F fleb fltb fofZ fsub f0 NumR]. dn1.
  destruct (Rle_dec _ v) as [_|C]; [|contradiction].
  rewrite lerpR. replace (Z.to_nat (Z.of_nat (length l) - 1)) with (length l - 1)%nat by lia. ring.
Qed.

Lemma pctv_mid (v : R) : 0 <= v < n1 ->
  let k := Z.to_nat (Int_part v) in
  (S k < length l)%nat /\ 0 <= v - IZR (Int_part v) < 1 /\
  pctvR l v = nth k l 0 + (nth (S k) l 0 - nth k l 0) * (v - IZR (Int_part v)).
Proof.
  intros [H0 H1] k.
  pose proof (Int_part_nonneg v H0) as Hk0.
  pose proof (Int_part_lt v _ H1) as Hk1.
  pose proof (Int_part_lo v). pose proof (Int_part_hi v).
  split; [subst k; lia|]. split; [lra|].
  unfold pctvR, percentile_virt, pct_index, nthZ.
  cbn [F fleb fltb fofZ fsub f0 NumR]. dn1.
  destruct (Rle_dec _ v) as [C|_]; [lra|].
  destruct (Rlt_dec v 0) as [C|_]; [lra|].
  rewrite lerpR.
  replace (Z.to_nat (Int_part v + 1)) with (S k) by (subst k; lia). reflexivity.
Qed.

Lemma seg_between (A B g : R) : A <= B -> 0 <= g <= 1 -> A <= A + (B - A) * g <= B.
Proof. intros H [H0 H1]. split; nra. Qed.

Lemma pctv_between (v : R) : 0 <= v -> firstR l <= pctvR l v <= lastR l.
Proof.
  intros H0. unfold firstR. destruct (Rle_dec n1 v) as [C|C].
  - rewrite pctv_top by assumption. unfold lastR. split; [apply Hs; lia | lra].
  - destruct (pctv_mid v) as (Hk & Hg & E); [lra|]. rewrite E.
    set (k := Z.to_nat (Int_part v)) in *.
    pose proof (seg_between (nth k l 0) (nth (S k) l 0) (v - IZR (Int_part v))) as S.
    destruct S as [S1 S2]; [apply Hs; lia | lra |].
    assert (nth 0 l 0 <= nth k l 0) by (apply Hs; lia).
    assert (nth (S k) l 0 <= lastR l) by (unfold lastR; apply Hs; lia).
    lra.
Qed.

Lemma pctv_mono (v1 v2 : R) : 0 <= v1 <= v2 -> pctvR l v1 <= pctvR l v2.
Proof.
  intros [H0 H12]. destruct (Rle_dec n1 v2) as [C2|C2].
  - rewrite (pctv_top v2) by assumption. apply pctv_between; assumption.
  - destruct (pctv_mid v1) as (Hk1 & Hg1 & E1); [lra|].
    destruct (pctv_mid v2) as (Hk2 & Hg2 & E2); [lra|].
    rewrite E1, E2.
    pose proof (Int_part_mono v1 v2 H12) as Hm.
    pose proof (Int_part_nonneg v1 H0) as Hn1.
    set (k1 := Z.to_nat (Int_part v1)) in *. set (k2 := Z.to_nat (Int_part v2)) in *.
    destruct (Z.eq_dec (Int_part v1) (Int_part v2)) as [Ek|Ek].
    + assert (k1 = k2) as -> by (subst k1 k2; rewrite Ek; reflexivity). rewrite Ek.
      assert (nth k2 l 0 <= nth (S k2) l 0) by (apply Hs; lia). rewrite Ek in Hg1. nra.
    + assert (Hlt : (S k1 <= k2)%nat) by (subst k1 k2; lia).
      destruct (seg_between (nth k1 l 0) (nth (S k1) l 0) (v1 - IZR (Int_part v1))) as [_ S1];
        [apply Hs; lia | lra |].
      destruct (seg_between (nth k2 l 0) (nth (S k2) l 0) (v2 - IZR (Int_part v2))) as [S2 _];
        [apply Hs; lia | lra |].
      assert (nth (S k1) l 0 <= nth k2 l 0) by (apply Hs; lia). lra.
Qed.

(** ---- percentiles ---- *)
Lemma virtR (p : R) : @virt_index NumR (Z.of_nat (length l)) p = n1 * (p / 100).
Proof. reflexivity. Qed.

Lemma pctR_virt (p : R) : pctR l p = pctvR l (n1 * (p / 100)).
Proof. reflexivity. Qed.

(** (a) *)
Lemma percentile_mono (p1 p2 : R) : 0 <= p1 <= p2 -> pctR l p1 <= pctR l p2.
Proof.
  intros [H0 H12]. rewrite !pctR_virt. pose proof n1_nonneg. apply pctv_mono. split.
  - apply Rmult_le_pos; lra.
  - apply Rmult_le_compat_l; lra.
Qed.

(** (b) *)
Lemma percentile_between (p : R) : 0 <= p -> firstR l <= pctR l p <= lastR l.
Proof.
  intros H0. rewrite pctR_virt. pose proof n1_nonneg. apply pctv_between. apply Rmult_le_pos; lra.
Qed.

Lemma percentile_100 : pctR l 100 = lastR l.
Proof. rewrite pctR_virt. apply pctv_top. lra. Qed.

Lemma percentile_ge_100 (p : R) : 100 <= p -> pctR l p = lastR l.
Proof.
  intros H. rewrite pctR_virt. apply pctv_top. pose proof n1_nonneg.
  replace n1 with (n1 * 1) at 1 by ring. apply Rmult_le_compat_l; lra.
Qed.

Lemma percentile_0 : pctR l 0 = firstR l.
Proof.
  rewrite pctR_virt. replace (n1 * (0 / 100)) with 0 by lra.
  destruct (Rle_dec n1 0) as [C|C].
  - (* single element: first = last *)
    rewrite pctv_top by assumption. unfold lastR, firstR.
    assert (E : n1 = 0) by (pose proof n1_nonneg; lra).
    unfold n1 in E. apply eq_IZR in E. replace (length l - 1)%nat with 0%nat by lia. reflexivity.
  - destruct (pctv_mid 0) as (_ & _ & E); [lra|]. rewrite E.
    replace (Int_part 0) with 0%Z.
    + simpl. unfold firstR. ring.
    + pose proof (Int_part_lo 0). pose proof (Int_part_hi 0).
      assert ((Int_part 0 < 1)%Z) by (apply lt_IZR; lra).
      assert ((-1 < Int_part 0)%Z) by (apply lt_IZR; lra). lia.
Qed.

(** ---- the four LFR bounds ---- *)
Lemma boundsR_fields (w d : R) :
  lb_warn (boundsR l w d) = pctR l (w * 100) /\ ub_warn (boundsR l w d) = pctR l (100 - w * 100) /\
  lb_detect (boundsR l w d) = pctR l (d * 100) /\ ub_detect (boundsR l w d) = pctR l (100 - d * 100).
Proof. repeat split. Qed.

Local Ltac bsimp :=
  unfold boundsR, lfr_bounds_of;
  cbn [lb_detect ub_detect lb_warn ub_warn fleb fmul fsub fofZ F NumR].

(** (d) detect_level: run 1 = looser (larger detect_level d1), run 2 = stricter (d2 <= d1) *)
Lemma lfr_bounds_nested_gen (w d1 d2 : R) : 0 <= d2 <= d1 -> d1 <= 1 ->
  brel (boundsR l w d1) (boundsR l w d2).
Proof.
  intros [H0 H12] H1. unfold brel. bsimp. repeat split.
  - apply Rleb_iff. apply percentile_mono. lra.
  - apply Rleb_iff. apply percentile_mono. lra.
Qed.

Lemma lfr_bounds_nested (w d1 d2 : R) : 0 <= d2 <= d1 -> d1 <= 1 / 2 ->
  brel (boundsR l w d1) (boundsR l w d2).
Proof. intros H H1. apply lfr_bounds_nested_gen; [assumption | lra]. Qed.

(** warning_level: run 1 = looser warning = larger warning_level w1, detect bounds equal *)
Lemma lfr_warn_bounds_nested_gen (d w1 w2 : R) : 0 <= w2 <= w1 -> w1 <= 1 ->
  wbrel (boundsR l w1 d) (boundsR l w2 d).
Proof.
  intros [H0 H12] H1. unfold wbrel. bsimp. repeat split.
  - apply Rleb_iff. apply percentile_mono. lra.
  - apply Rleb_iff. apply percentile_mono. lra.
Qed.

Lemma lfr_warn_bounds_nested (d w1 w2 : R) : 0 <= w2 <= w1 -> w1 <= 1 / 2 ->
  wbrel (boundsR l w1 d) (boundsR l w2 d).
Proof. intros H H1. apply lfr_warn_bounds_nested_gen; [assumption | lra]. Qed.

(** for levels <= 1/2 each pair of bounds is ordered, and the detect pair encloses the warning pair
    when detect_level <= warning_level *)
Lemma lfr_bounds_ordered (w d : R) : 0 <= d <= w -> w <= 1 / 2 ->
  let b := boundsR l w d in
  lb_detect b <= lb_warn b /\ lb_warn b <= ub_warn b /\ ub_warn b <= ub_detect b.
Proof.
  intros [H0 H1] H2 b. subst b. bsimp.
  repeat split; apply percentile_mono; lra.
Qed.

End AtVirt.

(** the hypotheses are satisfiable, and the value is the expected interpolation *)
Example percentile_example :
  sortedR [1; 2; 4] /\ pctR [1; 2; 4] 25 = 3 / 2 /\ pctR [1; 2; 4] 75 = 3.
Proof.
  split; [|split].
  - intros i j H. simpl in H.
    destruct i as [|[|[|i]]]; destruct j as [|[|[|j]]]; simpl; try lia; lra.
  - assert (Hne : (1 <= length [1; 2; 4])%nat) by (simpl; lia).
    destruct (pctv_mid [1; 2; 4] Hne (1 / 2)) as (_ & _ & E).
    + simpl. lra.
    + assert (I : Int_part (1 / 2) = 0%Z).
      { pose proof (Int_part_lo (1 / 2)). pose proof (Int_part_hi (1 / 2)).
        assert ((Int_part (1 / 2) < 1)%Z) by (apply lt_IZR; lra).
        assert ((-1 < Int_part (1 / 2))%Z) by (apply lt_IZR; lra). lia. }
      rewrite I in E. simpl in E. rewrite pctR_virt. simpl length. simpl Z.of_nat.
      replace (IZR (3 - 1) * (25 / 100)) with (1 / 2) by (simpl; lra). rewrite E. lra.
  - assert (Hne : (1 <= length [1; 2; 4])%nat) by (simpl; lia).
    destruct (pctv_mid [1; 2; 4] Hne (3 / 2)) as (_ & _ & E).
    + simpl. lra.
    + assert (I : Int_part (3 / 2) = 1%Z).
      { pose proof (Int_part_lo (3 / 2)). pose proof (Int_part_hi (3 / 2)).
        assert ((Int_part (3 / 2) < 2)%Z) by (apply lt_IZR; lra).
        assert ((0 < Int_part (3 / 2))%Z) by (apply lt_IZR; lra). lia. }
      rewrite I in E. simpl in E. rewrite pctR_virt. simpl length. simpl Z.of_nat.
      replace (IZR (3 - 1) * (75 / 100)) with (3 / 2) by (simpl; lra). rewrite E. lra.
Qed.
