(** Model of menelaus/data_drift/histogram_density_method.py (HistogramDensityMethod, the base class of
    HDDDM and CDBD), statement by statement, generic over the arithmetic [N : Num].

    Oracles (Section variables / inputs, never axioms):
      [trunc]  C cast double -> intp inside np.histogram (Hist.v);
      [sq]     numpy's scalar [x ** 2] (libm pow; NOT always the correctly rounded product x*x);
      [dist]   the divergence between a reference and a test histogram: [hellinger] (defined below,
               HDDDM's default), scipy's jensenshannon (CDBD's default) or the user's function;
      [tppf]   df |-> scipy.stats.t.ppf(1 - significance/2, df);
      the bootstrap estimate of the first epsilon (_estimate_initial_epsilon: pandas sampling) is an
      input of every update (read only on the second batch of an epoch when detect_batch <> 3).

    The detector has its own small machine (not Lifecycle.v): reset() of detect_batch = 1 itself
    performs an update with the second half of the reference, which counts in both counters.
    Domain: batches with >= 2 rows of [h_k] finite numbers (validation is C14's subject); with
    detect_batch = 1 a batch on which drift is reported must have >= 3 rows (see notes/design_C07.md).
    No proofs here. *)
From MV Require Import Base Num Hist.

Section Hdm.
Context {N : Num}.
Local Open Scope num_scope.
Notation F := (F N).

Variable trunc : F -> Z.
Variable sq : F -> F.
Variable dist : list Z -> list Z -> F.
Variable tppf : Z -> F.

Definition hrow := list F.

Record hdm_params := {
  h_db : Z;             (* detect_batch *)
  h_tstat : bool;       (* statistic == "tstat" (anything else: number of standard deviations) *)
  h_sig : F;            (* significance *)
  h_k : Z               (* _input_col_dim *)
}.

Record hst := mk_hst {
  h_ref : list hrow;            (* reference *)
  h_ref_n : Z;                  (* reference_n *)
  h_bins : Z;                   (* _bins *)
  h_eps : list F;               (* epsilon (oldest first) *)
  h_tot : F;                    (* total_epsilon *)
  h_lambda : Z;                 (* _lambda *)
  h_prev : F;                   (* _prev_distance *)
  h_prev_fd : list F;           (* _prev_feature_distances *)
  h_total : Z; h_since : Z; h_ds : dstate;
  h_cur : option F;             (* current_distance *)
  h_beta : option F;            (* beta (attribute: survives until the next threshold) *)
  h_feps : option (list F);     (* feature_epsilons *)
  h_finfo : option (list F * list F * Z);   (* feature_info: Epsilons, Feature_Distances, index *)
  h_dists : list (Z * F);       (* distances, newest first *)
  h_epsv : list (Z * F);        (* epsilon_values *)
  h_thr : list (Z * F);         (* thresholds *)
  (* what the last call computed: distance, epsilon, threshold (ghost fields: [None] when the call
     computed none; read by the checker and by the observation) *)
  h_cur_now : option F; h_eps_now : option F; h_beta_now : option F;
  h_hists : list (list Z * list Z)          (* (reference histogram, test histogram) per feature *)
}.

Definition hdm_init : hst :=
  mk_hst [] 0 0 [] f0 0 f0 [] 0 0 DNone None None None None [] [] [] None None None [].

(** ---------------- histograms on common edges ---------------- *)
Definition hcol (f : nat) (rows : list hrow) : list F := map (fun r => nth f r f0) rows.

(** np.concatenate((reference[:, f], X[:, f])).min() / .max() *)
Definition feat_range (ref X : list hrow) (f : nat) : F * F :=
  let c := hcol f ref ++ hcol f X in (lmin c, lmax c).

(** _build_histograms(reference, mins, maxes)[f], _build_histograms(X, mins, maxes)[f] *)
Definition feat_hists (bins : Z) (ref X : list hrow) (f : nat) : list Z * list Z :=
  let '(lo, hi) := feat_range ref X f in
  (histogram trunc (hcol f ref) bins lo hi, histogram trunc (hcol f X) bins lo hi).

Definition all_hists (k bins : Z) (ref X : list hrow) : list (list Z * list Z) :=
  map (feat_hists bins ref X) (seq 0 (Z.to_nat k)).

Definition feat_dists (hs : list (list Z * list Z)) : list F := map (fun h => dist (fst h) (snd h)) hs.

(** Python's  acc = 0; for x in l: acc += x *)
Definition sum_from0 (l : list F) : F := fold_left fadd l f0.

(** current_distance = (1 / k) * total_distance *)
Definition mean_dist (k : Z) (fds : list F) : F := (f1 / fofZ k) * sum_from0 fds.

(** ---------------- _hellinger_distance ---------------- *)
Definition hellinger (rh th : list Z) : F :=
  let r_len := fofZ (zsum_l rh) in
  let t_len := fofZ (zsum_l th) in
  fsqrt (sum_from0 (map (fun rt => sq (fsqrt (fofZ (snd rt) / t_len) - fsqrt (fofZ (fst rt) / r_len)))
                        (combine rh th))).

(** ---------------- _adaptive_threshold ---------------- *)
Definition boot_phase (p : hdm_params) (since : Z) : bool := (since =? 2)%Z && negb (h_db p =? 3)%Z.

(** epsilon[-2] *)
Definition last2 (l : list F) : F := nth (length l - 2) l f0.

(** [dl] = total_batches - _lambda.  Returns (epsilon, total_epsilon, beta). *)
Definition adaptive_threshold (p : hdm_params) (eps : list F) (tot : F) (since dl ref_n test_n : Z)
  : list F * F * F :=
  let '(eps1, tot1) :=
    if (since =? 3)%Z && negb (h_db p =? 3)%Z then (tl eps, tot - hd f0 eps) else (eps, tot) in
  let d := if boot_phase p since then 1%Z else (dl - 1)%Z in
  let tot2 := tot1 + last2 eps1 in
  let eh := (f1 / fofZ d) * tot2 in
  let tsd := sum_from0 (map (fun e => sq (e - eh)) (removelast eps1)) in
  let sd := fsqrt (tsd / fofZ d) in
  let beta := if h_tstat p then eh + tppf (ref_n + test_n - 2)%Z * (sd / fsqrt (fofZ d))
              else eh + h_sig p * sd in
  (eps1, tot2, beta).

(** the threshold is computed (and the drift test made) from the detect_batch-th batch of the epoch *)
Definition gate (p : hdm_params) (since : Z) : bool :=
  if (h_db p =? 3)%Z then (3 <=? since)%Z else (2 <=? since)%Z.

(** [a_i - b_i for a_i, b_i in zip(a, b)] *)
Fixpoint zip_sub (a b : list F) : list F :=
  match a, b with x :: a', y :: b' => (x - y) :: zip_sub a' b' | _, _ => [] end.

(** max(l): the first maximal element; l.index(m): the first position holding a value equal to m *)
Definition pymax_list (l : list F) : F :=
  match l with [] => f0 | x :: t => fold_left (fun m y => if m <? y then y else m) t x end.
Fixpoint index_of (m : F) (l : list F) : Z :=
  match l with [] => 0%Z | x :: t => if feqb x m then 0%Z else (1 + index_of m t)%Z end.
Definition argmax_first (l : list F) : Z := index_of (pymax_list l) l.

(** ---------------- update(), after the "if drift: reset()" prologue ---------------- *)
Definition hdm_core (p : hdm_params) (s : hst) (X : list hrow) (boot : F) : hst :=
  let total := (h_total s + 1)%Z in
  let since := (h_since s + 1)%Z in
  let test_n := zlen X in
  let hs := all_hists (h_k p) (h_bins s) (h_ref s) X in
  let fds := feat_dists hs in
  let cur := mean_dist (h_k p) fds in
  let feps := if (1 <? since)%Z then Some (zip_sub fds (h_prev_fd s)) else h_feps s in
  let has_eps := (2 <=? since)%Z in
  let eps_a := if boot_phase p since then h_eps s ++ [boot] else h_eps s in
  let ce := fabs (cur - h_prev s) * f1 in
  let eps_b := eps_a ++ [ce] in
  let has_beta := has_eps && gate p since in
  let '(eps_c, tot_c, beta) :=
    adaptive_threshold p eps_b (h_tot s) since (total - h_lambda s)%Z (h_ref_n s) test_n in
  let drift := has_beta && (beta <? ce) in
  let ds' := if drift then DDrift else h_ds s in
  let keep_ref := negb (is_drift ds') in
  let ref' := h_ref s ++ X in
  mk_hst
    (if drift then X else if keep_ref then ref' else h_ref s)
    (if keep_ref then zlen ref' else h_ref_n s)
    (if keep_ref then Z.sqrt (zlen ref') else h_bins s)
    (if has_beta then eps_c else if has_eps then eps_b else h_eps s)
    (if has_beta then tot_c else h_tot s)
    (if drift then total else h_lambda s)
    (if keep_ref then cur else h_prev s)
    (if keep_ref then fds else h_prev_fd s)
    total since ds'
    (Some cur)
    (if has_beta then Some beta else h_beta s)
    feps
    (if drift && (1 <? h_k p)%Z
     then (let fe := match feps with Some l => l | None => [] end in Some (fe, fds, argmax_first fe))
     else h_finfo s)
    ((total, cur) :: h_dists s)
    (if has_eps then (total, ce) :: h_epsv s else h_epsv s)
    (if has_beta then (total, beta) :: h_thr s else h_thr s)
    (Some cur)
    (if has_eps then Some ce else None)
    (if has_beta then Some beta else None)
    hs.

(** ---------------- reset() ---------------- *)
Definition hdm_reset_base (p : hdm_params) (s : hst) : hst :=
  let h := Z.to_nat (zlen (h_ref s) / 2) in
  let ref := if (h_db p =? 1)%Z then firstn h (h_ref s) else h_ref s in
  mk_hst ref (zlen ref) (Z.sqrt (zlen ref)) [] f0 (h_lambda s) (h_prev s) (h_prev_fd s)
         (h_total s) 0 DNone (h_cur s) (h_beta s) (h_feps s) (h_finfo s)
         (h_dists s) (h_epsv s) (h_thr s) None None None (h_hists s).

(** test_proxy = reference.iloc[int(len(reference) / 2):] *)
Definition hdm_proxy (s : hst) : list hrow := skipn (Z.to_nat (zlen (h_ref s) / 2)) (h_ref s).

Definition hdm_reset (p : hdm_params) (s : hst) : hst :=
  let s1 := hdm_reset_base p s in
  if (h_db p =? 1)%Z then hdm_core p s1 (hdm_proxy s) f0 else s1.

(** ---------------- update(X) ; set_reference(X) ---------------- *)
Definition hdm_update (p : hdm_params) (s : hst) (X : list hrow) (boot : F) : hst :=
  hdm_core p (if is_drift (h_ds s) then hdm_reset p s else s) X boot.

Definition with_reference (s : hst) (X : list hrow) : hst :=
  mk_hst X (h_ref_n s) (h_bins s) (h_eps s) (h_tot s) (h_total s) (h_prev s) (h_prev_fd s)
         (h_total s) (h_since s) (h_ds s) (h_cur s) (h_beta s) (h_feps s) (h_finfo s)
         (h_dists s) (h_epsv s) (h_thr s) (h_cur_now s) (h_eps_now s) (h_beta_now s) (h_hists s).

(** with detect_batch = 1 a reference of fewer than three rows is rejected (ValueError, state kept) *)
Definition hdm_set_reference (p : hdm_params) (s : hst) (X : list hrow) : hst :=
  if (h_db p =? 1)%Z && (zlen X <? 3)%Z then s else hdm_reset p (with_reference s X).

(** ---------------- operation sequences and the observable trace ---------------- *)
Inductive hop := OUpd (X : list hrow) (boot : F) | ORef (X : list hrow).

Definition hdm_apply (p : hdm_params) (s : hst) (o : hop) : hst :=
  match o with OUpd X boot => hdm_update p s X boot | ORef X => hdm_set_reference p s X end.

Definition hdm_run (p : hdm_params) (s : hst) (ops : list hop) : hst := fold_left (hdm_apply p) ops s.

(** what a user reads after a call: state, counters, the distance / epsilon / threshold computed by
    this call, reference size and content, the epoch's epsilon list and running total, and
    feature_epsilons / feature_info.  The code assigns feature_epsilons only from the second batch of
    an epoch on and otherwise LEAVES THE ATTRIBUTE UNCHANGED (the model mirrors that: [h_feps] keeps
    its previous value, a new detector has [None]); the observation therefore reads it only once it
    has been computed in the current epoch, and feature_info only while drift is reported. *)
Record hobs := mk_hobs {
  ho_ds : dstate; ho_total : Z; ho_since : Z;
  ho_cur : option F; ho_eps : option F; ho_beta : option F;
  ho_ref_n : Z; ho_ref : list hrow; ho_epsl : list F; ho_tot : F;
  ho_feps : option (list F);                 (* feature_epsilons, once computed in the current epoch *)
  ho_finfo : option (list F * list F * Z)    (* feature_info, while drift is reported *)
}.
Definition hobserve (s : hst) : hobs :=
  mk_hobs (h_ds s) (h_total s) (h_since s) (h_cur_now s) (h_eps_now s) (h_beta_now s)
          (h_ref_n s) (h_ref s) (h_eps s) (h_tot s)
          (if (2 <=? h_since s)%Z then h_feps s else None)
          (if is_drift (h_ds s) then h_finfo s else None).
Definition hshift (k : Z) (o : hobs) : hobs :=
  mk_hobs (ho_ds o) (ho_total o + k)%Z (ho_since o) (ho_cur o) (ho_eps o) (ho_beta o)
          (ho_ref_n o) (ho_ref o) (ho_epsl o) (ho_tot o) (ho_feps o) (ho_finfo o).

Fixpoint hdm_trace (p : hdm_params) (s : hst) (ops : list hop) : list hobs :=
  match ops with
  | [] => []
  | o :: t => let s' := hdm_apply p s o in hobserve s' :: hdm_trace p s' t
  end.

End Hdm.
