(** C02 — after a drift a detector starts from a clean slate.
    Statements only.  [clean_slate] is proved once for the generic machine (Lifecycle_Proofs.v) by a
    lock-step simulation over all continuations; the instances below say what "newly constructed
    detector" means for each modelled detector.  KdqTreeStreaming / KdqTreeBatch / HDDDM / CDBD / NNDVI
    are decided by the twin experiment on the implementation (direct oracle) until their models join. *)
From MV Require Import Base Num Lifecycle Lifecycle_Proofs Ddm Pairwise ChangeDet ChangeDet_Proofs.

(** for every kernel: from the update that follows a reported drift onwards, every observable (state,
    both counters, recommendation) equals - indices shifted by the number of items seen before - what
    the machine started in the state reset() produces reports on the later data alone *)
Theorem C02_clean_slate_generic : forall (K : kernel) (s : st K) xs, is_drift (ds s) = true ->
  trace s xs = map (shift_obs (total s)) (trace (init K (reset_e K (epoch s))) xs).
Proof. exact clean_slate. Qed.

(** consequently nothing accumulated before the drift influences any later output *)
Theorem C02_no_leak_generic : forall (K : kernel) (s1 s2 : st K) xs,
  is_drift (ds s1) = true -> is_drift (ds s2) = true -> reset_e K (epoch s1) = reset_e K (epoch s2) ->
  map (shift_obs (- total s1)) (trace s1 xs) = map (shift_obs (- total s2)) (trace s2 xs).
Proof. exact no_leak. Qed.

Section Instances.
Context {N : Num}.

(** DDM, EDDM, STEPD, PageHinkley: reset() restores exactly the constructor's state, so the twin is a
    newly constructed detector with the same parameters *)
Theorem C02_ddm : forall (p : @ddm_params N) (s : st (DDM p)) xs, ds s = DDrift ->
  trace s xs = map (shift_obs (total s)) (trace (init (DDM p) ddm_e0) xs).
Proof. intros p s xs H. apply (clean_slate (DDM p)). rewrite H. reflexivity. Qed.

Theorem C02_eddm : forall (p : @eddm_params N) (s : st (EDDM p)) xs, ds s = DDrift ->
  trace s xs = map (shift_obs (total s)) (trace (init (EDDM p) eddm_e0) xs).
Proof. intros p s xs H. apply (clean_slate (EDDM p)). rewrite H. reflexivity. Qed.

Theorem C02_stepd : forall (p : @stepd_params N) (s : st (STEPD p)) xs, ds s = DDrift ->
  trace s xs = map (shift_obs (total s)) (trace (init (STEPD p) stepd_e0) xs).
Proof. intros p s xs H. apply (clean_slate (STEPD p)). rewrite H. reflexivity. Qed.

Theorem C02_page_hinkley : forall (p : @ph_params N) (s : st (PH p)) xs, ds s = DDrift ->
  trace s xs = map (shift_obs (total s)) (trace (init (PH p) ph_e0) xs).
Proof. intros p s xs H. apply (clean_slate (PH p)). rewrite H. reflexivity. Qed.

(** CUSUM: the documented carry-over is the mean / standard deviation of the last burn_in
    observations; the twin is a new CUSUM given those as target / sd_hat, with an empty history *)
Theorem C02_cusum : forall (p : @cusum_params N) (s : st (CUSUM p)) xs,
  (1 <= c_burn_in p)%Z -> ds s = DDrift ->
  let w := last_burn_in (c_burn_in p) (c_stream (epoch s)) in
  trace s xs =
  map (shift_obs (total s)) (trace (init (CUSUM p) (cusum_e0 (Some (np_mean w)) (Some (np_std w)))) xs).
Proof.
  intros p s xs Hb Hd w.
  rewrite (trace_after_drift (CUSUM p) xs s) by (rewrite Hd; reflexivity).
  apply (trace_rtwin (CUSUM p) cusum_rel (fun n => (c_burn_in p < n)%Z)).
  - intros n e1 e2 x Hn Hr. exact (cusum_step_rel p n e1 e2 x Hn Hr).
  - intros n e1 e2 Hr Hok. exact (cusum_reset_rel p n e1 e2 Hb Hr Hok).
  - intros e n x H. exact (cusum_drift_needs p e n x H).
  - unfold rtwin, do_reset, init, cusum_rel; simpl. repeat split; try lia; try discriminate.
Qed.

End Instances.

(** non-vacuity: a DDM run that drifts, so the hypothesis [ds s = DDrift] is reachable *)
From MV Require Import NumFloat.
Example C02_ddm_drift_reachable :
  ds (run (init (DDM (@Build_ddm_params NumFloat 1 PrimFloat.one PrimFloat.one)) ddm_e0) [false; false; true]) = DDrift.
Proof. vm_compute. reflexivity. Qed.

Print Assumptions C02_clean_slate_generic.
Print Assumptions C02_no_leak_generic.
Print Assumptions C02_ddm.
Print Assumptions C02_eddm.
Print Assumptions C02_stepd.
Print Assumptions C02_page_hinkley.
Print Assumptions C02_cusum.
