(** C20 — drift injectors change only the window and columns they are asked to change.
    Statements only; proofs are in Inject_Proofs.v and Inject_Q.v.  The model is Inject.v.
    Vocabulary (Inject_Proofs.v): [cell d i j] / [nth_error d i] = cell / row of the data set by
    position, [shape d] = list of the row lengths, [inw from to i] = row [i] lies in
    [from_index, to_index).  Every theorem holds for every data set (any number of rows, ragged or
    not), every window (any integers, also empty, reversed or reaching past the data) and every
    column index unless a hypothesis says otherwise. *)
From MV Require Import Base Num Inject Inject_Proofs Inject_Q.
From Coq Require Import QArith.
Local Open Scope Z_scope.

(** ** 1. same shape *)
Theorem C20_shape_preserved :
  forall (N : Num) (mean : list (F N) -> F N) (eqb ltb : F N -> F N -> bool)
         (from to c1 c2 : Z) (k1 k2 k3 sf alpha x0 : F N) (signs positions : list Z)
         (d : list (list (F N))),
  shape (feature_swap from to c1 c2 d) = shape d /\
  shape (label_swap eqb from to c1 k1 k2 d) = shape d /\
  shape (label_join eqb from to c1 k1 k2 k3 d) = shape d /\
  shape (feature_shift N mean from to c1 sf alpha d) = shape d /\
  shape (brownian N from to c1 x0 signs d) = shape d /\
  length (resample eqb ltb f0 from to c1 positions d) = length d.
Proof.
  intros. repeat split.
  - apply shape_feature_swap.
  - apply shape_col_update.
  - apply shape_col_update.
  - apply shape_col_update.
  - apply shape_col_update.
  - apply length_resample.
Qed.

(** resampling keeps a rectangular data set rectangular (draws inside the pool) *)
Theorem C20_resample_shape :
  forall (A : Type) (eqb ltb : A -> A -> bool) (dflt : A) (w : nat) from to col positions d,
  positions_ok (pool eqb ltb dflt from to col d) positions -> rect w d ->
  rect w (resample eqb ltb dflt from to col positions d) /\
  length (resample eqb ltb dflt from to col positions d) = length d.
Proof. intros. split; [now apply resample_rect|apply length_resample]. Qed.

(** ** 2. frame: rows outside the window *)
Theorem C20_rows_outside_window_unchanged :
  forall (N : Num) (mean : list (F N) -> F N) (eqb ltb : F N -> F N -> bool)
         (from to c1 c2 : Z) (k1 k2 k3 sf alpha x0 : F N) (signs positions : list Z)
         (d : list (list (F N))) (i : nat),
  inw from to i = false ->
  nth_error (feature_swap from to c1 c2 d) i = nth_error d i /\
  nth_error (label_swap eqb from to c1 k1 k2 d) i = nth_error d i /\
  nth_error (label_join eqb from to c1 k1 k2 k3 d) i = nth_error d i /\
  nth_error (feature_shift N mean from to c1 sf alpha d) i = nth_error d i /\
  nth_error (brownian N from to c1 x0 signs d) i = nth_error d i /\
  nth_error (resample eqb ltb f0 from to c1 positions d) i = nth_error d i.
Proof.
  intros. repeat split.
  - now apply on_window_outside.
  - now apply col_update_rows_outside.
  - now apply col_update_rows_outside.
  - now apply col_update_rows_outside.
  - now apply col_update_rows_outside.
  - now apply resample_outside.
Qed.

(** ** 3. frame: untargeted columns (every row, inside the window as well) *)
Theorem C20_untargeted_columns_unchanged :
  forall (N : Num) (mean : list (F N) -> F N) (eqb : F N -> F N -> bool)
         (from to c1 c2 : Z) (k1 k2 k3 sf alpha x0 : F N) (signs : list Z)
         (d : list (list (F N))) (i j : nat),
  Z.of_nat j <> c1 ->
  (Z.of_nat j <> c2 -> cell (feature_swap from to c1 c2 d) i j = cell d i j) /\
  cell (label_swap eqb from to c1 k1 k2 d) i j = cell d i j /\
  cell (label_join eqb from to c1 k1 k2 k3 d) i j = cell d i j /\
  cell (feature_shift N mean from to c1 sf alpha d) i j = cell d i j /\
  cell (brownian N from to c1 x0 signs d) i j = cell d i j.
Proof.
  intros. repeat split.
  - intro. apply feature_swap_frame. now right.
  - apply col_update_frame. now right.
  - apply col_update_frame. now right.
  - apply col_update_frame. now right.
  - apply col_update_frame. now right.
Qed.

(** ** 4. FeatureSwapInjector *)
Theorem C20_feature_swap_involution :
  forall (A : Type) from to c1 c2 (d : list (list A)),
  feature_swap from to c1 c2 (feature_swap from to c1 c2 d) = d.
Proof. exact @feature_swap_involutive. Qed.

Theorem C20_feature_swap_effect :
  forall (A : Type) from to (c1 c2 : nat) (d : list (list A)) i r,
  nth_error d i = Some r -> inw from to i = true -> (c1 < length r)%nat -> (c2 < length r)%nat ->
  cell (feature_swap from to (Z.of_nat c1) (Z.of_nat c2) d) i c1 = nth_error r c2 /\
  cell (feature_swap from to (Z.of_nat c1) (Z.of_nat c2) d) i c2 = nth_error r c1.
Proof. exact @feature_swap_effect. Qed.

(** ** 5. LabelSwapInjector / LabelJoinInjector *)

(** cells compared by a decidable equality (ints, strings, non-NaN floats without -0.0) *)
Theorem C20_label_swap_involution :
  forall (A : Type) (eqb : A -> A -> bool), (forall x y, eqb x y = true <-> x = y) ->
  forall from to col c1 c2 d,
  label_swap eqb from to col c1 c2 (label_swap eqb from to col c1 c2 d) = d.
Proof. exact @label_swap_involutive. Qed.

(** IEEE [==] is only a partial equivalence: the second swap restores every cell up to [==],
    provided the two class values equal themselves (are not NaN) *)
Theorem C20_label_swap_involution_partial_equivalence :
  forall (A : Type) (eqb : A -> A -> bool),
  (forall x y, eqb x y = true -> eqb y x = true) ->
  (forall x y z, eqb x y = true -> eqb y z = true -> eqb x z = true) ->
  forall from to col c1 c2 d i j x, eqb c1 c1 = true -> eqb c2 c2 = true ->
  cell d i j = Some x ->
  exists y, cell (label_swap eqb from to col c1 c2 (label_swap eqb from to col c1 c2 d)) i j = Some y /\
            (y = x \/ eqb y x = true).
Proof.
  intros A eqb Sy Tr from to col c1 c2 d i j x R1 R2 Hc.
  rewrite !label_swap_is_col_update, col_update_twice, cell_col_update, Hc. simpl.
  destruct (inw from to i && (Z.of_nat j =? col)).
  - eexists. split; [reflexivity|]. now apply label_swap_cell_involutive_per.
  - exists x. auto.
Qed.

Theorem C20_label_swap_exchanges_the_two_classes :
  forall (A : Type) (eqb : A -> A -> bool), (forall x y, eqb x y = true <-> x = y) ->
  forall from to col c1 c2 d i j x,
  cell d i j = Some x -> inw from to i = true -> Z.of_nat j = col ->
  exists y, cell (label_swap eqb from to col c1 c2 d) i j = Some y /\
            (x = c2 -> y = c1) /\ (x = c1 -> x <> c2 -> y = c2) /\ (x <> c1 -> x <> c2 -> y = x).
Proof.
  intros A eqb S from to col c1 c2 d i j x Hc Hw Hj.
  exists (label_swap_cell eqb c1 c2 x). split.
  - rewrite label_swap_is_col_update.
    now apply (col_update_effect from to col (fun _ => label_swap_cell eqb c1 c2) d i j x).
  - now apply label_swap_cell_spec.
Qed.

Theorem C20_label_join_maps_the_two_classes :
  forall (A : Type) (eqb : A -> A -> bool), (forall x y, eqb x y = true <-> x = y) ->
  forall from to col c1 c2 cnew d i j x,
  cell d i j = Some x -> inw from to i = true -> Z.of_nat j = col ->
  exists y, cell (label_join eqb from to col c1 c2 cnew d) i j = Some y /\
            (x = c1 \/ x = c2 -> y = cnew) /\ (x <> c1 -> x <> c2 -> y = x).
Proof.
  intros A eqb S from to col c1 c2 cn d i j x Hc Hw Hj.
  exists (label_join_cell eqb c1 c2 cn x). split.
  - rewrite label_join_is_col_update.
    now apply (col_update_effect from to col (fun _ => label_join_cell eqb c1 c2 cn) d i j x).
  - now apply label_join_cell_spec.
Qed.

(** ** 6. FeatureShiftInjector: every window cell of the column gets
       [x + (alpha + mean(window column)) * shift_factor]; [mean] is whatever np.mean returns *)
Theorem C20_shift_effect :
  forall (N : Num) (mean : list (F N) -> F N) from to col sf alpha (d : list (list (F N))) i j x,
  cell d i j = Some x -> inw from to i = true -> Z.of_nat j = col ->
  cell (feature_shift N mean from to col sf alpha d) i j =
  Some (fadd x (fmul (fadd alpha (mean (column f0 col (win_rows from to d)))) sf)).
Proof.
  intros. rewrite feature_shift_is_col_update.
  now apply (col_update_effect from to col (fun _ y => fadd y (shift_delta N mean from to col sf alpha d)) d i j x).
Qed.

(** ... where the window is the slice [d[from:to]] *)
Theorem C20_window_is_slice :
  forall (A : Type) from to (d : list (list A)),
  0 <= from ->
  win_rows from to d = firstn (Z.to_nat (to - from)) (skipn (Z.to_nat from) d) /\
  (forall r, In r (win_rows from to d) <-> exists n, nth_error d n = Some r /\ inw from to n = true).
Proof. intros. split; [now apply win_rows_slice|intro; apply in_win_rows]. Qed.

(** ** 7. BrownianNoiseInjector: the k-th window cell gets [x + w_k] with [w_0 = x0] and
       [w_(k+1) = w_k + s_k / sqrt(to - from)], [s_k] the k-th drawn sign *)
Theorem C20_brownian_effect :
  forall (N : Num) from to col x0 signs (d : list (list (F N))) (k j : nat) x,
  0 <= from -> to - from - 1 <= len signs -> Z.of_nat k < to - from ->
  cell d (Z.to_nat from + k) j = Some x -> Z.of_nat j = col ->
  cell (brownian N from to col x0 signs d) (Z.to_nat from + k) j =
  Some (fadd x (walk_at N (fsqrt (fofZ (to - from))) x0 signs k)).
Proof. exact brownian_effect. Qed.

Theorem C20_brownian_walk :
  forall (N : Num) st x0 signs,
  walk_at N st x0 signs 0 = x0 /\
  forall k s, nth_error signs k = Some s ->
    walk_at N st x0 signs (S k) = fadd (walk_at N st x0 signs k) (fdiv (fofZ s) st).
Proof. intros. split; [reflexivity|intros; now apply walk_at_S]. Qed.

(** ** 8. LabelProbabilityInjector: rows *)
Theorem C20_resampled_rows_come_from_the_window :
  forall (A : Type) (eqb ltb : A -> A -> bool) (dflt : A) from to col positions d n r',
  positions_ok (pool eqb ltb dflt from to col d) positions ->
  inw from to n = true ->
  nth_error (resample eqb ltb dflt from to col positions d) n = Some r' ->
  In r' (win_rows from to d).
Proof. exact @resample_rows_from_window. Qed.

(** what the code does exactly: window row [n] becomes row [pool[positions[n - from]]] *)
Theorem C20_resampled_row_exact :
  forall (A : Type) (eqb ltb : A -> A -> bool) (dflt : A) from to col positions d n r,
  pool eqb ltb dflt from to col d <> [] ->
  nth_error d n = Some r -> inw from to n = true ->
  nth_error (resample eqb ltb dflt from to col positions d) n =
  Some (nthZ (Z.of_nat n - from)
             (take_rows (sample_idxs (pool eqb ltb dflt from to col d) positions) d) r).
Proof. exact @resample_row. Qed.

(** the sampling pool: exactly window rows; every window row with a self-equal label is in it *)
Theorem C20_sampling_pool :
  forall (A : Type) (eqb ltb : A -> A -> bool) (dflt : A) from to col d,
  (forall i, In i (pool eqb ltb dflt from to col d) ->
     exists n r, i = Z.of_nat n /\ nth_error d n = Some r /\ inw from to n = true) /\
  (forall n r, nth_error d n = Some r -> inw from to n = true ->
     eqb (nthZ col r dflt) (nthZ col r dflt) = true ->
     exists c, In c (np_unique eqb ltb (column dflt col d)) /\ eqb (nthZ col r dflt) c = true /\
               In (Z.of_nat n) (pool eqb ltb dflt from to col d)).
Proof.
  intros. split.
  - intros i Hi. eapply in_grouped; eauto.
  - intros n r Hr Hw Hrefl.
    destruct (np_unique_covers eqb ltb (column dflt col d) (nthZ col r dflt)) as [c [Hc He]]; auto.
    + unfold column. apply in_map_iff. exists r. split; auto. eapply nth_error_In; eauto.
    + exists c. repeat split; auto. eapply grouped_complete; eauto.
Qed.

(** ** 9. LabelProbabilityInjector: the probability vector, exactly (rationals).
    [pcs] = (requested probability, number of window rows) of every class.  The code clamps every
    entry with [max(., 0.0)] against rounding; exactly, the clamp is the identity whenever the
    requests are non-negative and the classes present in the window request at most 1. *)
Theorem C20_probability_vector_nonnegative :
  forall pcs : list (Q * Z), Forall (fun x => (0 <= x)%Q) (p_final NumQ pcs).
Proof. exact p_final_nonneg. Qed.

Theorem C20_probability_vector_sums_to_one :
  forall pcs : list (Q * Z),
  requests_nonneg pcs -> (present_mass pcs <= 1)%Q -> p_blocks NumQ pcs <> [] ->
  (qsum (p_final NumQ pcs) == 1)%Q.
Proof. exact p_final_sums_to_one. Qed.

(** one block per class; a class with [cnt > 0] rows in the window and requested probability [P]
    gets the mass [P + cnt * leftover], each of its rows the same share; the leftover is the mass
    requested for classes that do not occur in the window, spread evenly over the window rows *)
Theorem C20_probability_class_mass :
  forall pcs : list (Q * Z),
  requests_nonneg pcs -> (present_mass pcs <= 1)%Q ->
  let lo := p_leftover NumQ (p_blocks NumQ pcs) in
  p_final NumQ pcs =
    flat_map (fun pc => repeat (p_individual NumQ (fst pc) (snd pc) + lo)%Q (Z.to_nat (snd pc))) pcs /\
  (lo == (1 - present_mass pcs) / inject_Z (total_count pcs))%Q /\ (0 <= lo)%Q /\
  forall P cnt, 0 < cnt ->
    (p_individual NumQ P cnt == P / inject_Z cnt)%Q /\
    (qsum (repeat (p_individual NumQ P cnt + lo)%Q (Z.to_nat cnt)) == P + inject_Z cnt * lo)%Q.
Proof.
  intros pcs H1 H2. cbv zeta. split; [now apply p_final_blocks|]. split; [apply p_leftover_value|].
  split; [now apply p_leftover_nonneg|].
  intros P cnt H. split; [now apply p_individual_value|now apply block_mass].
Qed.

(** when the classes present in the window carry the whole requested mass, every present class
    gets exactly its requested probability *)
Theorem C20_probability_class_mass_exact :
  forall (pcs : list (Q * Z)) P cnt, 0 < cnt -> (present_mass pcs == 1)%Q ->
  let lo := p_leftover NumQ (p_blocks NumQ pcs) in
  (lo == 0)%Q /\ (qsum (repeat (p_individual NumQ P cnt + lo)%Q (Z.to_nat cnt)) == P)%Q.
Proof. exact block_mass_exact. Qed.

(** in the real call the blocks lie over the blocks of the sampling pool, class by class *)
Theorem C20_probability_blocks_over_pool :
  forall from to col all (cp : dict NumQ) d,
  p_blocks NumQ (class_table NumQ from to col all cp d) =
    flat_map (fun c => repeat (p_individual NumQ (match lookup NumQ c cp with Some v => v | None => 0%Q end)
                                            (len (cls_idx Qeq_bool 0%Q from to col c d)))
                              (length (cls_idx Qeq_bool 0%Q from to col c d))) all /\
  grouped Qeq_bool 0%Q from to col all d = flat_map (fun c => cls_idx Qeq_bool 0%Q from to col c d) all /\
  length (p_blocks NumQ (class_table NumQ from to col all cp d)) =
  length (grouped Qeq_bool 0%Q from to col all d).
Proof.
  intros. split; [apply p_blocks_class_table|]. split; [reflexivity|apply length_p_blocks_class_table].
Qed.

(** completion of the dictionary ([tol] = the literal 1e-9): specified classes keep their value,
    the others share [max(0, 1 - sum)], which is [1 - sum] whenever the specified sum is at most 1 *)
Theorem C20_dictionary_completion :
  forall (tol : Q) (all : list Q) (cp cp' : dict NumQ),
  fill_probabilities NumQ tol all cp = Some cp' ->
  let undef := undefined_classes NumQ all cp in
  let missing := pymax (N := NumQ) 0%Q (1 - qsum (map snd cp))%Q in
  (qsum (map snd cp) <= 1 + tol)%Q /\
  (forall k v, In (k, v) cp -> exists c, In c all /\ (k == c)%Q) /\
  (forall k v, lookup NumQ k cp = Some v -> lookup NumQ k cp' = Some v) /\
  (forall k, In k undef -> lookup NumQ k cp' = Some (missing / inject_Z (len undef))%Q) /\
  (0 <= missing)%Q /\ ((qsum (map snd cp) <= 1)%Q -> (missing == 1 - qsum (map snd cp))%Q).
Proof. exact fill_probabilities_spec. Qed.

(** LabelDirichletInjector: the table handed to the probability injector is [combine keys draw] in
    dict insertion order — the i-th component of the draw (drawn with the i-th weight) belongs to
    the i-th key, for keys that are pairwise different and equal to themselves *)
Theorem C20_dirichlet_assignment :
  forall (N : Num) (tol : F N) from to col (keys dir : list (F N)) positions d,
  label_dirichlet N tol from to col keys dir positions d =
    label_probability N tol from to col (combine keys dir) positions d /\
  forall (i : nat) k v,
    nth_error keys i = Some k -> nth_error dir i = Some v -> feqb k k = true ->
    (forall j k', (j < i)%nat -> nth_error keys j = Some k' -> feqb k k' = false) ->
    lookup N k (combine keys dir) = Some v.
Proof. intros. split; [reflexivity|]. intros. eapply lookup_combine; eauto. Qed.

(** ** 10. FeatureCoverInjector (given a legal answer of pandas' group sampling) *)
Theorem C20_cover :
  forall (A : Type) (eqb ltb : A -> A -> bool) (dflt : A) (col : nat) size idxs (d : list (list A)),
  cover_oracle_ok eqb ltb dflt (Z.of_nat col) size idxs d = true ->
  let classes := np_unique eqb ltb (column dflt (Z.of_nat col) d) in
  let n := size / len classes in   (* = 0 when there is no group: Coq's x / 0 = 0, as the code's guard *)
  let out := feature_cover (Z.of_nat col) idxs d in
  0 <= n /\ len out = n * len classes /\
  (* every output row is an input row without the hidden column *)
  (forall k i, nth_error idxs k = Some i ->
     exists r, 0 <= i /\ nth_error d (Z.to_nat i) = Some r /\
               nth_error out k = Some (remove_col (Z.of_nat col) r) /\
               (forall j, nth_error (remove_col (Z.of_nat col) r) j =
                          nth_error r (if (j <? col)%nat then j else S j)) /\
               ((col < length r)%nat -> length (remove_col (Z.of_nat col) r) = (length r - 1)%nat)) /\
  (* the g-th group contributes exactly n distinct rows of that group *)
  (forall g c, nth_error classes g = Some c ->
     len (chunk (Z.to_nat n) g idxs) = n /\ NoDup (chunk (Z.to_nat n) g idxs) /\
     Forall (fun i => row_in_group eqb dflt (Z.of_nat col) d c i = true) (chunk (Z.to_nat n) g idxs)).
Proof.
  intros A eqb ltb dflt col size idxs d H. cbv zeta.
  destruct (cover_oracle_ok_spec _ _ _ _ _ _ _ H) as [H0 [Hn [Hl Hg]]].
  rewrite Hn in *. clear Hn. repeat split.
  - exact H0.
  - unfold len in *. rewrite length_feature_cover. exact Hl.
  - intros k i Hk. destruct (feature_cover_rows _ _ _ _ _ _ _ _ _ H Hk) as [r [Hi [Hr [Ho _]]]].
    exists r. repeat split; auto.
    + intro j. apply nth_error_remove_col.
    + apply length_remove_col.
  - apply (Hg g c H1).
  - apply (Hg g c H1).
  - apply (Hg g c H1).
Qed.

(** the classes are values of the column, represent every self-equal value, and are strictly
    ascending for a strict total order *)
Theorem C20_unique_classes :
  forall (A : Type) (eqb ltb : A -> A -> bool) (l : list A),
  (forall y, In y (np_unique eqb ltb l) -> In y l) /\
  (forall x, In x l -> eqb x x = true -> exists y, In y (np_unique eqb ltb l) /\ eqb x y = true) /\
  ((forall x y, eqb x y = true <-> x = y) ->
   (forall x y z, ltb x y = true -> ltb y z = true -> ltb x z = true) ->
   (forall x y, eqb x y = false -> ltb x y = false -> ltb y x = true) ->
   Sorted.StronglySorted (fun a b => ltb a b = true) (np_unique eqb ltb l)).
Proof.
  intros. split; [apply in_np_unique|]. split; [apply np_unique_covers|].
  intros. now apply np_unique_sorted.
Qed.

(** ** 11. container kind and column labels (Injector._preprocess / _postprocess) *)
Theorem C20_container_preserved :
  forall (L A : Type) (leqb : L -> L -> bool) (fr fr' : frame L A) (c : colref L) f,
  call1 leqb fr c f = Some fr' ->
  exists i r, resolve leqb fr c = Some i /\ f i (rows_of fr) = Some r /\
              fr' = with_rows fr r /\ same_labels fr fr' /\ rows_of fr' = r.
Proof. intros. now apply call1_spec. Qed.

Theorem C20_container_preserved_swap :
  forall (L A : Type) (leqb : L -> L -> bool) (fr fr' : frame L A) from to c1 c2,
  call_swap leqb fr from to c1 c2 = Some fr' ->
  exists i1 i2, resolve leqb fr c1 = Some i1 /\ resolve leqb fr c2 = Some i2 /\
                same_labels fr fr' /\ rows_of fr' = feature_swap from to i1 i2 (rows_of fr).
Proof. intros. now apply call_swap_spec. Qed.

Theorem C20_container_cover :
  forall (L A : Type) (leqb : L -> L -> bool) (eqb ltb : A -> A -> bool) (dflt : A)
         (fr fr' : frame L A) c size idxs,
  call_cover leqb eqb ltb dflt fr c size idxs = Some fr' ->
  exists i, resolve leqb fr c = Some i /\
            cover_raises eqb ltb dflt i size (rows_of fr) = false /\
            rows_of fr' = feature_cover i idxs (rows_of fr) /\
            match fr, fr' with
            | Arr _, Arr _ => True
            | DF cols _, DF cols' _ => cols' = remove_col i cols
            | _, _ => False
            end.
Proof. intros. now apply call_cover_spec. Qed.

(** one injector instance reused for many calls: [_preprocess] overwrites [self._columns] in both
    branches before [_postprocess] reads it, so the result of a call (and the attribute it leaves)
    does not depend on the state left by earlier calls, and a whole call history returns what
    independent calls return *)
Theorem C20_instance_state_irrelevant :
  forall (L A : Type) (leqb : L -> L -> bool) (eqb ltb : A -> A -> bool) (dflt : A)
         (st1 st2 : istate L) (fr : frame L A),
  (forall c f, call1_st leqb st1 fr c f = call1_st leqb st2 fr c f /\
               snd (call1_st leqb st1 fr c f) = call1 leqb fr c f) /\
  (forall from to c1 c2,
     call_swap_st leqb st1 fr from to c1 c2 = call_swap_st leqb st2 fr from to c1 c2 /\
     snd (call_swap_st leqb st1 fr from to c1 c2) = call_swap leqb fr from to c1 c2) /\
  (forall c size idxs,
     call_cover_st leqb eqb ltb dflt st1 fr c size idxs = call_cover_st leqb eqb ltb dflt st2 fr c size idxs /\
     snd (call_cover_st leqb eqb ltb dflt st1 fr c size idxs) = call_cover leqb eqb ltb dflt fr c size idxs) /\
  (* histories of calls [(data, column, body)] on one instance *)
  (forall calls : list (frame L A * colref L * (Z -> list (list A) -> option (list (list A)))),
     map snd (run_calls (fun st x => call1_st leqb st (fst (fst x)) (snd (fst x)) (snd x)) st1 calls) =
     map (fun x => call1 leqb (fst (fst x)) (snd (fst x)) (snd x)) calls) /\
  (* the attribute after a call: the labels of a DataFrame, None after an ndarray *)
  (forall c f, fst (call1_st leqb st1 fr c f) = match fr with Arr _ => None | DF cols _ => Some cols end).
Proof.
  intros L A leqb eqb ltb dflt st1 st2 fr. split; [|split; [|split; [|split]]].
  - intros c f. split; [|apply call1_st_stateless]. apply injective_projections.
    + now rewrite (proj2 (call1_st_stateless leqb st1 fr c f)), (proj2 (call1_st_stateless leqb st2 fr c f)).
    + now rewrite (proj1 (call1_st_stateless leqb st1 fr c f)), (proj1 (call1_st_stateless leqb st2 fr c f)).
  - intros from to c1 c2. split; [|apply call_swap_st_stateless]. apply injective_projections.
    + now rewrite (proj2 (call_swap_st_stateless leqb st1 fr from to c1 c2)),
                  (proj2 (call_swap_st_stateless leqb st2 fr from to c1 c2)).
    + now rewrite (proj1 (call_swap_st_stateless leqb st1 fr from to c1 c2)),
                  (proj1 (call_swap_st_stateless leqb st2 fr from to c1 c2)).
  - intros c size idxs. split; [|apply call_cover_st_stateless]. apply injective_projections.
    + now rewrite (proj2 (call_cover_st_stateless leqb eqb ltb dflt st1 fr c size idxs)),
                  (proj2 (call_cover_st_stateless leqb eqb ltb dflt st2 fr c size idxs)).
    + now rewrite (proj1 (call_cover_st_stateless leqb eqb ltb dflt st1 fr c size idxs)),
                  (proj1 (call_cover_st_stateless leqb eqb ltb dflt st2 fr c size idxs)).
  - intro calls. apply run_calls_stateless. intros st x. apply call1_st_stateless.
  - intros c f. apply call1_st_stateless.
Qed.

(** a column name resolves to the first column carrying that label *)
Theorem C20_column_resolution :
  forall (L : Type) (leqb : L -> L -> bool) (l : L) (cols : list L) (i : Z),
  index_of leqb l cols 0 = Some i ->
  exists n l', i = Z.of_nat n /\ nth_error cols n = Some l' /\ leqb l l' = true /\
               forall m l'', (m < n)%nat -> nth_error cols m = Some l'' -> leqb l l'' = false.
Proof.
  intros L leqb l cols i H. apply index_of_spec in H as [n [l' [H1 H2]]]. exists n, l'. split; [lia|auto].
Qed.

(** ** hypotheses are satisfiable *)
Example C20_ex_eqb_spec : forall x y : Z, Z.eqb x y = true <-> x = y.
Proof. exact Z.eqb_eq. Qed.

Example C20_ex_resample :
  let d := [[0; 10]; [1; 11]; [0; 12]; [1; 13]] in
  pool Z.eqb Z.ltb 0 1 4 0 d = [2; 1; 3] /\
  positions_ok (pool Z.eqb Z.ltb 0 1 4 0 d) [2; 2; 0] /\
  resample Z.eqb Z.ltb 0 1 4 0 [2; 2; 0] d = [[0; 10]; [1; 13]; [1; 13]; [0; 12]].
Proof.
  cbv zeta. split; [reflexivity|]. split; [|reflexivity].
  unfold positions_ok. repeat constructor; vm_compute; congruence.
Qed.

Example C20_ex_cover :
  let d := [[7; 2]; [8; 0]; [9; 2]; [6; 0]; [5; 0]] in
  cover_oracle_ok Z.eqb Z.ltb 0 1 5 [4; 1; 0; 2] d = true /\
  feature_cover 1 [4; 1; 0; 2] d = [[5]; [8]; [7]; [9]].
Proof. split; reflexivity. Qed.

Example C20_ex_probability :
  let pcs : list (Q * Z) := [((1 # 2)%Q, 2); ((1 # 4)%Q, 0); ((1 # 4)%Q, 1)] in
  p_blocks NumQ pcs <> [] /\ requests_nonneg pcs /\ (present_mass pcs <= 1)%Q /\ (present_mass pcs == 3 # 4)%Q.
Proof.
  cbv zeta. split; [discriminate|]. split; [repeat constructor; discriminate|].
  split; [discriminate|reflexivity].
Qed.

Example C20_ex_swap_window :
  inw 1 3 1 = true /\ inw 1 3 3 = false /\
  feature_swap 1 3 0 1 [[1; 2]; [3; 4]; [5; 6]; [7; 8]] = [[1; 2]; [4; 3]; [6; 5]; [7; 8]].
Proof. repeat split. Qed.

Print Assumptions C20_shape_preserved.
Print Assumptions C20_resample_shape.
Print Assumptions C20_rows_outside_window_unchanged.
Print Assumptions C20_untargeted_columns_unchanged.
Print Assumptions C20_feature_swap_involution.
Print Assumptions C20_feature_swap_effect.
Print Assumptions C20_label_swap_involution.
Print Assumptions C20_label_swap_involution_partial_equivalence.
Print Assumptions C20_label_swap_exchanges_the_two_classes.
Print Assumptions C20_label_join_maps_the_two_classes.
Print Assumptions C20_shift_effect.
Print Assumptions C20_window_is_slice.
Print Assumptions C20_brownian_effect.
Print Assumptions C20_brownian_walk.
Print Assumptions C20_resampled_rows_come_from_the_window.
Print Assumptions C20_resampled_row_exact.
Print Assumptions C20_sampling_pool.
Print Assumptions C20_probability_vector_nonnegative.
Print Assumptions C20_probability_vector_sums_to_one.
Print Assumptions C20_probability_class_mass.
Print Assumptions C20_probability_class_mass_exact.
Print Assumptions C20_probability_blocks_over_pool.
Print Assumptions C20_dictionary_completion.
Print Assumptions C20_dirichlet_assignment.
Print Assumptions C20_cover.
Print Assumptions C20_unique_classes.
Print Assumptions C20_container_preserved.
Print Assumptions C20_container_preserved_swap.
Print Assumptions C20_container_cover.
Print Assumptions C20_instance_state_irrelevant.
Print Assumptions C20_column_resolution.
