(** Lemmas about Hist.v (numpy's uniform-bin histogram) and Hdm.v (HDDDM / CDBD). *)
From MV Require Import Base Num NumLaws Hist Hdm.
From Coq Require Import Permutation ZifyBool Reals Lra Lia.
Local Open Scope Z_scope.

(** ------------------------------------------------------------------ lists of integers *)
Lemma zlen_nonneg {A} (l : list A) : 0 <= zlen l.
Proof. unfold zlen. lia. Qed.
Lemma zlen_app {A} (a b : list A) : zlen (a ++ b) = zlen a + zlen b.
Proof. unfold zlen. rewrite app_length. lia. Qed.
Lemma zlen_cons {A} (x : A) l : zlen (x :: l) = 1 + zlen l.
Proof. unfold zlen. simpl length. lia. Qed.

Lemma zrange_from_length i k : length (zrange_from i k) = k.
Proof. revert i; induction k; intros; simpl; [reflexivity | rewrite IHk; reflexivity]. Qed.
Lemma zrange_length n : length (zrange n) = Z.to_nat n.
Proof. apply zrange_from_length. Qed.
Lemma zrange_from_In i k x : In x (zrange_from i k) <-> i <= x < i + Z.of_nat k.
Proof.
  revert i; induction k; intros i; simpl.
  - lia.
  - rewrite IHk. lia.
Qed.

Lemma zsum_map_add {A} (f g : A -> Z) l :
  zsum_l (map (fun i => f i + g i) l) = zsum_l (map f l) + zsum_l (map g l).
Proof. induction l; simpl; lia. Qed.

Lemma zsum_indicator a s k :
  zsum_l (map (fun i => if i =? a then 1 else 0) (zrange_from s k)) =
  if (s <=? a) && (a <? s + Z.of_nat k) then 1 else 0.
Proof.
  revert s; induction k; intros s.
  - simpl. destruct (s <=? a) eqn:E1; destruct (a <? s + 0) eqn:E2; simpl; try reflexivity; lia.
  - cbn [zrange_from map zsum_l]. rewrite IHk.
    destruct (s =? a) eqn:E0; destruct (s <=? a) eqn:E1; destruct (s + 1 <=? a) eqn:E2;
      destruct (a <? s + 1 + Z.of_nat k) eqn:E3; destruct (a <? s + Z.of_nat (S k)) eqn:E4; simpl; lia.
Qed.

Lemma count_eq_cons i a l : count_eq i (a :: l) = (if i =? a then 1 else 0) + count_eq i l.
Proof. unfold count_eq. simpl. destruct (i =? a); [rewrite zlen_cons|]; lia. Qed.

Lemma bincount_sum idx n : (forall i, In i idx -> 0 <= i < n) -> zsum_l (bincount idx n) = zlen idx.
Proof.
  unfold bincount. induction idx as [|a idx IH]; intros H.
  - unfold count_eq. simpl. induction (zrange n); simpl; [reflexivity | assumption].
  - rewrite (map_ext _ (fun i => (if i =? a then 1 else 0) + count_eq i idx)) by (intros; apply count_eq_cons).
    rewrite zsum_map_add, IH by (intros; apply H; right; assumption).
    unfold zrange. rewrite zsum_indicator. pose proof (H a (or_introl eq_refl)).
    rewrite zlen_cons. destruct (0 <=? a) eqn:E1; destruct (a <? 0 + Z.of_nat (Z.to_nat n)) eqn:E2; simpl; lia.
Qed.

Lemma bincount_length idx n : length (bincount idx n) = Z.to_nat n.
Proof. unfold bincount. rewrite map_length. apply zrange_length. Qed.

Lemma Permutation_filter' {A} (f : A -> bool) l l' : Permutation l l' -> Permutation (filter f l) (filter f l').
Proof.
  induction 1; simpl.
  - constructor.
  - destruct (f x); [constructor|]; assumption.
  - destruct (f x), (f y); try constructor; try apply Permutation_refl. 
  - eapply Permutation_trans; eassumption.
Qed.

Lemma bincount_permutation idx idx' n : Permutation idx idx' -> bincount idx n = bincount idx' n.
Proof.
  intros P. unfold bincount. apply map_ext. intros i. unfold count_eq, zlen.
  rewrite (Permutation_length (Permutation_filter' (Z.eqb i) _ _ P)). reflexivity.
Qed.

(** ------------------------------------------------------------------ Hist.v *)
Section HistProofs.
Context {N : Num}.
Notation F := (F N).
Variable trunc : F -> Z.

Lemma hist_length xs n (lo hi : F) : length (histogram trunc xs n lo hi) = Z.to_nat n.
Proof. apply bincount_length. Qed.

(** the counts do not depend on the order of the data (no hypothesis on the arithmetic) *)
Lemma hist_permutation xs xs' n (lo hi : F) :
  Permutation xs xs' -> histogram trunc xs n lo hi = histogram trunc xs' n lo hi.
Proof.
  intros P. unfold histogram. apply bincount_permutation. unfold bin_indices.
  destruct (outer_edges lo hi) as [first last].
  apply Permutation_map, Permutation_filter', P.
Qed.

Lemma linspace_length (first last : F) n : length (linspace first last n) = S (Z.to_nat n).
Proof. unfold linspace. rewrite app_length, map_length, zrange_length. simpl. lia. Qed.

(** the last edge is the upper end of the range itself (linspace(endpoint=True) assigns it) *)
Lemma linspace_last (first last : F) n : 0 <= n -> edge (linspace first last n) n = last.
Proof.
  intros Hn. unfold edge, linspace. rewrite app_nth2; rewrite map_length, zrange_length; [|lia].
  rewrite Nat.sub_diag. reflexivity.
Qed.

Section Laws.
Variable L : OrdLaws N.

Lemma fltb_false_of_le (a b : F) : fleb a b = true -> fltb b a = false.
Proof. intros H. rewrite (ltb_leb N L), H. reflexivity. Qed.

Lemma bin_index_range edges (first last : F) n x :
  1 <= n -> 0 <= trunc (findex first last n x) <= n -> fleb (edge edges 0) x = true ->
  0 <= bin_index trunc edges first last n x < n.
Proof.
  intros Hn Ht H0. unfold bin_index.
  set (i0 := trunc (findex first last n x)) in *.
  set (i1 := if (i0 =? n) then (i0 - 1)%Z else i0).
  assert (H1 : 0 <= i1 < n) by (unfold i1; destruct (i0 =? n) eqn:E; lia).
  set (i2 := if fltb x (edge edges i1) then (i1 - 1)%Z else i1).
  assert (H2 : 0 <= i2 < n).
  { unfold i2. destruct (fltb x (edge edges i1)) eqn:E; [|lia].
    assert (i1 <> 0). { intros ->. rewrite (fltb_false_of_le _ _ H0) in E. discriminate. }
    lia. }
  destruct (fleb (edge edges (i2 + 1)) x && negb (i2 =? n - 1)) eqn:E; [|lia].
  apply andb_true_iff in E as [_ E]. lia.
Qed.

(** the numpy index is the declarative bin whenever the truncated quotient is off by at most one
    and the edges around it are ordered *)
Lemma bin_index_declarative edges (first last : F) n x s :
  1 <= n -> 0 <= s < n -> in_bin edges n s x = true ->
  (1 <= s -> fleb (edge edges (s - 1)) (edge edges s) = true) ->
  (let i0 := trunc (findex first last n x) in 0 <= i0 /\ s - 1 <= i0 <= s + 1) ->
  bin_index trunc edges first last n x = s.
Proof.
  intros Hn Hs Hb Hlo Hi. cbv zeta in Hi. unfold bin_index.
  set (i0 := trunc (findex first last n x)) in *. destruct Hi as [Hi0 Hi].
  unfold in_bin in Hb. apply andb_true_iff in Hb as [Hb1 Hb2].
  set (i1 := if (i0 =? n) then (i0 - 1)%Z else i0).
  assert (H1 : s - 1 <= i1 <= s + 1 /\ 0 <= i1 < n) by (unfold i1; destruct (i0 =? n) eqn:E; lia).
  destruct H1 as [H1 H1n].
  assert (Hx : forall e, fleb e x = true -> fltb x e = false) by (intros e He; apply fltb_false_of_le, He).
  assert (Hy : forall e, fltb x e = true -> fleb e x = false).
  { intros e He. rewrite (ltb_leb N L) in He. destruct (fleb e x); [discriminate|reflexivity]. }
  destruct (Z.eq_dec i1 (s + 1)) as [E1|E1].
  - (* one too high: x < edges[s+1] *)
    assert (s <> n - 1) by lia. replace (s =? n - 1) with false in Hb2 by lia.
    rewrite E1, Hb2. replace (s + 1 - 1) with s by lia.
    rewrite (Hy _ Hb2). reflexivity.
  - destruct (Z.eq_dec i1 s) as [E2|E2].
    + rewrite E2, (Hx _ Hb1).
      destruct (s =? n - 1) eqn:E3.
      * rewrite andb_false_r. reflexivity.
      * rewrite (Hy _ Hb2). reflexivity.
    + assert (E3 : i1 = s - 1) by lia. assert (1 <= s) by lia.
      rewrite E3. rewrite (Hx (edge edges (s - 1))) by (eapply (leb_trans N L); [apply Hlo; lia | exact Hb1]).
      replace (s - 1 + 1) with s by lia. rewrite Hb1. replace (s - 1 =? n - 1) with false by lia. simpl. reflexivity.
Qed.

(** every value inside the range falls into exactly one bin: the counts add up to the batch size *)
Lemma hist_sum xs n (lo hi : F) :
  1 <= n ->
  (let '(first, last) := outer_edges lo hi in
   forall x, In x xs -> keep first last x = true /\ fleb (edge (linspace first last n) 0) x = true /\
                        0 <= trunc (findex first last n x) <= n) ->
  zsum_l (histogram trunc xs n lo hi) = zlen xs.
Proof.
  intros Hn H. unfold histogram, bin_indices. destruct (outer_edges lo hi) as [first last].
  rewrite bincount_sum.
  - unfold zlen. rewrite map_length. f_equal. f_equal.
    induction xs as [|a xs IH]; [reflexivity|]. simpl.
    destruct (H a (or_introl eq_refl)) as [-> _]. simpl. f_equal. apply IH. intros; apply H; right; assumption.
  - intros i Hi. apply in_map_iff in Hi as (x & <- & Hx). apply filter_In in Hx as [Hx _].
    destruct (H x Hx) as (_ & H0 & Ht). apply bin_index_range; assumption.
Qed.

(** min / max of a column bound all its elements (the range spans the data) *)
Lemma fold_min_le (l : list F) a x :
  (x = a \/ In x l) -> fleb (fold_left (fun a y => if fltb y a then y else a) l a) x = true.
Proof.
  revert a x; induction l as [|y l IH]; intros a x H; simpl.
  - destruct H as [->|[]]. apply (leb_refl N L).
  - destruct (fltb y a) eqn:E.
    + destruct H as [->|[<-|H]].
      * eapply (leb_trans N L); [apply IH; left; reflexivity|]. apply (flt_le L), E.
      * apply IH; left; reflexivity.
      * apply IH; right; assumption.
    + destruct H as [->|[<-|H]].
      * apply IH; left; reflexivity.
      * eapply (leb_trans N L); [apply IH; left; reflexivity|].
        rewrite (ltb_leb N L) in E. destruct (fleb a y) eqn:E'; [reflexivity|discriminate].
      * apply IH; right; assumption.
Qed.
Lemma lmin_le (l : list F) x : In x l -> fleb (lmin l) x = true.
Proof. destruct l as [|a l]; [intros []|]. intros [->|H]; apply fold_min_le; auto. Qed.

Lemma fold_max_ge (l : list F) a x :
  (x = a \/ In x l) -> fleb x (fold_left (fun a y => if fltb a y then y else a) l a) = true.
Proof.
  revert a x; induction l as [|y l IH]; intros a x H; simpl.
  - destruct H as [->|[]]. apply (leb_refl N L).
  - destruct (fltb a y) eqn:E.
    + destruct H as [->|[<-|H]].
      * eapply (leb_trans N L); [apply (flt_le L), E | apply IH; left; reflexivity].
      * apply IH; left; reflexivity.
      * apply IH; right; assumption.
    + destruct H as [->|[<-|H]].
      * apply IH; left; reflexivity.
      * eapply (leb_trans N L); [|apply IH; left; reflexivity].
        rewrite (ltb_leb N L) in E. destruct (fleb y a) eqn:E'; [reflexivity|discriminate].
      * apply IH; right; assumption.
Qed.
Lemma lmax_ge (l : list F) x : In x l -> fleb x (lmax l) = true.
Proof. destruct l as [|a l]; [intros []|]. intros [->|H]; apply fold_max_ge; auto. Qed.

Lemma fold_min_In (l : list F) a :
  let m := fold_left (fun a y => if fltb y a then y else a) l a in m = a \/ In m l.
Proof.
  revert a; induction l as [|y l IH]; intros a; simpl; [left; reflexivity|].
  destruct (fltb y a); destruct (IH (if true then y else a)) as [H|H]; simpl in *; auto;
    destruct (IH a) as [H'|H']; auto.
Qed.
Lemma lmin_In (l : list F) : l <> [] -> In (lmin l) l.
Proof. destruct l as [|a l]; [congruence|]. intros _. destruct (fold_min_In l a) as [H|H]; simpl; [left; symmetry|right]; exact H. Qed.
Lemma fold_max_In (l : list F) a :
  let m := fold_left (fun a y => if fltb a y then y else a) l a in m = a \/ In m l.
Proof.
  revert a; induction l as [|y l IH]; intros a; simpl; [left; reflexivity|].
  destruct (fltb a y); [destruct (IH y) as [H|H] | destruct (IH a) as [H|H]]; auto.
Qed.
Lemma lmax_In (l : list F) : l <> [] -> In (lmax l) l.
Proof. destruct l as [|a l]; [congruence|]. intros _. destruct (fold_max_In l a) as [H|H]; simpl; [left; symmetry|right]; exact H. Qed.

(** with an antisymmetric order (exact arithmetic; doubles except for the pair +0 / -0) the extremes
    do not depend on the order of the data *)
Variable antisym : forall a b : F, fleb a b = true -> fleb b a = true -> a = b.

Lemma lmin_permutation (l l' : list F) : Permutation l l' -> lmin l = lmin l'.
Proof.
  intros P. destruct l as [|a l].
  - apply Permutation_nil in P. subst. reflexivity.
  - assert (Hl' : l' <> []) by (intros ->; apply Permutation_sym, Permutation_nil in P; discriminate).
    apply antisym.
    + apply lmin_le. eapply Permutation_in; [apply Permutation_sym, P|]. apply lmin_In, Hl'.
    + apply lmin_le. eapply Permutation_in; [apply P|]. apply lmin_In. discriminate.
Qed.
Lemma lmax_permutation (l l' : list F) : Permutation l l' -> lmax l = lmax l'.
Proof.
  intros P. destruct l as [|a l].
  - apply Permutation_nil in P. subst. reflexivity.
  - assert (Hl' : l' <> []) by (intros ->; apply Permutation_sym, Permutation_nil in P; discriminate).
    apply antisym.
    + apply lmax_ge. eapply Permutation_in; [apply P|]. apply lmax_In. discriminate.
    + apply lmax_ge. eapply Permutation_in; [apply Permutation_sym, P|]. apply lmax_In, Hl'.
Qed.

End Laws.
End HistProofs.

(** ------------------------------------------------------------------ exact arithmetic: the Hellinger distance over R *)
Section HellingerR.
Local Open Scope R_scope.

Definition sqR (x : R) : R := x * x.
Definition hellR : list Z -> list Z -> R := @hellinger NumR sqR.

Fixpoint Rsum (l : list R) : R := match l with [] => 0 | x :: t => x + Rsum t end.

Lemma fold_Rplus l a : fold_left Rplus l a = a + Rsum l.
Proof. revert a; induction l as [|x l IH]; intros a; simpl; [lra | rewrite IH; lra]. Qed.
Lemma sum_from0_R l : @sum_from0 NumR l = Rsum l.
Proof. unfold sum_from0. simpl. rewrite fold_Rplus. lra. Qed.

Lemma Rsum_zero l : (forall x, In x l -> x = 0) -> Rsum l = 0.
Proof. induction l as [|a l IH]; intros H; simpl; [reflexivity|]. rewrite (H a (or_introl eq_refl)), IH; [lra|]. intros; apply H; right; assumption. Qed.

Lemma Rsum_le {A} (f g : A -> R) l : (forall x, In x l -> f x <= g x) -> Rsum (map f l) <= Rsum (map g l).
Proof.
  induction l as [|a l IH]; intros H; simpl; [lra|].
  pose proof (H a (or_introl eq_refl)). assert (Rsum (map f l) <= Rsum (map g l)) by (apply IH; intros; apply H; right; assumption). lra.
Qed.

Lemma Rsum_nonneg l : (forall x, In x l -> 0 <= x) -> 0 <= Rsum l.
Proof. induction l as [|a l IH]; intros H; simpl; [lra|]. pose proof (H a (or_introl eq_refl)). assert (0 <= Rsum l) by (apply IH; intros; apply H; right; assumption). lra. Qed.

Definition hterm (Rl Tl : R) (rt : Z * Z) : R := sqR (sqrt (IZR (snd rt) / Tl) - sqrt (IZR (fst rt) / Rl)).

Lemma hellR_unfold rh th :
  hellR rh th = sqrt (Rsum (map (hterm (IZR (zsum_l rh)) (IZR (zsum_l th))) (combine rh th))).
Proof. unfold hellR, hellinger. rewrite sum_from0_R. reflexivity. Qed.

(** identical histograms are at distance 0 *)
Lemma hellR_same h : hellR h h = 0.
Proof.
  rewrite hellR_unfold. rewrite Rsum_zero; [apply sqrt_0|].
  intros x Hx. apply in_map_iff in Hx as ([a b] & <- & Hab).
  assert (a = b). { clear -Hab. induction h as [|c h IH]; simpl in Hab; [contradiction|]. destruct Hab as [E|E]; [inversion E; reflexivity | apply IH, E]. }
  subst. unfold hterm, sqR. simpl. ring.
Qed.

(** symmetric as a function of the two histograms *)
Lemma hellR_sym rh th : hellR rh th = hellR th rh.
Proof.
  rewrite !hellR_unfold. f_equal. f_equal.
  generalize (IZR (zsum_l rh)) (IZR (zsum_l th)). intros Rl Tl.
  revert th; induction rh as [|a rh IH]; intros [|b th]; simpl; try reflexivity.
  f_equal; [|apply IH]. unfold hterm, sqR. simpl. ring.
Qed.

Lemma Rsum_div (l : list Z) d : Rsum (map (fun z => IZR z / d) l) = IZR (zsum_l l) / d.
Proof. induction l as [|a l IH]; simpl; [lra|]. rewrite IH, plus_IZR. lra. Qed.

Lemma Rsum_combine_le (f g : Z -> R) rh th :
  (forall r, In r rh -> 0 <= f r) -> (forall t, In t th -> 0 <= g t) ->
  Rsum (map (fun rt => f (fst rt) + g (snd rt)) (combine rh th)) <= Rsum (map f rh) + Rsum (map g th).
Proof.
  revert th; induction rh as [|a rh IH]; intros th Hf Hg.
  - simpl. pose proof (Rsum_nonneg (map g th)) as H. assert (0 <= Rsum (map g th)); [|lra].
    apply H. intros x Hx. apply in_map_iff in Hx as (t & <- & Ht). apply Hg, Ht.
  - destruct th as [|b th].
    + simpl. pose proof (Hf a (or_introl eq_refl)).
      assert (0 <= Rsum (map f rh)); [|lra].
      apply Rsum_nonneg. intros x Hx. apply in_map_iff in Hx as (t & <- & Ht). apply Hf. right; exact Ht.
    + simpl. assert (H := IH th (fun r Hr => Hf r (or_intror Hr)) (fun t Ht => Hg t (or_intror Ht))). lra.
Qed.

(** ... and never exceeds sqrt 2 (counts non-negative, both histograms non-empty) *)
Lemma hellR_bound rh th :
  (forall r, In r rh -> (0 <= r)%Z) -> (forall t, In t th -> (0 <= t)%Z) ->
  (0 < zsum_l rh)%Z -> (0 < zsum_l th)%Z -> 0 <= hellR rh th <= sqrt 2.
Proof.
  intros Hr Ht HR HT. rewrite hellR_unfold. split; [apply sqrt_pos|]. apply sqrt_le_1_alt.
  set (Rl := IZR (zsum_l rh)). set (Tl := IZR (zsum_l th)).
  assert (HRl : 0 < Rl) by (apply IZR_lt in HR; exact HR).
  assert (HTl : 0 < Tl) by (apply IZR_lt in HT; exact HT).
  eapply Rle_trans.
  - apply (Rsum_le _ (fun rt => IZR (fst rt) / Rl + IZR (snd rt) / Tl)).
    intros [r t] Hin. pose proof (in_combine_l _ _ _ _ Hin) as H1. pose proof (in_combine_r _ _ _ _ Hin) as H2.
    unfold hterm, sqR. simpl.
    assert (Hp : 0 <= IZR r / Rl). { apply Rmult_le_pos; [apply IZR_le, Hr, H1 | left; apply Rinv_0_lt_compat, HRl]. }
    assert (Hq : 0 <= IZR t / Tl). { apply Rmult_le_pos; [apply IZR_le, Ht, H2 | left; apply Rinv_0_lt_compat, HTl]. }
    pose proof (sqrt_pos (IZR r / Rl)). pose proof (sqrt_pos (IZR t / Tl)).
    pose proof (sqrt_sqrt _ Hp). pose proof (sqrt_sqrt _ Hq).
    nra.
  - eapply Rle_trans; [apply (Rsum_combine_le (fun r => IZR r / Rl) (fun t => IZR t / Tl))|].
    + intros r H. apply Rmult_le_pos; [apply IZR_le, Hr, H | left; apply Rinv_0_lt_compat, HRl].
    + intros t H. apply Rmult_le_pos; [apply IZR_le, Ht, H | left; apply Rinv_0_lt_compat, HTl].
    + rewrite !Rsum_div. fold Rl Tl. unfold Rdiv. rewrite !Rinv_r by lra. lra.
Qed.

(** the recorded distance is the mean over the features, hence within the same bound *)
Lemma mean_dist_bound (fds : list R) c :
  fds <> [] -> (forall d, In d fds -> 0 <= d <= c) -> 0 <= @mean_dist NumR (zlen fds) fds <= c.
Proof.
  intros Hne H. unfold mean_dist. rewrite sum_from0_R. simpl.
  assert (Hk : 0 < IZR (zlen fds)). { apply IZR_lt. unfold zlen. destruct fds; [congruence|]. simpl length. lia. }
  assert (Hs : 0 <= Rsum fds <= IZR (zlen fds) * c).
  { clear Hne Hk. induction fds as [|d fds IH]; simpl.
    - unfold zlen. simpl. lra.
    - rewrite zlen_cons, plus_IZR. pose proof (H d (or_introl eq_refl)).
      assert (0 <= Rsum fds <= IZR (zlen fds) * c) by (apply IH; intros; apply H; right; assumption). lra. }
  assert (Hi : 0 < / IZR (zlen fds)) by (apply Rinv_0_lt_compat, Hk).
  split.
  - apply Rmult_le_pos; [|lra]. unfold Rdiv. lra.
  - replace c with (1 / IZR (zlen fds) * (IZR (zlen fds) * c)) by (field; lra).
    apply Rmult_le_compat_l; [unfold Rdiv; lra | lra].
Qed.

End HellingerR.

Section HistR.
Local Open Scope R_scope.

(** the C cast on reals: truncation towards zero *)
Definition truncR (x : R) : Z := if Rle_dec 0 x then Int_part x else (- Int_part (- x))%Z.

Lemma truncR_range x n : 0 <= x <= IZR n -> (0 <= truncR x <= n)%Z.
Proof.
  intros [H0 Hn]. unfold truncR. destruct (Rle_dec 0 x) as [_|C]; [|contradiction].
  destruct (base_Int_part x) as [B1 B2]. split.
  - assert (IZR (-1) < IZR (Int_part x)) by (simpl; lra). apply lt_IZR in H. lia.
  - apply le_IZR. lra.
Qed.

Lemma antisymR : forall a b : F NumR, fleb a b = true -> fleb b a = true -> a = b.
Proof. intros a b. simpl. rewrite !Rleb_iff. lra. Qed.

Lemma outer_edges_R (lo hi : R) : lo <= hi ->
  let '(first, last) := @outer_edges NumR lo hi in first < last /\ first <= lo /\ hi <= last.
Proof.
  intros H. unfold outer_edges. simpl. destruct (Req_EM_T lo hi) as [E|E]; unfold fhalf; simpl; lra.
Qed.

Lemma linspace_first_R (first last : R) n : (1 <= n)%Z -> edge (@linspace NumR first last n) 0 = first.
Proof.
  intros Hn. unfold edge, linspace, zrange. destruct (Z.to_nat n) as [|k] eqn:E; [lia|].
  simpl. destruct (Req_EM_T ((last - first) / IZR n) 0); lra.
Qed.

(** over the reals the counts of np.histogram add up to the number of points whenever the range
    spans them (no further hypothesis) *)
Lemma hist_sum_R (xs : list R) n lo hi :
  (1 <= n)%Z -> (forall x, In x xs -> lo <= x <= hi) -> xs <> [] ->
  zsum_l (@histogram NumR truncR xs n lo hi) = zlen xs.
Proof.
  intros Hn Hx Hne. apply (@hist_sum NumR truncR OrdLawsR); [exact Hn|].
  assert (Hlh : lo <= hi). { destruct xs as [|a xs]; [congruence|]. pose proof (Hx a (or_introl eq_refl)). lra. }
  pose proof (outer_edges_R lo hi Hlh) as Ho. destruct (@outer_edges NumR lo hi) as [first last].
  destruct Ho as (Hfl & Hf & Hl). intros x Hin. pose proof (Hx x Hin) as Hxr.
  split; [|split].
  - unfold keep. simpl. apply andb_true_iff. rewrite !Rleb_iff. lra.
  - rewrite linspace_first_R by exact Hn. simpl. apply Rleb_iff. lra.
  - apply truncR_range. unfold findex. simpl.
    assert (Hd : 0 < last - first) by lra. assert (Hnn : 1 <= IZR n) by (apply IZR_le in Hn; exact Hn).
    assert (Hq : 0 <= (x - first) / (last - first) <= 1).
    { split; [apply Rmult_le_pos; [lra | left; apply Rinv_0_lt_compat, Hd]|].
      apply (Rmult_le_reg_r (last - first)); [exact Hd|]. unfold Rdiv. rewrite Rmult_assoc, Rinv_l by lra. lra. }
    split; [apply Rmult_le_pos; lra | nra].
Qed.

(** HDM's two histograms of a feature: both sum to the sizes of reference and batch *)
Lemma feat_hists_sum_R bins (ref X : list (list R)) f :
  (1 <= bins)%Z -> ref <> [] -> X <> [] ->
  let '(rh, th) := @feat_hists NumR truncR bins ref X f in
  zsum_l rh = zlen ref /\ zsum_l th = zlen X.
Proof.
  intros Hb Hr HX. unfold feat_hists, feat_range.
  set (c := @hcol NumR f ref ++ @hcol NumR f X).
  assert (Hc : forall x, In x c -> @lmin NumR c <= x <= @lmax NumR c).
  { intros x Hin. split; apply Rleb_iff; [apply (@lmin_le NumR OrdLawsR) | apply (@lmax_ge NumR OrdLawsR)]; exact Hin. }
  split.
  - rewrite hist_sum_R; [unfold zlen, hcol; rewrite map_length; reflexivity | exact Hb | | ].
    + intros x Hin. apply Hc. unfold c. apply in_or_app. left. exact Hin.
    + unfold hcol. destruct ref; [congruence | discriminate].
  - rewrite hist_sum_R; [unfold zlen, hcol; rewrite map_length; reflexivity | exact Hb | | ].
    + intros x Hin. apply Hc. unfold c. apply in_or_app. right. exact Hin.
    + unfold hcol. destruct X; [congruence | discriminate].
Qed.

(** a batch identical to the reference is at distance 0 (every feature, hence the mean) *)
Lemma identical_batch_R k bins (ref : list (list R)) :
  @mean_dist NumR k (@feat_dists NumR hellR (@all_hists NumR truncR k bins ref ref)) = 0.
Proof.
  unfold mean_dist. rewrite sum_from0_R. rewrite Rsum_zero; [simpl; lra|].
  intros d Hd. unfold feat_dists, all_hists in Hd. rewrite map_map in Hd.
  apply in_map_iff in Hd as (f & <- & _). unfold feat_hists. destruct (@feat_range NumR ref ref f). simpl. apply hellR_same.
Qed.

(** reference and batch of the same size: exchanging their roles does not change the distance
    (same number of bins, same range, histograms exchanged) *)
Lemma swapped_batches_R k (ref X : list (list R)) :
  zlen ref = zlen X ->
  let bins := fun r : list (list R) => Z.sqrt (zlen r) in
  @mean_dist NumR k (@feat_dists NumR hellR (@all_hists NumR truncR k (bins ref) ref X)) =
  @mean_dist NumR k (@feat_dists NumR hellR (@all_hists NumR truncR k (bins X) X ref)).
Proof.
  intros Hlen bins. unfold bins. rewrite Hlen. f_equal. unfold feat_dists, all_hists. rewrite !map_map.
  apply map_ext. intros f. unfold feat_hists, feat_range.
  rewrite (@lmin_permutation NumR OrdLawsR antisymR _ _ (Permutation_app_comm (@hcol NumR f ref) (@hcol NumR f X))).
  rewrite (@lmax_permutation NumR OrdLawsR antisymR _ _ (Permutation_app_comm (@hcol NumR f ref) (@hcol NumR f X))).
  simpl. apply hellR_sym.
Qed.

End HistR.

Section Argmax.
Context {N : Num}.
Notation F := (F N).
Variable L : OrdLaws N.
Variable eq_refl_law : forall a : F, feqb a a = true.
Variable eq_le_law : forall a b : F, feqb a b = true -> fleb b a = true.

Lemma pymax_is_lmax (l : list F) : pymax_list l = lmax l.
Proof. reflexivity. Qed.

Lemma index_of_spec (m : F) (l : list F) : In m l ->
  let i := index_of m l in
  0 <= i < zlen l /\ feqb (nth (Z.to_nat i) l f0) m = true /\
  (forall j, 0 <= j < i -> feqb (nth (Z.to_nat j) l f0) m = false).
Proof.
  induction l as [|x l IH]; intros Hin; [destruct Hin|]. cbv zeta. cbn [index_of].
  destruct (feqb x m) eqn:E.
  - rewrite zlen_cons. pose proof (zlen_nonneg l). split; [lia|]. split; [exact E|]. intros j Hj. lia.
  - destruct Hin as [->|Hin]; [rewrite eq_refl_law in E; discriminate|].
    destruct (IH Hin) as (H1 & H2 & H3). rewrite zlen_cons. split; [lia|]. split.
    + replace (Z.to_nat (1 + index_of m l)) with (S (Z.to_nat (index_of m l))) by lia. exact H2.
    + intros j Hj. destruct (Z.eq_dec j 0) as [->|Hj0]; [exact E|].
      replace (Z.to_nat j) with (S (Z.to_nat (j - 1))) by lia. apply H3. lia.
Qed.

(** feature_epsilons.index(max(feature_epsilons)): a position holding a value no smaller than any
    other, and the first position holding the maximum *)
Lemma argmax_first_spec (l : list F) : l <> [] ->
  let i := argmax_first l in
  0 <= i < zlen l /\
  (forall y, In y l -> fleb y (nth (Z.to_nat i) l f0) = true) /\
  (forall j, 0 <= j < i -> feqb (nth (Z.to_nat j) l f0) (pymax_list l) = false).
Proof.
  intros Hne. cbv zeta. unfold argmax_first.
  destruct (index_of_spec (pymax_list l) l) as (H1 & H2 & H3); [rewrite pymax_is_lmax; apply lmax_In, Hne|].
  split; [lia|]. split; [|exact H3].
  intros y Hy. eapply (leb_trans N L); [apply (lmax_ge L), Hy|].
  rewrite <- pymax_is_lmax. apply eq_le_law, H2.
Qed.
End Argmax.


(** ------------------------------------------------------------------ Hdm.v: one pass of update() *)
Section HdmProofs.
Context {N : Num}.
Notation F := (F N).
Variable trunc : F -> Z.
Variable sq : F -> F.
Variable dist : list Z -> list Z -> F.
Variable tppf : Z -> F.

Notation core := (hdm_core trunc sq dist tppf).
Notation reset := (hdm_reset trunc sq dist tppf).
Notation update := (hdm_update trunc sq dist tppf).
Notation set_reference := (hdm_set_reference trunc sq dist tppf).
Notation apply_op := (hdm_apply trunc sq dist tppf).
Notation run := (hdm_run trunc sq dist tppf).
Notation trace := (hdm_trace trunc sq dist tppf).
Notation hparams := (@hdm_params N).
Notation hstate := (@hst N).

(** the quantities one pass computes, named as in the Python source *)
Definition c_total (s : hstate) : Z := h_total s + 1.
Definition c_since (s : hstate) : Z := h_since s + 1.
Definition c_hists (p : hparams) (s : hstate) (X : list hrow) := all_hists trunc (h_k p) (h_bins s) (h_ref s) X.
Definition c_fds (p : hparams) (s : hstate) (X : list hrow) : list F := feat_dists dist (c_hists p s X).
Definition c_cur (p : hparams) (s : hstate) (X : list hrow) : F := mean_dist (h_k p) (c_fds p s X).
(** current_epsilon = abs(current_distance - _prev_distance) * 1.0 *)
Definition c_ce (p : hparams) (s : hstate) (X : list hrow) : F := fmul (fabs (fsub (c_cur p s X) (h_prev s))) f1.
Definition c_eps_b (p : hparams) (s : hstate) (X : list hrow) (boot : F) : list F :=
  (if boot_phase p (c_since s) then h_eps s ++ [boot] else h_eps s) ++ [c_ce p s X].
Definition c_at (p : hparams) (s : hstate) (X : list hrow) (boot : F) : list F * F * F :=
  adaptive_threshold sq tppf p (c_eps_b p s X boot) (h_tot s) (c_since s) (c_total s - h_lambda s) (h_ref_n s) (zlen X).
Definition c_beta p s X boot : F := snd (c_at p s X boot).
Definition c_has_eps (s : hstate) : bool := 2 <=? c_since s.
Definition c_has_beta (p : hparams) (s : hstate) : bool := c_has_eps s && gate p (c_since s).
Definition c_drift p s X boot : bool := c_has_beta p s && fltb (c_beta p s X boot) (c_ce p s X).
Definition c_feps (p : hparams) (s : hstate) (X : list hrow) : option (list F) :=
  if 1 <? c_since s then Some (zip_sub (c_fds p s X) (h_prev_fd s)) else h_feps s.

Lemma gate_has_eps (p : hparams) n : gate p n = true -> (2 <=? n) = true.
Proof. unfold gate. destruct (h_db p =? 3); lia. Qed.
Lemma has_beta_gate (p : hparams) s : c_has_beta p s = gate p (c_since s).
Proof. unfold c_has_beta, c_has_eps. destruct (gate p (c_since s)) eqn:E; [rewrite (gate_has_eps _ _ E); reflexivity | apply andb_false_r]. Qed.

Lemma core_eq (p : hparams) s X boot :
  core p s X boot =
  let drift := c_drift p s X boot in
  let ds' := if drift then DDrift else h_ds s in
  let keep_ref := negb (is_drift ds') in
  let ref' := h_ref s ++ X in
  mk_hst
    (if drift then X else if keep_ref then ref' else h_ref s)
    (if keep_ref then zlen ref' else h_ref_n s)
    (if keep_ref then Z.sqrt (zlen ref') else h_bins s)
    (if c_has_beta p s then fst (fst (c_at p s X boot)) else if c_has_eps s then c_eps_b p s X boot else h_eps s)
    (if c_has_beta p s then snd (fst (c_at p s X boot)) else h_tot s)
    (if drift then c_total s else h_lambda s)
    (if keep_ref then c_cur p s X else h_prev s)
    (if keep_ref then c_fds p s X else h_prev_fd s)
    (c_total s) (c_since s) ds'
    (Some (c_cur p s X))
    (if c_has_beta p s then Some (c_beta p s X boot) else h_beta s)
    (c_feps p s X)
    (if drift && (1 <? h_k p)
     then (let fe := match c_feps p s X with Some l => l | None => [] end in Some (fe, c_fds p s X, argmax_first fe))
     else h_finfo s)
    ((c_total s, c_cur p s X) :: h_dists s)
    (if c_has_eps s then (c_total s, c_ce p s X) :: h_epsv s else h_epsv s)
    (if c_has_beta p s then (c_total s, c_beta p s X boot) :: h_thr s else h_thr s)
    (Some (c_cur p s X))
    (if c_has_eps s then Some (c_ce p s X) else None)
    (if c_has_beta p s then Some (c_beta p s X boot) else None)
    (c_hists p s X).
Proof.
  unfold hdm_core, c_drift, c_beta, c_has_beta, c_has_eps, c_feps.
  change (adaptive_threshold sq tppf p _ (h_tot s) (h_since s + 1) (h_total s + 1 - h_lambda s) (h_ref_n s) (zlen X))
    with (c_at p s X boot).
  destruct (c_at p s X boot) as [[e t] b]. reflexivity.
Qed.

(** ---------------- counters, state, reference ---------------- *)
Lemma core_total (p : hparams) s X b : h_total (core p s X b) = h_total s + 1.
Proof. rewrite core_eq. reflexivity. Qed.
Lemma core_since (p : hparams) s X b : h_since (core p s X b) = h_since s + 1.
Proof. rewrite core_eq. reflexivity. Qed.
Lemma core_ds (p : hparams) s X b : h_ds (core p s X b) = if c_drift p s X b then DDrift else h_ds s.
Proof. rewrite core_eq. reflexivity. Qed.
Lemma core_lambda (p : hparams) s X b :
  h_lambda (core p s X b) = if c_drift p s X b then h_total s + 1 else h_lambda s.
Proof. rewrite core_eq. reflexivity. Qed.

Lemma drift_needs_gate (p : hparams) s X b : c_drift p s X b = true -> gate p (h_since s + 1) = true.
Proof. unfold c_drift. rewrite has_beta_gate. intros H. apply andb_true_iff in H as [H _]. exact H. Qed.

(** drift is reported exactly when the threshold was due and epsilon exceeds it *)
Lemma core_drift_iff (p : hparams) s X b : h_ds s <> DDrift ->
  (h_ds (core p s X b) = DDrift <-> gate p (h_since s + 1) = true /\ fltb (c_beta p s X b) (c_ce p s X) = true).
Proof.
  intros Hs. rewrite core_ds. unfold c_drift. rewrite has_beta_gate. unfold c_since.
  destruct (gate p (h_since s + 1)); simpl.
  - destruct (fltb (c_beta p s X b) (c_ce p s X)); split; intros H; try (split; reflexivity); try reflexivity.
    + contradiction.
    + destruct H; discriminate.
  - split; [intros H; contradiction | intros [H _]; discriminate].
Qed.

Lemma core_no_drift (p : hparams) s X b : h_ds (core p s X b) <> DDrift ->
  c_drift p s X b = false /\ h_ds s <> DDrift.
Proof. rewrite core_ds. destruct (c_drift p s X b); [congruence | auto]. Qed.

(** no drift: the batch is appended, reference_n grows by the batch size, the bins follow, the
    distance becomes the previous distance; the epoch goes on *)
Lemma core_keeps_epoch (p : hparams) s X b : h_ds (core p s X b) <> DDrift ->
  let s' := core p s X b in
  h_ref s' = h_ref s ++ X /\ h_ref_n s' = zlen (h_ref s) + zlen X /\ h_bins s' = Z.sqrt (h_ref_n s') /\
  h_prev s' = c_cur p s X /\ h_prev_fd s' = c_fds p s X /\ h_lambda s' = h_lambda s /\ h_ds s' = h_ds s.
Proof.
  intros H. destruct (core_no_drift _ _ _ _ H) as [Hd Hs]. cbv zeta. rewrite core_eq. cbv zeta. rewrite Hd.
  assert (E : is_drift (h_ds s) = false) by (destruct (h_ds s); try reflexivity; congruence).
  rewrite E. simpl. rewrite zlen_app. repeat split; reflexivity.
Qed.

(** drift: the batch replaces the reference; reference_n / _bins are refreshed by the reset that the
    next update performs; _lambda is the index of this batch *)
Lemma core_starts_epoch (p : hparams) s X b : c_drift p s X b = true ->
  let s' := core p s X b in
  h_ds s' = DDrift /\ h_ref s' = X /\ h_ref_n s' = h_ref_n s /\ h_bins s' = h_bins s /\
  h_lambda s' = h_total s' /\ h_prev s' = h_prev s /\ h_prev_fd s' = h_prev_fd s.
Proof. intros Hd. cbv zeta. rewrite core_eq. cbv zeta. rewrite Hd. simpl. repeat split; reflexivity. Qed.

(** what the pass records *)
Lemma core_records (p : hparams) s X b :
  let s' := core p s X b in
  h_cur s' = Some (c_cur p s X) /\ h_cur_now s' = Some (c_cur p s X) /\
  h_dists s' = (h_total s + 1, c_cur p s X) :: h_dists s /\
  h_hists s' = c_hists p s X /\
  h_eps_now s' = (if 2 <=? h_since s + 1 then Some (c_ce p s X) else None) /\
  h_epsv s' = (if 2 <=? h_since s + 1 then (h_total s + 1, c_ce p s X) :: h_epsv s else h_epsv s) /\
  h_beta_now s' = (if gate p (h_since s + 1) then Some (c_beta p s X b) else None) /\
  h_thr s' = (if gate p (h_since s + 1) then (h_total s + 1, c_beta p s X b) :: h_thr s else h_thr s) /\
  h_beta s' = (if gate p (h_since s + 1) then Some (c_beta p s X b) else h_beta s) /\
  h_feps s' = (if 1 <? h_since s + 1 then Some (zip_sub (c_fds p s X) (h_prev_fd s)) else h_feps s).
Proof. cbv zeta. rewrite core_eq. cbv zeta. simpl. rewrite has_beta_gate. unfold c_has_eps, c_since, c_total, c_feps, c_total. repeat split; reflexivity. Qed.

(** feature_info on drift, several features: the per-feature differences, the per-feature distances,
    and the position of the first maximal difference *)
Lemma core_feature_info (p : hparams) s X b : c_drift p s X b = true ->
  h_finfo (core p s X b) =
  (if 1 <? h_k p
   then (let fe := zip_sub (c_fds p s X) (h_prev_fd s) in Some (fe, c_fds p s X, argmax_first fe))
   else h_finfo s) /\
  h_feps (core p s X b) = Some (zip_sub (c_fds p s X) (h_prev_fd s)).
Proof.
  intros Hd. pose proof (drift_needs_gate _ _ _ _ Hd) as Hg. apply gate_has_eps in Hg.
  rewrite core_eq. cbv zeta. rewrite Hd. simpl. unfold c_feps, c_since.
  replace (1 <? h_since s + 1) with true by lia. split; reflexivity.
Qed.
Lemma core_feature_info_kept (p : hparams) s X b : c_drift p s X b = false -> h_finfo (core p s X b) = h_finfo s.
Proof. intros Hd. rewrite core_eq. cbv zeta. rewrite Hd. reflexivity. Qed.

(** ---------------- the adaptive threshold ---------------- *)
(** [eps]: the list after the append(s) of this pass; the (bootstrap) head is dropped on the third batch *)
Definition thr_eps (p : hparams) (since : Z) (eps : list F) : list F :=
  if (since =? 3) && negb (h_db p =? 3) then tl eps else eps.
Definition thr_tot (p : hparams) (since : Z) (eps : list F) (tot : F) : F :=
  fadd (if (since =? 3) && negb (h_db p =? 3) then fsub tot (hd f0 eps) else tot) (last2 (thr_eps p since eps)).
Definition thr_d (p : hparams) (since dl : Z) : Z := if boot_phase p since then 1 else dl - 1.
Definition thr_mean (d : Z) (tot : F) : F := fmul (fdiv f1 (fofZ d)) tot.
Definition thr_sd (d : Z) (eps : list F) (eh : F) : F :=
  fsqrt (fdiv (sum_from0 (map (fun e => sq (fsub e eh)) (removelast eps))) (fofZ d)).

Lemma adaptive_threshold_spec (p : hparams) eps tot since dl ref_n test_n :
  let eps1 := thr_eps p since eps in
  let tot2 := thr_tot p since eps tot in
  let d := thr_d p since dl in
  let eh := thr_mean d tot2 in
  let sd := thr_sd d eps1 eh in
  adaptive_threshold sq tppf p eps tot since dl ref_n test_n =
  (eps1, tot2,
   if h_tstat p then fadd eh (fmul (tppf (ref_n + test_n - 2)) (fdiv sd (fsqrt (fofZ d))))
   else fadd eh (fmul (h_sig p) sd)).
Proof.
  cbv zeta. unfold adaptive_threshold, thr_tot, thr_d, thr_mean, thr_sd, thr_eps.
  destruct ((since =? 3) && negb (h_db p =? 3)); reflexivity.
Qed.

(** ---------------- reset() ---------------- *)
Lemma reset_base_since1 (p : hparams) s X b :
  let s1 := hdm_reset_base p s in
  c_drift p s1 X b = false /\ c_has_eps s1 = false /\ c_has_beta p s1 = false.
Proof.
  cbv zeta. unfold c_drift. rewrite has_beta_gate. unfold c_has_eps, c_since, gate. simpl.
  destruct (h_db p =? 3); simpl; auto.
Qed.

Lemma firstn_skipn_len {A} (l : list A) n : firstn n l ++ skipn n l = l.
Proof. apply firstn_skipn. Qed.

Lemma reset_fields (p : hparams) s :
  let r := reset p s in
  h_ds r = DNone /\ h_ref r = h_ref s /\ h_ref_n r = zlen (h_ref s) /\ h_bins r = Z.sqrt (zlen (h_ref s)) /\
  h_eps r = [] /\ h_tot r = f0 /\ h_lambda r = h_lambda s /\
  h_total r = h_total s + (if h_db p =? 1 then 1 else 0) /\
  h_since r = (if h_db p =? 1 then 1 else 0).
Proof.
  cbv zeta. unfold hdm_reset. destruct (h_db p =? 1) eqn:E.
  - rewrite core_eq. cbv zeta.
    destruct (reset_base_since1 p s (hdm_proxy s) f0) as (H1 & H2 & H3). rewrite H1, H2, H3.
    unfold hdm_reset_base, hdm_proxy, c_total, c_since. rewrite E. simpl.
    rewrite firstn_skipn. repeat split; reflexivity.
  - unfold hdm_reset_base. rewrite E. simpl. repeat split; lia.
Qed.

Lemma reset_keeps_attrs (p : hparams) s : h_finfo (reset p s) = h_finfo s /\ h_feps (reset p s) = h_feps s.
Proof.
  unfold hdm_reset. destruct (h_db p =? 1) eqn:E; [|split; reflexivity].
  rewrite core_eq. cbv zeta.
  destruct (reset_base_since1 p s (hdm_proxy s) f0) as (H1 & H2 & H3). rewrite H1. simpl.
  unfold c_feps, c_since. simpl. split; reflexivity.
Qed.

(** ---------------- update(): the lifecycle facts ---------------- *)
Lemma update_total (p : hparams) s X b :
  h_total (update p s X b) = h_total s + (if is_drift (h_ds s) && (h_db p =? 1) then 2 else 1).
Proof.
  unfold hdm_update. rewrite core_total. destruct (is_drift (h_ds s)); simpl; [|lia].
  destruct (reset_fields p s) as (_ & _ & _ & _ & _ & _ & _ & Ht & _). rewrite Ht. destruct (h_db p =? 1); lia.
Qed.
Lemma update_since (p : hparams) s X b :
  h_since (update p s X b) = if is_drift (h_ds s) then (if h_db p =? 1 then 2 else 1) else h_since s + 1.
Proof.
  unfold hdm_update. rewrite core_since. destruct (is_drift (h_ds s)); [|reflexivity].
  destruct (reset_fields p s) as (_ & _ & _ & _ & _ & _ & _ & _ & Hs). rewrite Hs. destruct (h_db p =? 1); lia.
Qed.
Lemma update_drift_gate (p : hparams) s X b :
  h_ds (update p s X b) = DDrift -> gate p (h_since (update p s X b)) = true.
Proof.
  unfold hdm_update. rewrite core_ds, core_since.
  set (s0 := if is_drift (h_ds s) then reset p s else s).
  assert (H0 : h_ds s0 <> DDrift).
  { unfold s0. destruct (is_drift (h_ds s)) eqn:E.
    - destruct (reset_fields p s) as (Hd & _). rewrite Hd. discriminate.
    - destruct (h_ds s); try discriminate; intros; discriminate. }
  destruct (c_drift p s0 X b) eqn:E; [intros _; apply (drift_needs_gate _ _ _ _ E) | intros; contradiction].
Qed.

(** ---------------- invariants of every reachable state ---------------- *)
Definition eps_len (p : hparams) (n : Z) : Z :=
  if h_db p =? 3 then Z.max 0 (n - 1) else if n <=? 1 then 0 else if n =? 2 then 2 else n - 1.

Definition hinv (p : hparams) (s : hstate) : Prop :=
  0 <= h_since s <= h_total s /\ h_ds s <> DWarn /\
  zlen (h_eps s) = eps_len p (h_since s) /\
  (h_ds s <> DDrift ->
     h_total s - h_lambda s = h_since s /\ h_ref_n s = zlen (h_ref s) /\ h_bins s = Z.sqrt (zlen (h_ref s))) /\
  (h_ds s = DDrift -> h_lambda s = h_total s /\ gate p (h_since s) = true) /\
  ((1 <? h_k p) = false -> h_finfo s = None).

Lemma hinv_init (p : hparams) : hinv p hdm_init.
Proof. unfold hinv, hdm_init, eps_len, zlen. simpl. destruct (h_db p =? 3); repeat split; try lia; try discriminate; try reflexivity. Qed.

Lemma at_eps_len (p : hparams) s X b : 0 <= h_since s -> zlen (h_eps s) = eps_len p (h_since s) ->
  zlen (if c_has_beta p s then fst (fst (c_at p s X b)) else if c_has_eps s then c_eps_b p s X b else h_eps s)
  = eps_len p (h_since s + 1).
Proof.
  intros H0 HK. rewrite has_beta_gate. unfold c_at. rewrite adaptive_threshold_spec. cbv zeta. simpl fst.
  unfold c_has_eps, gate, thr_eps, c_eps_b, boot_phase, c_since, eps_len in *.
  destruct (h_db p =? 3) eqn:E3; simpl.
  - destruct (3 <=? h_since s + 1) eqn:G.
    + rewrite !andb_false_r. rewrite zlen_app, zlen_cons. unfold zlen at 2. simpl. lia.
    + destruct (2 <=? h_since s + 1) eqn:G2; [rewrite !andb_false_r, zlen_app, zlen_cons; unfold zlen at 2; simpl; lia | lia].
  - rewrite !andb_true_r.
    destruct (h_since s <=? 1) eqn:A1; destruct (h_since s =? 2) eqn:A2;
      destruct (2 <=? h_since s + 1) eqn:G2; destruct (h_since s + 1 =? 3) eqn:G3;
      destruct (h_since s + 1 =? 2) eqn:G4; destruct (h_since s + 1 <=? 1) eqn:G5; try lia;
      try (rewrite !zlen_app, !zlen_cons; unfold zlen at 2 3; simpl; lia);
      try (rewrite !zlen_app, !zlen_cons; unfold zlen at 2; simpl; lia).
    destruct (h_eps s) as [|e0 l]; [unfold zlen in HK; simpl in HK; lia|].
    simpl. rewrite zlen_cons in HK. rewrite zlen_app, zlen_cons. unfold zlen at 2. simpl. lia.
Qed.

Lemma hinv_core (p : hparams) s X b : hinv p s -> h_ds s <> DDrift -> hinv p (core p s X b).
Proof.
  intros (Hs & Hw & HK & Hn & _ & Hfi) Hd. destruct (Hn Hd) as (Hl & Hrn & Hb).
  unfold hinv. rewrite core_total, core_since, core_ds, core_lambda.
  split; [lia|]. split; [destruct (c_drift p s X b); [discriminate | exact Hw]|].
  split; [rewrite core_eq; cbv zeta; cbn [h_eps]; apply at_eps_len; [lia | exact HK]|].
  assert (Hfi' : (1 <? h_k p) = false -> h_finfo (core p s X b) = None).
  { intros Hk. rewrite core_eq. cbv zeta. cbn [h_finfo]. rewrite Hk, andb_false_r. apply Hfi, Hk. }
  destruct (c_drift p s X b) eqn:E.
  - split; [intros C; congruence|]. split; [|exact Hfi'].
    intros _. split; [reflexivity | apply (drift_needs_gate _ _ _ _ E)].
  - split; [|split; [intros C; congruence | exact Hfi']]. intros _.
    assert (Hnd : h_ds (core p s X b) <> DDrift) by (rewrite core_ds, E; exact Hd).
    destruct (core_keeps_epoch _ _ _ _ Hnd) as (R1 & R2 & R3 & _). cbv zeta in *.
    rewrite R3, R2, R1, zlen_app. repeat split; lia.
Qed.

Lemma hinv_reset (p : hparams) s : 0 <= h_total s -> h_lambda s = h_total s -> h_ds s <> DWarn ->
  ((1 <? h_k p) = false -> h_finfo s = None) -> hinv p (reset p s).
Proof.
  intros Ht Hl Hw Hfi. destruct (reset_fields p s) as (R1 & R2 & R3 & R4 & R5 & R6 & R7 & R8 & R9). cbv zeta in *.
  destruct (reset_keeps_attrs p s) as [Rf _].
  unfold hinv. rewrite R1, R2, R3, R4, R5, R7, R8, R9, Rf. unfold eps_len, zlen. simpl.
  destruct (h_db p =? 1) eqn:E1; destruct (h_db p =? 3) eqn:E3; repeat split; try lia; try discriminate; try exact Hfi.
Qed.

Lemma hinv_update (p : hparams) s X b : hinv p s -> hinv p (update p s X b).
Proof.
  intros H. unfold hdm_update. destruct (is_drift (h_ds s)) eqn:E.
  - assert (Hd : h_ds s = DDrift) by (destruct (h_ds s); try discriminate; reflexivity).
    destruct H as (Hs & Hw & _ & _ & Hdr & Hfi). destruct (Hdr Hd) as [Hl _].
    apply hinv_core.
    + apply hinv_reset; [lia | exact Hl | exact Hw | exact Hfi].
    + destruct (reset_fields p s) as (R1 & _). rewrite R1. discriminate.
  - apply hinv_core; [exact H|]. destruct (h_ds s); try discriminate; intros; discriminate.
Qed.

Lemma hinv_set_reference (p : hparams) s X : hinv p s -> hinv p (set_reference p s X).
Proof.
  intros H. unfold hdm_set_reference. destruct ((h_db p =? 1) && (zlen X <? 3)); [exact H|].
  destruct H as (Hs & Hw & _ & _ & _ & Hfi). apply hinv_reset; unfold with_reference; simpl; [lia | reflexivity | exact Hw | exact Hfi].
Qed.

Lemma hinv_run (p : hparams) ops s : hinv p s -> hinv p (run p s ops).
Proof.
  revert s; induction ops as [|o ops IH]; intros s H; simpl; [exact H|].
  apply IH. destruct o; simpl; [apply hinv_update | apply hinv_set_reference]; exact H.
Qed.

(** in every reachable state the denominator of the threshold is batches_since_reset - 1 *)
Lemma dscale_since (p : hparams) s : hinv p s -> h_ds s <> DDrift ->
  thr_d p (c_since s) (c_total s - h_lambda s) = if boot_phase p (h_since s + 1) then 1 else h_since s.
Proof.
  intros (_ & _ & _ & Hn & _) Hd. destruct (Hn Hd) as (Hl & _). unfold thr_d, c_since, c_total.
  destruct (boot_phase p (h_since s + 1)); lia.
Qed.


(** two detectors in the same epoch state, their batch indices differing by [k]; what is left out
    (the per-feature distances of the previous batch, the records of earlier epochs, attributes that
    keep their last value) is never read by the fields listed *)
Definition twin (p : hparams) (k : Z) (a b : hstate) : Prop :=
  (1 <= h_since a -> h_prev_fd a = h_prev_fd b) /\ (2 <= h_since a -> h_feps a = h_feps b) /\
  (h_ds a = DDrift -> h_finfo a = h_finfo b) /\ ((1 <? h_k p) = false -> h_finfo a = h_finfo b) /\
  h_ref a = h_ref b /\ h_ref_n a = h_ref_n b /\ h_bins a = h_bins b /\ h_eps a = h_eps b /\ h_tot a = h_tot b /\
  h_lambda a = h_lambda b + k /\ h_total a = h_total b + k /\ h_since a = h_since b /\ 0 <= h_since a /\
  h_ds a = h_ds b /\ (1 <= h_since a -> h_prev a = h_prev b) /\
  h_cur_now a = h_cur_now b /\ h_eps_now a = h_eps_now b /\ h_beta_now a = h_beta_now b.

Lemma twin_obs (p : hparams) k a b : twin p k a b -> hobserve a = hshift k (hobserve b).
Proof.
  intros (F1 & F2 & F3 & F4 & H1 & H2 & H3 & H4 & H5 & H6 & H7 & H8 & H9 & H10 & H11 & H12 & H13 & H14).
  unfold hobserve, hshift. simpl. rewrite <- H8, <- H10.
  replace (if 2 <=? h_since a then h_feps b else None) with (if 2 <=? h_since a then h_feps a else None)
    by (destruct (2 <=? h_since a) eqn:E; [rewrite F2 by lia|]; reflexivity).
  replace (if is_drift (h_ds a) then h_finfo b else None) with (if is_drift (h_ds a) then h_finfo a else None)
    by (destruct (h_ds a) eqn:E; simpl; try reflexivity; rewrite F3; reflexivity).
  rewrite H1, H2, H4, H5, H7, H12, H13, H14. reflexivity.
Qed.

Lemma twin_core (p : hparams) k a b X bt : twin p k a b -> h_ds b <> DDrift -> twin p k (core p a X bt) (core p b X bt).
Proof.
  intros (F1 & F2 & F3 & F4 & H1 & H2 & H3 & H4 & H5 & H6 & H7 & H8 & H9 & H10 & H11 & H12 & H13 & H14) Hnd.
  assert (Hid : is_drift (h_ds b) = false) by (destruct (h_ds b); try reflexivity; congruence).
  assert (Eh : c_hists p a X = c_hists p b X) by (unfold c_hists; rewrite H1, H3; reflexivity).
  assert (Ef : c_fds p a X = c_fds p b X) by (unfold c_fds; rewrite Eh; reflexivity).
  assert (Ec : c_cur p a X = c_cur p b X) by (unfold c_cur; rewrite Ef; reflexivity).
  assert (Es : c_since a = c_since b) by (unfold c_since; lia).
  assert (Ehe : c_has_eps a = c_has_eps b) by (unfold c_has_eps; rewrite Es; reflexivity).
  assert (Ehb : c_has_beta p a = c_has_beta p b) by (unfold c_has_beta; rewrite Es, Ehe; reflexivity).
  destruct (Z.eq_dec (h_since a) 0) as [Z0|NZ].
  - (* first batch of the epoch: no epsilon, no threshold, no drift, feature_epsilons left alone *)
    assert (Ea : c_has_eps a = false) by (unfold c_has_eps, c_since; lia).
    assert (Eb : c_has_eps b = false) by (rewrite <- Ehe; exact Ea).
    assert (Ba : c_has_beta p a = false) by (unfold c_has_beta; rewrite Ea; reflexivity).
    assert (Bb : c_has_beta p b = false) by (rewrite <- Ehb; exact Ba).
    assert (Da : c_drift p a X bt = false) by (unfold c_drift; rewrite Ba; reflexivity).
    assert (Db : c_drift p b X bt = false) by (unfold c_drift; rewrite Bb; reflexivity).
    unfold twin. rewrite !core_eq. cbv zeta. rewrite Da, Db, Ea, Eb, Ba, Bb. simpl.
    rewrite H1, H2, H3, H4, H5, H10, Ec, Ef, Hid. unfold c_total, c_since. simpl.
    repeat split; try reflexivity; try lia; try (intros; congruence); try exact F4.
  - assert (Hp : h_prev a = h_prev b) by (apply H11; lia).
    assert (Hpf : h_prev_fd a = h_prev_fd b) by (apply F1; lia).
    assert (Ece : c_ce p a X = c_ce p b X) by (unfold c_ce; rewrite Ec, Hp; reflexivity).
    assert (Eeb : c_eps_b p a X bt = c_eps_b p b X bt) by (unfold c_eps_b; rewrite Es, H4, Ece; reflexivity).
    assert (Eat : c_at p a X bt = c_at p b X bt).
    { unfold c_at. rewrite Eeb, H5, Es, H2. f_equal. unfold c_total. lia. }
    assert (Ebt : c_beta p a X bt = c_beta p b X bt) by (unfold c_beta; rewrite Eat; reflexivity).
    assert (Ed : c_drift p a X bt = c_drift p b X bt) by (unfold c_drift; rewrite Ehb, Ebt, Ece; reflexivity).
    assert (Efe : c_feps p a X = c_feps p b X).
    { unfold c_feps. rewrite Es, Ef, Hpf. unfold c_since. replace (1 <? h_since b + 1) with true by lia. reflexivity. }
    unfold twin. rewrite !core_eq. cbv zeta. rewrite Ed, Ehe, Ehb, Eat, Efe. simpl.
    rewrite H1, H2, H3, H4, H5, H10, Ec, Ece, Ebt, Eeb, Hp, Ef, Hpf. unfold c_total, c_since.
    destruct (c_drift p b X bt) eqn:Edb; simpl.
    + destruct (1 <? h_k p) eqn:Ek; simpl; repeat split; try reflexivity; try lia; try (intros; congruence); try (intros; apply F4; assumption); try (intros; apply F4; reflexivity).
    + rewrite Hid. simpl. repeat split; try reflexivity; try lia; try (intros; congruence); try exact F4.
Qed.

Lemma twin_reset_base (p : hparams) k a b :
  h_ref a = h_ref b -> h_lambda a = h_lambda b + k -> h_total a = h_total b + k ->
  ((1 <? h_k p) = false -> h_finfo a = h_finfo b) ->
  twin p k (hdm_reset_base p a) (hdm_reset_base p b).
Proof.
  intros H1 H2 H3 H4. unfold twin, hdm_reset_base. simpl. rewrite H1.
  repeat split; try reflexivity; try lia; try (intros; discriminate); exact H4.
Qed.

Lemma twin_reset (p : hparams) k a b :
  h_ref a = h_ref b -> h_lambda a = h_lambda b + k -> h_total a = h_total b + k ->
  ((1 <? h_k p) = false -> h_finfo a = h_finfo b) ->
  twin p k (reset p a) (reset p b).
Proof.
  intros H1 H2 H3 H4. unfold hdm_reset. pose proof (twin_reset_base p k a b H1 H2 H3 H4) as T.
  destruct (h_db p =? 1); [|exact T]. unfold hdm_proxy. rewrite H1. apply twin_core; [exact T | simpl; discriminate].
Qed.

Lemma twin_update (p : hparams) k a b X bt : twin p k a b -> twin p k (update p a X bt) (update p b X bt).
Proof.
  intros T. unfold hdm_update. pose proof T as (_ & _ & _ & F4 & H1 & _ & _ & _ & _ & H6 & H7 & _ & _ & H10 & _). rewrite H10.
  destruct (is_drift (h_ds b)) eqn:E; apply twin_core.
  - apply twin_reset; assumption.
  - destruct (reset_fields p b) as (R & _). rewrite R. discriminate.
  - exact T.
  - destruct (h_ds b); try discriminate; intros; discriminate.
Qed.

Lemma twin_set_reference_fresh (p : hparams) k a b Y : h_total a = h_total b + k ->
  ((1 <? h_k p) = false -> h_finfo a = h_finfo b) ->
  ((h_db p =? 1) && (zlen Y <? 3)) = false ->
  twin p k (set_reference p a Y) (set_reference p b Y).
Proof.
  intros Ht Hfi Hok. unfold hdm_set_reference. rewrite Hok.
  apply twin_reset; unfold with_reference; simpl; [reflexivity | lia | lia | exact Hfi].
Qed.

Lemma twin_set_reference (p : hparams) k a b Y : twin p k a b -> twin p k (set_reference p a Y) (set_reference p b Y).
Proof.
  intros T. destruct ((h_db p =? 1) && (zlen Y <? 3)) eqn:E.
  - unfold hdm_set_reference. rewrite E. exact T.
  - destruct T as (_ & _ & _ & F4 & _ & _ & _ & _ & _ & _ & H7 & _). apply twin_set_reference_fresh; assumption.
Qed.

Lemma twin_apply (p : hparams) k a b o : twin p k a b -> twin p k (apply_op p a o) (apply_op p b o).
Proof. intros T. destruct o; simpl; [apply twin_update | apply twin_set_reference]; exact T. Qed.

Lemma twin_trace (p : hparams) k ops : forall a b, twin p k a b -> trace p a ops = map (hshift k) (trace p b ops).
Proof.
  induction ops as [|o ops IH]; intros a b T; simpl; [reflexivity|].
  pose proof (twin_apply p k a b o T) as T'. rewrite (twin_obs _ _ _ _ T'), (IH _ _ T'). reflexivity.
Qed.

(** set_reference at any time = a new detector given that reference.  (With a single feature
    feature_info is never assigned; the hypothesis says that it is still absent - true of every
    reachable state, [hinv].) *)
Lemma clean_slate_set_reference (p : hparams) (s : hstate) Y ops :
  ((h_db p =? 1) && (zlen Y <? 3)) = false -> ((1 <? h_k p) = false -> h_finfo s = None) ->
  let a := set_reference p s Y in
  let b := set_reference p hdm_init Y in
  hobserve a = hshift (h_total s) (hobserve b) /\ trace p a ops = map (hshift (h_total s)) (trace p b ops).
Proof.
  intros Hok Hfi. cbv zeta.
  assert (T : twin p (h_total s) (set_reference p s Y) (set_reference p hdm_init Y))
    by (apply twin_set_reference_fresh; [simpl; lia | exact Hfi | exact Hok]).
  split; [eapply twin_obs, T | apply twin_trace, T].
Qed.

(** after a drift: from the next update on, the detector is a new detector whose reference is the
    drifted batch *)
Lemma clean_slate_drift (p : hparams) (s : hstate) X bt ops :
  h_ds s = DDrift -> h_lambda s = h_total s ->
  ((h_db p =? 1) && (zlen (h_ref s) <? 3)) = false -> ((1 <? h_k p) = false -> h_finfo s = None) ->
  trace p s (OUpd X bt :: ops) =
  map (hshift (h_total s)) (trace p (set_reference p hdm_init (h_ref s)) (OUpd X bt :: ops)).
Proof.
  intros Hd Hl Hok Hfi.
  set (f := set_reference p hdm_init (h_ref s)).
  assert (T : twin p (h_total s) (reset p s) f).
  { unfold f, hdm_set_reference. rewrite Hok. apply twin_reset; unfold with_reference; simpl; [reflexivity | lia | lia | exact Hfi]. }
  assert (Hf : h_ds f = DNone).
  { unfold f, hdm_set_reference. rewrite Hok. destruct (reset_fields p (with_reference hdm_init (h_ref s))) as (R & _). exact R. }
  assert (T' : twin p (h_total s) (update p s X bt) (update p f X bt)).
  { unfold hdm_update. rewrite Hd, Hf. simpl. apply twin_core; [exact T | rewrite Hf; discriminate]. }
  simpl. rewrite (twin_obs _ _ _ _ T'), (twin_trace p _ ops _ _ T'). reflexivity.
Qed.

End HdmProofs.

(** ------------------------------------------------------------------ exact arithmetic: what the running total is *)
Section ThresholdR.
Variable trunc : R -> Z.
Variable sq : R -> R.
Variable dist : list Z -> list Z -> R.
Variable tppf : Z -> R.
Notation core := (@hdm_core NumR trunc sq dist tppf).
Notation reset := (@hdm_reset NumR trunc sq dist tppf).
Notation update := (@hdm_update NumR trunc sq dist tppf).
Notation set_reference := (@hdm_set_reference NumR trunc sq dist tppf).
Notation run := (@hdm_run NumR trunc sq dist tppf).
Notation hparams := (@hdm_params NumR).
Notation hstate := (@hst NumR).
Local Open Scope R_scope.

Lemma Rsum_app a b : Rsum (a ++ b) = Rsum a + Rsum b.
Proof. induction a; simpl; lra. Qed.

Lemma nth_last_R (l : list R) d : l <> [] -> nth (length l - 1) l d = last l d.
Proof.
  induction l as [|x l IH]; [congruence|]. intros _. destruct l as [|y l]; [reflexivity|].
  assert (IH' := IH ltac:(discriminate)).
  simpl length in *. rewrite Nat.sub_succ, Nat.sub_0_r in *. exact IH'.
Qed.

Lemma Rsum_removelast (l : list R) : l <> [] -> Rsum l = Rsum (removelast l) + last l 0.
Proof. intros H. rewrite (app_removelast_last 0 H) at 1. rewrite Rsum_app. simpl. lra. Qed.

Lemma last2_snoc (l : list R) x : l <> [] -> @last2 NumR (l ++ [x]) = last l 0.
Proof.
  intros H. unfold last2. rewrite app_length. simpl length.
  replace (length l + 1 - 2)%nat with (length l - 1)%nat by lia.
  rewrite app_nth1 by (destruct l; [congruence | simpl; lia]). apply nth_last_R, H.
Qed.

(** total_epsilon is the sum of the epsilon list without its last entry *)
Definition tot_inv (s : hstate) : Prop := h_tot s = Rsum (removelast (h_eps s)).

Lemma tot_inv_core (p : hparams) s X b : hinv p s -> tot_inv s -> tot_inv (core p s X b).
Proof.
  intros (Hs & _ & HK & _) J. unfold tot_inv in *. rewrite core_eq. cbv zeta. cbn [h_tot h_eps].
  rewrite has_beta_gate. unfold c_at. rewrite adaptive_threshold_spec. cbv zeta. cbn [fst snd].
  unfold c_has_eps, gate, thr_tot, thr_eps, c_eps_b, boot_phase, c_since, eps_len in *.
  set (ce := @c_ce NumR trunc dist p s X) in *. clearbody ce.
  destruct (h_db p =? 3)%Z eqn:E3; cbn [negb andb].
  - rewrite !andb_false_r.
    destruct (3 <=? h_since s + 1)%Z eqn:G.
    + assert (Hne : h_eps s <> []) by (intros C; rewrite C in HK; unfold zlen in HK; simpl in HK; lia).
      rewrite removelast_last, last2_snoc by exact Hne. simpl fadd. rewrite J. symmetry. apply Rsum_removelast, Hne.
    + destruct (2 <=? h_since s + 1)%Z eqn:G2; [|exact J].
      rewrite removelast_last. rewrite J.
      assert (E : h_eps s = []) by (destruct (h_eps s); [reflexivity | unfold zlen in HK; simpl in HK; lia]).
      rewrite E. reflexivity.
  - rewrite !andb_true_r.
    destruct (2 <=? h_since s + 1)%Z eqn:G2; [|exact J].
    destruct (h_since s + 1 =? 3)%Z eqn:G3.
    + replace (h_since s + 1 =? 2)%Z with false by lia.
      assert (Hl : zlen (h_eps s) = 2%Z).
      { destruct (h_since s <=? 1)%Z eqn:A1; destruct (h_since s =? 2)%Z eqn:A2; lia. }
      destruct (h_eps s) as [|e0 [|e1 [|e2 l]]]; unfold zlen in Hl; simpl in Hl; try lia.
      simpl in J. simpl. unfold last2. simpl. rewrite J. lra.
    + destruct (h_since s + 1 =? 2)%Z eqn:G4.
      * assert (E : h_eps s = []).
        { destruct (h_since s <=? 1)%Z eqn:A1; [|lia]. destruct (h_eps s); [reflexivity | unfold zlen in HK; simpl in HK; lia]. }
        rewrite E in *. simpl in J. simpl. unfold last2. simpl. rewrite J. lra.
      * assert (Hne : h_eps s <> []).
        { intros C. rewrite C in HK. unfold zlen in HK. simpl in HK.
          destruct (h_since s <=? 1)%Z eqn:A1; destruct (h_since s =? 2)%Z eqn:A2; lia. }
        rewrite removelast_last, last2_snoc by exact Hne. simpl fadd. rewrite J. symmetry. apply Rsum_removelast, Hne.
Qed.

Lemma tot_inv_reset (p : hparams) s : tot_inv (reset p s).
Proof.
  unfold tot_inv. destruct (@reset_fields NumR trunc sq dist tppf p s) as (_ & _ & _ & _ & R5 & R6 & _). cbv zeta in *.
  rewrite R5, R6. reflexivity.
Qed.

Definition rinv (p : hparams) (s : hstate) : Prop := hinv p s /\ tot_inv s.

Lemma rinv_init (p : hparams) : rinv p hdm_init.
Proof. split; [apply hinv_init | unfold tot_inv; simpl; reflexivity]. Qed.

Lemma rinv_update (p : hparams) s X b : rinv p s -> rinv p (update p s X b).
Proof.
  intros [H J]. split; [apply hinv_update, H|]. unfold hdm_update.
  destruct (is_drift (h_ds s)) eqn:E; [|apply tot_inv_core; assumption].
  assert (Hd : h_ds s = DDrift) by (destruct (h_ds s); try discriminate; reflexivity).
  destruct H as (Hs & Hw & _ & _ & Hdr & Hfi). destruct (Hdr Hd) as [Hl _].
  apply tot_inv_core; [|apply tot_inv_reset]. apply hinv_reset; [lia | exact Hl | exact Hw | exact Hfi].
Qed.

Lemma rinv_set_reference (p : hparams) s X : rinv p s -> rinv p (set_reference p s X).
Proof.
  intros [H J]. split; [apply hinv_set_reference, H|]. unfold hdm_set_reference.
  destruct ((h_db p =? 1)%Z && (zlen X <? 3)%Z); [exact J | apply tot_inv_reset].
Qed.

Lemma rinv_run (p : hparams) ops s : rinv p s -> rinv p (run p s ops).
Proof.
  revert s; induction ops as [|o ops IH]; intros s H; simpl; [exact H|].
  apply IH. destruct o; simpl; [apply rinv_update | apply rinv_set_reference]; exact H.
Qed.

(** the threshold of a reachable state, in exact arithmetic: with E the epsilons of the epoch before
    the current one (the bootstrap value only on the second batch, dropped afterwards) and
    d = batches_since_reset - 1 (1 on the second batch when detect_batch <> 3):
      epsilon_hat = (sum E) / d,  sigma = sqrt (sum_{e in E} sq (e - epsilon_hat) / d),
      beta = epsilon_hat + t * sigma / sqrt d      (tstat)
           = epsilon_hat + significance * sigma     (stdev)  *)
Lemma beta_exact (p : hparams) s X b : rinv p s -> h_ds s <> DDrift -> gate p (h_since s + 1) = true ->
  let eps' := h_eps (core p s X b) in
  let E := removelast eps' in
  let d := IZR (if boot_phase p (h_since s + 1) then 1 else h_since s)%Z in
  let eh := 1 / d * Rsum E in
  let sd := sqrt (Rsum (map (fun e => sq (e - eh)) E) / d) in
  @c_beta NumR trunc sq dist tppf p s X b =
  (if h_tstat p then eh + tppf (h_ref_n s + zlen X - 2)%Z * (sd / sqrt d) else eh + h_sig p * sd).
Proof.
  intros [H J] Hd Hg. pose proof (tot_inv_core p s X b H J) as J'. cbv zeta.
  unfold tot_inv in J'. rewrite core_eq in J' |- *. cbv zeta in J' |- *. cbn [h_tot h_eps] in J' |- *.
  rewrite has_beta_gate in J' |- *. unfold c_since in J' |- *. rewrite Hg in J' |- *.
  unfold c_beta, c_at in *. rewrite adaptive_threshold_spec in J' |- *. cbv zeta in J' |- *. cbn [fst snd] in J' |- *.
  rewrite (@dscale_since NumR p s H Hd). unfold c_since in *.
  unfold thr_mean, thr_sd. rewrite sum_from0_R. simpl fmul. simpl fdiv. simpl fadd. simpl fsub. simpl f1. simpl fsqrt. simpl fofZ.
  rewrite <- J'. reflexivity.
Qed.

End ThresholdR.
