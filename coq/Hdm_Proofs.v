(** Lemmas about Hist.v (numpy's uniform-bin histogram) and Hdm.v (HDDDM / CDBD). *)
From MV Require Import Base Num NumLaws Hist Hdm.
From Coq Require Import Permutation ZifyBool Reals Lra Lia.
Local Open Scope Z_scope.

(** ------------------------------------------------------------------ lists of integers *)
Lemma zlen_nonneg {A} (l : list A) : 0 <= zlen l.
Proof. unfold zlen. lia. Qed.
Lemma zlen_app {A} (a b : list A) : zlen (a ++ b) = zlen a + zlen b.
Proof. unfold zlen. rewrite app_length. lia. Qed.
Lemma zlen_cons {A} (x : A) l : zlen (x :: l) = 1 + zlen l.
Proof. unfold zlen. simpl length. lia. Qed.

Lemma zrange_from_length i k : length (zrange_from i k) = k.
Proof. revert i; induction k; intros; simpl; [reflexivity | rewrite IHk; reflexivity]. Qed.
Lemma zrange_length n : length (zrange n) = Z.to_nat n.
Proof. apply zrange_from_length. Qed.
Lemma zrange_from_In i k x : In x (zrange_from i k) <-> i <= x < i + Z.of_nat k.
Proof.
  revert i; induction k; intros i; simpl.
  - lia.
  - rewrite IHk. lia.
Qed.

Lemma zsum_map_add {A} (f g : A -> Z) l :
  zsum_l (map (fun i => f i + g i) l) = zsum_l (map f l) + zsum_l (map g l).
Proof. induction l; simpl; lia. Qed.

Lemma zsum_indicator a s k :
  zsum_l (map (fun i => if i =? a then 1 else 0) (zrange_from s k)) =
  if (s <=? a) && (a <? s + Z.of_nat k) then 1 else 0.
Proof.
  revert s; induction k; intros s.
  - simpl. destruct (s <=? a) eqn:E1; destruct (a <? s + 0) eqn:E2; simpl; try reflexivity; lia.
  - cbn [zrange_from map zsum_l]. rewrite IHk.
    destruct (s =? a) eqn:E0; destruct (s <=? a) eqn:E1; destruct (s + 1 <=? a) eqn:E2;
      destruct (a <? s + 1 + Z.of_nat k) eqn:E3; destruct (a <? s + Z.of_nat (S k)) eqn:E4; simpl; lia.
Qed.

Lemma count_eq_cons i a l : count_eq i (a :: l) = (if i =? a then 1 else 0) + count_eq i l.
Proof. unfold count_eq. simpl. destruct (i =? a); [rewrite zlen_cons|]; lia. Qed.

Lemma bincount_sum idx n : (forall i, In i idx -> 0 <= i < n) -> zsum_l (bincount idx n) = zlen idx.
Proof.
  unfold bincount. induction idx as [|a idx IH]; intros H.
  - unfold count_eq. simpl. induction (zrange n); simpl; [reflexivity | assumption].
  - rewrite (map_ext _ (fun i => (if i =? a then 1 else 0) + count_eq i idx)) by (intros; apply count_eq_cons).
    rewrite zsum_map_add, IH by (intros; apply H; right; assumption).
    unfold zrange. rewrite zsum_indicator. pose proof (H a (or_introl eq_refl)).
    rewrite zlen_cons. destruct (0 <=? a) eqn:E1; destruct (a <? 0 + Z.of_nat (Z.to_nat n)) eqn:E2; simpl; lia.
Qed.

Lemma bincount_length idx n : length (bincount idx n) = Z.to_nat n.
Proof. unfold bincount. rewrite map_length. apply zrange_length. Qed.

Lemma Permutation_filter' {A} (f : A -> bool) l l' : Permutation l l' -> Permutation (filter f l) (filter f l').
Proof.
  induction 1; simpl.
  - constructor.
  - destruct (f x); [constructor|]; assumption.
  - destruct (f x), (f y); try constructor; try apply Permutation_refl. 
  - eapply Permutation_trans; eassumption.
Qed.

Lemma bincount_permutation idx idx' n : Permutation idx idx' -> bincount idx n = bincount idx' n.
Proof.
  intros P. unfold bincount. apply map_ext. intros i. unfold count_eq, zlen.
  rewrite (Permutation_length (Permutation_filter' (Z.eqb i) _ _ P)). reflexivity.
Qed.

(** ------------------------------------------------------------------ Hist.v *)
Section HistProofs.
Context {N : Num}.
Notation F := (F N).
Variable trunc : F -> Z.

Lemma hist_length xs n (lo hi : F) : length (histogram trunc xs n lo hi) = Z.to_nat n.
Proof. apply bincount_length. Qed.

(** the counts do not depend on the order of the data (no hypothesis on the arithmetic) *)
Lemma hist_permutation xs xs' n (lo hi : F) :
  Permutation xs xs' -> histogram trunc xs n lo hi = histogram trunc xs' n lo hi.
Proof.
  intros P. unfold histogram. apply bincount_permutation. unfold bin_indices.
  destruct (outer_edges lo hi) as [first last].
  apply Permutation_map, Permutation_filter', P.
Qed.

Lemma linspace_length (first last : F) n : length (linspace first last n) = S (Z.to_nat n).
Proof. unfold linspace. rewrite app_length, map_length, zrange_length. simpl. lia. Qed.

(** the last edge is the upper end of the range itself (linspace(endpoint=True) assigns it) *)
Lemma linspace_last (first last : F) n : 0 <= n -> edge (linspace first last n) n = last.
Proof.
  intros Hn. unfold edge, linspace. rewrite app_nth2; rewrite map_length, zrange_length; [|lia].
  rewrite Nat.sub_diag. reflexivity.
Qed.

Section Laws.
Variable L : OrdLaws N.

Lemma fltb_false_of_le (a b : F) : fleb a b = true -> fltb b a = false.
Proof. intros H. rewrite (ltb_leb N L), H. reflexivity. Qed.

Lemma bin_index_range edges (first last : F) n x :
  1 <= n -> 0 <= trunc (findex first last n x) <= n -> fleb (edge edges 0) x = true ->
  0 <= bin_index trunc edges first last n x < n.
Proof.
  intros Hn Ht H0. unfold bin_index.
  set (i0 := trunc (findex first last n x)) in *.
  set (i1 := if (i0 =? n) then (i0 - 1)%Z else i0).
  assert (H1 : 0 <= i1 < n) by (unfold i1; destruct (i0 =? n) eqn:E; lia).
  set (i2 := if fltb x (edge edges i1) then (i1 - 1)%Z else i1).
  assert (H2 : 0 <= i2 < n).
  { unfold i2. destruct (fltb x (edge edges i1)) eqn:E; [|lia].
    assert (i1 <> 0). { intros ->. rewrite (fltb_false_of_le _ _ H0) in E. discriminate. }
    lia. }
  destruct (fleb (edge edges (i2 + 1)) x && negb (i2 =? n - 1)) eqn:E; [|lia].
  apply andb_true_iff in E as [_ E]. lia.
Qed.

(** the numpy index is the declarative bin whenever the truncated quotient is off by at most one
    and the edges around it are ordered *)
Lemma bin_index_declarative edges (first last : F) n x s :
  1 <= n -> 0 <= s < n -> in_bin edges n s x = true ->
  (1 <= s -> fleb (edge edges (s - 1)) (edge edges s) = true) ->
  (let i0 := trunc (findex first last n x) in 0 <= i0 /\ s - 1 <= i0 <= s + 1) ->
  bin_index trunc edges first last n x = s.
Proof.
  intros Hn Hs Hb Hlo Hi. cbv zeta in Hi. unfold bin_index.
  set (i0 := trunc (findex first last n x)) in *. destruct Hi as [Hi0 Hi].
  unfold in_bin in Hb. apply andb_true_iff in Hb as [Hb1 Hb2].
  set (i1 := if (i0 =? n) then (i0 - 1)%Z else i0).
  assert (H1 : s - 1 <= i1 <= s + 1 /\ 0 <= i1 < n) by (unfold i1; destruct (i0 =? n) eqn:E; lia).
  destruct H1 as [H1 H1n].
  assert (Hx : forall e, fleb e x = true -> fltb x e = false) by (intros e He; apply fltb_false_of_le, He).
  assert (Hy : forall e, fltb x e = true -> fleb e x = false).
  { intros e He. rewrite (ltb_leb N L) in He. destruct (fleb e x); [discriminate|reflexivity]. }
  destruct (Z.eq_dec i1 (s + 1)) as [E1|E1].
  - (* one too high: x < edges[s+1] *)
    assert (s <> n - 1) by lia. replace (s =? n - 1) with false in Hb2 by lia.
    rewrite E1, Hb2. replace (s + 1 - 1) with s by lia.
    rewrite (Hy _ Hb2). reflexivity.
  - destruct (Z.eq_dec i1 s) as [E2|E2].
    + rewrite E2, (Hx _ Hb1).
      destruct (s =? n - 1) eqn:E3.
      * rewrite andb_false_r. reflexivity.
      * rewrite (Hy _ Hb2). reflexivity.
    + assert (E3 : i1 = s - 1) by lia. assert (1 <= s) by lia.
      rewrite E3. rewrite (Hx (edge edges (s - 1))) by (eapply (leb_trans N L); [apply Hlo; lia | exact Hb1]).
      replace (s - 1 + 1) with s by lia. rewrite Hb1. replace (s - 1 =? n - 1) with false by lia. simpl. reflexivity.
Qed.

(** every value inside the range falls into exactly one bin: the counts add up to the batch size *)
Lemma hist_sum xs n (lo hi : F) :
  1 <= n ->
  (let '(first, last) := outer_edges lo hi in
   forall x, In x xs -> keep first last x = true /\ fleb (edge (linspace first last n) 0) x = true /\
                        0 <= trunc (findex first last n x) <= n) ->
  zsum_l (histogram trunc xs n lo hi) = zlen xs.
Proof.
  intros Hn H. unfold histogram, bin_indices. destruct (outer_edges lo hi) as [first last].
  rewrite bincount_sum.
  - unfold zlen. rewrite map_length. f_equal. f_equal.
    induction xs as [|a xs IH]; [reflexivity|]. simpl.
    destruct (H a (or_introl eq_refl)) as [-> _]. simpl. f_equal. apply IH. intros; apply H; right; assumption.
  - intros i Hi. apply in_map_iff in Hi as (x & <- & Hx). apply filter_In in Hx as [Hx _].
    destruct (H x Hx) as (_ & H0 & Ht). apply bin_index_range; assumption.
Qed.

(** min / max of a column bound all its elements (the range spans the data) *)
Lemma fold_min_le (l : list F) a x :
  (x = a \/ In x l) -> fleb (fold_left (fun a y => if fltb y a then y else a) l a) x = true.
Proof.
  revert a x; induction l as [|y l IH]; intros a x H; simpl.
  - destruct H as [->|[]]. apply (leb_refl N L).
  - destruct (fltb y a) eqn:E.
    + destruct H as [->|[<-|H]].
      * eapply (leb_trans N L); [apply IH; left; reflexivity|]. apply (flt_le L), E.
      * apply IH; left; reflexivity.
      * apply IH; right; assumption.
    + destruct H as [->|[<-|H]].
      * apply IH; left; reflexivity.
      * eapply (leb_trans N L); [apply IH; left; reflexivity|].
        rewrite (ltb_leb N L) in E. destruct (fleb a y) eqn:E'; [reflexivity|discriminate].
      * apply IH; right; assumption.
Qed.
Lemma lmin_le (l : list F) x : In x l -> fleb (lmin l) x = true.
Proof. destruct l as [|a l]; [intros []|]. intros [->|H]; apply fold_min_le; auto. Qed.

Lemma fold_max_ge (l : list F) a x :
  (x = a \/ In x l) -> fleb x (fold_left (fun a y => if fltb a y then y else a) l a) = true.
Proof.
  revert a x; induction l as [|y l IH]; intros a x H; simpl.
  - destruct H as [->|[]]. apply (leb_refl N L).
  - destruct (fltb a y) eqn:E.
    + destruct H as [->|[<-|H]].
      * eapply (leb_trans N L); [apply (flt_le L), E | apply IH; left; reflexivity].
      * apply IH; left; reflexivity.
      * apply IH; right; assumption.
    + destruct H as [->|[<-|H]].
      * apply IH; left; reflexivity.
      * eapply (leb_trans N L); [|apply IH; left; reflexivity].
        rewrite (ltb_leb N L) in E. destruct (fleb y a) eqn:E'; [reflexivity|discriminate].
      * apply IH; right; assumption.
Qed.
Lemma lmax_ge (l : list F) x : In x l -> fleb x (lmax l) = true.
Proof. destruct l as [|a l]; [intros []|]. intros [->|H]; apply fold_max_ge; auto. Qed.

Lemma fold_min_In (l : list F) a :
  let m := fold_left (fun a y => if fltb y a then y else a) l a in m = a \/ In m l.
Proof.
  revert a; induction l as [|y l IH]; intros a; simpl; [left; reflexivity|].
  destruct (fltb y a); destruct (IH (if true then y else a)) as [H|H]; simpl in *; auto;
    destruct (IH a) as [H'|H']; auto.
Qed.
Lemma lmin_In (l : list F) : l <> [] -> In (lmin l) l.
Proof. destruct l as [|a l]; [congruence|]. intros _. destruct (fold_min_In l a) as [H|H]; simpl; [left; symmetry|right]; exact H. Qed.
Lemma fold_max_In (l : list F) a :
  let m := fold_left (fun a y => if fltb a y then y else a) l a in m = a \/ In m l.
Proof.
  revert a; induction l as [|y l IH]; intros a; simpl; [left; reflexivity|].
  destruct (fltb a y); [destruct (IH y) as [H|H] | destruct (IH a) as [H|H]]; auto.
Qed.
Lemma lmax_In (l : list F) : l <> [] -> In (lmax l) l.
Proof. destruct l as [|a l]; [congruence|]. intros _. destruct (fold_max_In l a) as [H|H]; simpl; [left; symmetry|right]; exact H. Qed.

(** with an antisymmetric order (exact arithmetic; doubles except for the pair +0 / -0) the extremes
    do not depend on the order of the data *)
Variable antisym : forall a b : F, fleb a b = true -> fleb b a = true -> a = b.

Lemma lmin_permutation (l l' : list F) : Permutation l l' -> lmin l = lmin l'.
Proof.
  intros P. destruct l as [|a l].
  - apply Permutation_nil in P. subst. reflexivity.
  - assert (Hl' : l' <> []) by (intros ->; apply Permutation_sym, Permutation_nil in P; discriminate).
    apply antisym.
    + apply lmin_le. eapply Permutation_in; [apply Permutation_sym, P|]. apply lmin_In, Hl'.
    + apply lmin_le. eapply Permutation_in; [apply P|]. apply lmin_In. discriminate.
Qed.
Lemma lmax_permutation (l l' : list F) : Permutation l l' -> lmax l = lmax l'.
Proof.
  intros P. destruct l as [|a l].
  - apply Permutation_nil in P. subst. reflexivity.
  - assert (Hl' : l' <> []) by (intros ->; apply Permutation_sym, Permutation_nil in P; discriminate).
    apply antisym.
    + apply lmax_ge. eapply Permutation_in; [apply P|]. apply lmax_In. discriminate.
    + apply lmax_ge. eapply Permutation_in; [apply Permutation_sym, P|]. apply lmax_In, Hl'.
Qed.

End Laws.
End HistProofs.
