(** Checkers evaluated by the correspondence harness on the bit-exact instance [NumFloat]. *)
From MV Require Import Base Num NumFloat Lifecycle Ddm.
From Coq Require Import PrimFloat.

Definition exp_row := (obs * list (option float))%type.

Fixpoint extras_ok (model : list float) (exp : list (option float)) : bool :=
  match model, exp with
  | _, [] => true
  | m :: model', e :: exp' =>
      (match e with None => true | Some v => fbits_eqb m v end) && extras_ok model' exp'
  | [], _ :: _ => false
  end.

Fixpoint chk_trace {K : kernel} (extra : st K -> list float) (s : st K) (xs : list (X K))
         (exp : list exp_row) : bool :=
  match xs, exp with
  | [], [] => true
  | x :: xs', (o, fl) :: exp' =>
      let s' := update s x in
      obs_eqb (observe s') o && extras_ok (extra s') fl && chk_trace extra s' xs' exp'
  | _, _ => false
  end.

(** position of the first disagreement (diagnosis only) *)
Fixpoint first_bad {K : kernel} (extra : st K -> list float) (s : st K) (xs : list (X K))
         (exp : list exp_row) (i : Z) : option (Z * obs * list float) :=
  match xs, exp with
  | [], [] => None
  | x :: xs', (o, fl) :: exp' =>
      let s' := update s x in
      if obs_eqb (observe s') o && extras_ok (extra s') fl then first_bad extra s' xs' exp' (i + 1)
      else Some (i, observe s', extra s')
  | _, _ => Some (i, mk_obs DNone (-1) (-1) recs_none, [])
  end.

Definition ddm_p (nthr : Z) (ws dsc : float) : @ddm_params NumFloat :=
  @Build_ddm_params NumFloat nthr ws dsc.
Definition ddm_extra (p : @ddm_params NumFloat) (s : st (DDM p)) : list float :=
  [d_rate (epoch s); d_std (epoch s)].
Definition chk_ddm nthr ws dsc (errs : list bool) (exp : list exp_row) : bool :=
  let p := ddm_p nthr ws dsc in chk_trace (ddm_extra p) (init (DDM p) ddm_e0) errs exp.
Definition show_ddm nthr ws dsc (errs : list bool) (exp : list exp_row) :=
  let p := ddm_p nthr ws dsc in first_bad (ddm_extra p) (init (DDM p) ddm_e0) errs exp 0.

Definition eddm_p (nthr : Z) (wt dt : float) : @eddm_params NumFloat :=
  @Build_eddm_params NumFloat nthr wt dt.
Definition eddm_extra (p : @eddm_params NumFloat) (s : st (EDDM p)) : list float :=
  [e_mean (epoch s); e_std (epoch s); match e_stat (epoch s) with Some x => x | None => nan end].
Definition chk_eddm nthr wt dt (correct : list bool) (exp : list exp_row) : bool :=
  let p := eddm_p nthr wt dt in chk_trace (eddm_extra p) (init (EDDM p) eddm_e0) correct exp.
Definition show_eddm nthr wt dt (correct : list bool) (exp : list exp_row) :=
  let p := eddm_p nthr wt dt in first_bad (eddm_extra p) (init (EDDM p) eddm_e0) correct exp 0.

Definition stepd_p (w : Z) (aw ad : float) : @stepd_params NumFloat :=
  @Build_stepd_params NumFloat w aw ad.
Definition stepd_extra (p : @stepd_params NumFloat) (s : st (STEPD p)) : list float :=
  [stepd_recent (epoch s); stepd_past (epoch s) (since s); stepd_overall (epoch s) (since s);
   match s_stat (epoch s) with Some x => x | None => nan end].
Definition chk_stepd w aw ad (xs : list (bool * float)) (exp : list exp_row) : bool :=
  let p := stepd_p w aw ad in chk_trace (stepd_extra p) (init (STEPD p) stepd_e0) xs exp.
Definition show_stepd w aw ad (xs : list (bool * float)) (exp : list exp_row) :=
  let p := stepd_p w aw ad in first_bad (stepd_extra p) (init (STEPD p) stepd_e0) xs exp 0.

(** ---------------- Page-Hinkley / CUSUM ---------------- *)
From MV Require Import Pairwise ChangeDet.

Definition b2f (b : bool) : float := if b then 1%float else 0%float.
Definition ph_p (delta thr : float) (burn : Z) (neg : bool) : @ph_params NumFloat :=
  @Build_ph_params NumFloat delta thr burn (if neg then DirNeg else DirPos).
Definition ph_extra (p : @ph_params NumFloat) (s : st (PH p)) : list float :=
  match p_rows (epoch s) with
  | r :: _ => [r_sum r; r_diff r; r_theta r; r_max r; r_min r; r_mean r; b2f (r_check r); r_x r;
               float_ofZ (Z.of_nat (length (p_rows (epoch s))))]
  | [] => []
  end.
Definition chk_ph delta thr burn neg (xs : list float) (exp : list exp_row) : bool :=
  let p := ph_p delta thr burn neg in chk_trace (ph_extra p) (init (PH p) ph_e0) xs exp.
Definition show_ph delta thr burn neg (xs : list float) (exp : list exp_row) :=
  let p := ph_p delta thr burn neg in first_bad (ph_extra p) (init (PH p) ph_e0) xs exp 0.

Definition dir_of (d : Z) : direction := if (d =? 1)%Z then DirPos else if (d =? 2)%Z then DirNeg else DirBoth.
Definition cusum_p (burn : Z) (delta thr : float) (d : Z) : @cusum_params NumFloat :=
  @Build_cusum_params NumFloat burn delta thr (dir_of d).
Definition onan (o : option float) : float := match o with Some x => x | None => nan end.
Definition cusum_extra (p : @cusum_params NumFloat) (s : st (CUSUM p)) : list float :=
  [c_up (epoch s); c_lo (epoch s); onan (c_target (epoch s)); onan (c_sd (epoch s))].
Definition chk_cusum burn delta thr d (tg sd : option float) (xs : list float) (exp : list exp_row) : bool :=
  let p := cusum_p burn delta thr d in chk_trace (cusum_extra p) (init (CUSUM p) (@cusum_e0 NumFloat tg sd)) xs exp.
Definition show_cusum burn delta thr d (tg sd : option float) (xs : list float) (exp : list exp_row) :=
  let p := cusum_p burn delta thr d in first_bad (cusum_extra p) (init (CUSUM p) (@cusum_e0 NumFloat tg sd)) xs exp 0.
