(** Two settings of one detector that differ only in a threshold (C17): generic lock-step theorems. *)
From MV Require Import Base Lifecycle Lifecycle_Proofs.

Section TwoSettings.
Variables (E0 X0 : Type) (reset0 : E0 -> E0) (pol : recs_policy).
Variables step1 step2 : E0 -> Z -> X0 -> E0 * option dstate.   (* 1 = looser, 2 = stricter *)

Definition K1 : kernel := {| E := E0; X := X0; reset_e := reset0; step_e := step1; policy := pol |}.
Definition K2 : kernel := {| E := E0; X := X0; reset_e := reset0; step_e := step2; policy := pol |}.

Definition conv (s : st K1) : st K2 := @mk_st K2 (epoch s) (total s) (since s) (ds s) (recs s).

(** index of the first reported drift in a trace *)
Fixpoint first_drift (l : list obs) : option nat :=
  match l with
  | [] => None
  | o :: t => if is_drift (o_ds o) then Some O
              else match first_drift t with Some k => Some (S k) | None => None end
  end.

Definition opt_le (a b : option nat) : Prop :=     (* None = never *)
  match a, b with
  | Some x, Some y => (x <= y)%nat
  | None, Some _ => False
  | _, None => True
  end.

(** ---- making only the drift threshold stricter ---- *)
Section DriftThreshold.
(** [erel]: "same statistics" (equality, except for fields that merely record the threshold) *)
Variable erel : E0 -> E0 -> Prop.
Hypothesis same_state : forall e1 e2 n x, erel e1 e2 -> erel (fst (step1 e1 n x)) (fst (step2 e2 n x)).
(* (that a drift of the stricter setting is a drift of the looser one follows from the next hypothesis:
   whenever the looser setting does not report drift, both decide alike) *)
Hypothesis same_otherwise : forall e1 e2 n x, erel e1 e2 ->
  snd (step1 e1 n x) <> Some DDrift -> snd (step2 e2 n x) = snd (step1 e1 n x).

Definition srel (a : st K1) (b : st K2) : Prop :=
  erel (epoch a) (epoch b) /\ total a = total b /\ since a = since b /\ ds a = ds b /\ recs a = recs b.

Lemma update_lockstep (a : st K1) (b : st K2) x : srel a b -> ds a <> DDrift ->
  (ds (update a x) = DDrift) \/
  (ds (update a x) <> DDrift /\ srel (update a x) (update b x)).
Proof.
  intros (He & Ht & Hs & Hd & Hr) Hnd.
  assert (Hp1 : pre K1 a = a) by (unfold pre; destruct (ds a); simpl; congruence).
  assert (Hp2 : pre K2 b = b) by (unfold pre; rewrite <- Hd; destruct (ds a); simpl; congruence).
  rewrite (update_eq K1 a x), (update_eq K2 b x). cbv zeta. rewrite Hp1, Hp2. simpl.
  pose proof (same_state (epoch a) (epoch b) (since a + 1) x He) as SS.
  pose proof (same_otherwise (epoch a) (epoch b) (since a + 1) x He) as SO.
  rewrite <- Hs, <- Ht, <- Hd, <- Hr.
  destruct (snd (step1 (epoch a) (since a + 1) x)) as [d|] eqn:E1.
  - destruct d.
    + right. split; [discriminate|]. rewrite (SO ltac:(discriminate)). unfold srel; simpl. repeat split; assumption.
    + right. split; [discriminate|]. rewrite (SO ltac:(discriminate)). unfold srel; simpl. repeat split; assumption.
    + left. reflexivity.
  - right. split; [exact Hnd|]. rewrite (SO ltac:(discriminate)). unfold srel; simpl. repeat split; assumption.
Qed.

Lemma observe_srel (a : st K1) (b : st K2) : srel a b -> observe b = observe a.
Proof. intros (_ & Ht & Hs & Hd & Hr). unfold observe. simpl. rewrite Ht, Hs, Hd, Hr. reflexivity. Qed.

Lemma o_ds_observe (K : kernel) (s : st K) : o_ds (observe s) = ds s.
Proof. reflexivity. Qed.

(** the stricter run never reports its first drift before the looser one does *)
Theorem first_drift_monotone : forall xs (a : st K1) (b : st K2), srel a b -> ds a <> DDrift ->
  opt_le (first_drift (trace a xs)) (first_drift (trace b xs)).
Proof.
  induction xs as [|x xs IH]; intros a b Hr Hnd; [exact I|].
  cbn [trace first_drift]. rewrite !o_ds_observe.
  destruct (update_lockstep a b x Hr Hnd) as [Hd | [Hnd' Hr']].
  - rewrite Hd. cbn [is_drift].
    destruct (is_drift (ds (update b x))); [simpl; lia|].
    destruct (first_drift (trace (update b x) xs)); simpl; [lia | exact I].
  - assert (Hds : ds (update b x) = ds (update a x)) by (destruct Hr' as (_ & _ & _ & H & _); congruence).
    rewrite Hds.
    destruct (is_drift (ds (update a x))) eqn:Ed.
    + simpl. lia.
    + specialize (IH (update a x) (update b x) Hr' Hnd').
      destruct (first_drift (trace (update a x) xs)), (first_drift (trace (update b x) xs)); simpl in *; try lia; exact IH.
Qed.

(** ... and until the looser run's first drift the two observable traces coincide *)
Theorem same_until_first_drift : forall xs (a : st K1) (b : st K2), srel a b -> ds a <> DDrift ->
  first_drift (trace a xs) = None -> trace b xs = trace a xs.
Proof.
  induction xs as [|x xs IH]; intros a b Hr Hnd Hf; [reflexivity|].
  cbn [trace first_drift] in *. rewrite o_ds_observe in Hf.
  destruct (is_drift (ds (update a x))) eqn:Ed; [discriminate|].
  destruct (update_lockstep a b x Hr Hnd) as [Hd | [Hnd' Hr']].
  - rewrite Hd in Ed. discriminate.
  - rewrite (observe_srel _ _ Hr'). f_equal. apply IH; [exact Hr' | exact Hnd'|].
    destruct (first_drift (trace (update a x) xs)); [discriminate | reflexivity].
Qed.
End DriftThreshold.

(** ---- loosening only the warning threshold (1 = looser warning) ---- *)
Section WarningThreshold.
Hypothesis same_state : forall e n x, fst (step1 e n x) = fst (step2 e n x).
Hypothesis same_drift : forall e n x,
  snd (step1 e n x) = Some DDrift <-> snd (step2 e n x) = Some DDrift.
Hypothesis same_decided : forall e n x,
  snd (step1 e n x) = None <-> snd (step2 e n x) = None.
Hypothesis warn_kept : forall e n x,
  snd (step2 e n x) = Some DWarn -> snd (step1 e n x) = Some DWarn.

(** same epoch state and counters; drift in exactly the same places; a warning of the stricter
    setting is a warning of the looser one *)
Definition wrel (a : st K1) (b : st K2) : Prop :=
  epoch a = epoch b /\ total a = total b /\ since a = since b /\
  (ds a = DDrift <-> ds b = DDrift) /\ (ds b = DWarn -> ds a = DWarn).

Lemma update_wrel a b x : wrel a b -> wrel (update a x) (update b x).
Proof.
  intros (He & Ht & Hs & Hd & Hw).
  assert (Hpre : epoch (pre K1 a) = epoch (pre K2 b) /\ total (pre K1 a) = total (pre K2 b) /\
                 since (pre K1 a) = since (pre K2 b) /\
                 ds (pre K1 a) <> DDrift /\ ds (pre K2 b) <> DDrift /\
                 (ds (pre K2 b) = DWarn -> ds (pre K1 a) = DWarn)).
  { unfold pre.
    destruct (ds a) eqn:Ea; destruct (ds b) eqn:Eb;
      try (exfalso; destruct Hd as [H1 H2]; first [discriminate (H1 eq_refl) | discriminate (H2 eq_refl)]);
      try (exfalso; discriminate (Hw eq_refl));
      simpl; rewrite ?Ea, ?Eb, ?He; repeat split; try assumption; try discriminate; try reflexivity;
      try (intros; congruence). }
  destruct Hpre as (He' & Ht' & Hs' & Hna & Hnb & Hw').
  rewrite (update_eq K1 a x), (update_eq K2 b x). cbv zeta. unfold wrel. simpl.
  rewrite He', Ht', Hs'. rewrite (same_state (epoch (pre K2 b)) (since (pre K2 b) + 1) x).
  pose proof (same_drift (epoch (pre K2 b)) (since (pre K2 b) + 1) x) as SD.
  pose proof (same_decided (epoch (pre K2 b)) (since (pre K2 b) + 1) x) as SN.
  pose proof (warn_kept (epoch (pre K2 b)) (since (pre K2 b) + 1) x) as WK.
  destruct (snd (step1 (epoch (pre K2 b)) (since (pre K2 b) + 1) x)) as [d1|] eqn:E1;
  destruct (snd (step2 (epoch (pre K2 b)) (since (pre K2 b) + 1) x)) as [d2|] eqn:E2;
    repeat split; try reflexivity; intros.
  - subst. destruct SD as [SD _]. specialize (SD eq_refl). congruence.
  - subst. destruct SD as [_ SD]. specialize (SD eq_refl). congruence.
  - subst. specialize (WK eq_refl). congruence.
  - destruct SN as [_ SN]. specialize (SN eq_refl). discriminate.
  - destruct SN as [_ SN]. specialize (SN eq_refl). discriminate.
  - destruct SN as [_ SN]. specialize (SN eq_refl). discriminate.
  - destruct SN as [SN _]. specialize (SN eq_refl). discriminate.
  - destruct SN as [SN _]. specialize (SN eq_refl). discriminate.
  - destruct SN as [SN _]. specialize (SN eq_refl). discriminate.
  - contradiction.
  - contradiction.
  - apply Hw'. assumption.
Qed.

Theorem warning_loosening : forall xs a b, wrel a b ->
  Forall2 (fun o1 o2 => (o_ds o1 = DDrift <-> o_ds o2 = DDrift) /\ (o_ds o2 = DWarn -> o_ds o1 = DWarn)
                         /\ o_total o1 = o_total o2 /\ o_since o1 = o_since o2)
          (trace a xs) (trace b xs).
Proof.
  induction xs as [|x xs IH]; intros a b H; simpl; [constructor|].
  pose proof (update_wrel a b x H) as H'. constructor; [|apply IH; exact H'].
  destruct H' as (_ & Ht & Hs & Hd & Hw). unfold observe; simpl. repeat split; try assumption; apply Hd.
Qed.
End WarningThreshold.

End TwoSettings.
